#!/bin/bash
# usage: try_patch.sh <PID> <patch.diff | -e 'sed-expr' file> ...   — run ./check PID against a scratch copy of /repo with a change applied
# (scratch copy under /tmp, removed afterwards; /repo itself is never touched)
PID=$1; shift
S=$(mktemp -d /tmp/scratch.XXXXXX)
mkdir -p $S; (cd /repo && git archive HEAD edb | tar -x -C $S); 
# carry uncommitted working-tree changes too
(cd /repo && git diff HEAD -- edb) | (cd $S && git apply --allow-empty 2>/dev/null || true)
if [ "$1" = "-e" ]; then sed -i "$2" $S/$3 || exit 9; (cd $S && diff -u /repo/$3 $3 | head -20)
else P=$(readlink -f "$1"); (cd $S && git apply --verbose "$P" 2>&1 | tail -2) ; fi
(cd /verif && VERIF_REPO=$S ./check $PID ${CHECK_ARGS:-}); rc=$?
rm -rf $S
echo "exit=$rc"
