#!/usr/bin/env python3
"""Mutation probe for one function under contract (a self-test of the contracts, not a check):
   python3 tools/mutate.py <PID> <repo-relative file> <qualified function name> [max-mutants]
Each mutant changes ONE operator / constant inside the function (comparison flipped or loosened, and<->or, +1/-1, True<->False, `not` dropped) in a scratch copy of /repo under /tmp,
runs `./check PID --only <function> --no-native` against it and reports: killed (exit 1), undecided (exit 2), survived (exit 0: equivalent mutant or a clause too weak).
Scratch copies are removed as soon as each run ends.  Nothing is written to /repo or to the evidence files."""
import ast, os, subprocess, sys, tempfile, shutil, concurrent.futures as cf
ROOT = os.path.dirname(os.path.dirname(os.path.abspath(__file__)))
REPO = os.environ.get('VERIF_REPO', '/repo')
def find(tree, qual):
    parts = qual.split('.'); body = tree.body; node = None
    for p in parts:
        node = next((n for n in body if isinstance(n, (ast.FunctionDef, ast.AsyncFunctionDef, ast.ClassDef)) and n.name == p), None)
        if node is None: return None
        body = node.body
    return node
CMP = {ast.Lt: ast.LtE, ast.LtE: ast.Lt, ast.Gt: ast.GtE, ast.GtE: ast.Gt, ast.Eq: ast.NotEq, ast.NotEq: ast.Eq, ast.Is: ast.IsNot, ast.IsNot: ast.Is, ast.In: ast.NotIn, ast.NotIn: ast.In}
def mutants(src, qual):
    tree = ast.parse(src); fn = find(tree, qual)
    if fn is None: raise SystemExit('function not found: ' + qual)
    sites = []
    for n in ast.walk(fn):
        if isinstance(n, ast.Compare) and len(n.ops) == 1 and type(n.ops[0]) in CMP: sites.append(('cmp', n))
        elif isinstance(n, ast.BoolOp): sites.append(('bool', n))
        elif isinstance(n, ast.UnaryOp) and isinstance(n.op, ast.Not): sites.append(('not', n))
        elif isinstance(n, ast.Constant) and isinstance(n.value, bool): sites.append(('const', n))
        elif isinstance(n, ast.Constant) and isinstance(n.value, int) and not isinstance(n.value, bool) and n.value in (0, 1, -1): sites.append(('int', n))
    out = []
    lines = src.splitlines(keepends=True)
    for kind, n in sites:
        seg = ast.get_source_segment(src, n)
        if seg is None or '\n' in seg: continue
        import copy
        m = copy.deepcopy(n)
        if kind == 'cmp': m.ops = [CMP[type(n.ops[0])]()]
        elif kind == 'bool': m.op = ast.Or() if isinstance(n.op, ast.And) else ast.And()
        elif kind == 'not': m = m.operand
        elif kind == 'const': m.value = not n.value
        elif kind == 'int': m.value = n.value + 1
        new = ast.unparse(m)
        if kind in ('bool',) : new = '(' + new + ')'
        ln = n.lineno - 1; line = lines[ln]
        mutated = line[:n.col_offset] + new + line[n.end_col_offset:]
        out.append((n.lineno, '%s -> %s' % (seg, new), lines[:ln] + [mutated] + lines[ln + 1:]))
    return out
def run(pid, rel, qual, m):
    lineno, desc, newlines = m
    d = tempfile.mkdtemp(prefix='mut.', dir='/tmp')
    try:
        subprocess.run('cd %s && git archive HEAD edb | tar -x -C %s' % (REPO, d), shell=True, check=True)
        open(os.path.join(d, rel), 'w').write(''.join(newlines))
        try: compile(''.join(newlines), rel, 'exec')
        except SyntaxError: return (lineno, desc, 'syntax')
        env = dict(os.environ, VERIF_REPO=d)
        try:
            p = subprocess.run([os.path.join(ROOT, 'check'), pid, '--only', rel + ':' + qual, '--no-native', '--jobs', '2'], cwd=ROOT, env=env, capture_output=True, text=True, timeout=900)
            rc = p.returncode
            first = next((l.strip() for l in p.stdout.splitlines() if 'failed obligation' in l or 'UNDECIDED' in l), '')
        except subprocess.TimeoutExpired: rc = 'timeout'; first = ''
        return (lineno, desc, {0: 'SURVIVED', 1: 'killed', 2: 'undecided', 3: 'crash'}.get(rc, str(rc)) + ('  ' + first[:150] if first else ''))
    finally: shutil.rmtree(d, ignore_errors=True)
if __name__ == '__main__':
    pid, rel, qual = sys.argv[1:4]; mx = int(sys.argv[4]) if len(sys.argv) > 4 else 12
    src = open(os.path.join(REPO, rel)).read()
    ms = mutants(src, qual)[:mx]
    with cf.ThreadPoolExecutor(max_workers=6) as ex:
        for r in ex.map(lambda m: run(pid, rel, qual, m), ms): print('%s:%d  %-60s %s' % (rel.split('/')[-1], r[0], r[1][:60], r[2]))
