"""Native-module stubs so that the pure-Python parts of /repo import for *replay only*.
Activated by putting /verif/stubs first on PYTHONPATH.  Never part of a proof."""
import sys, types, re, uuid, os, importlib.abc, importlib.machinery

REPO = os.environ.get('VERIF_REPO', '/repo')

def _kw_sets():
    src = open(os.path.join(REPO, 'edb/edgeql-parser/src/keywords.rs'), encoding='utf-8').read()
    out = {}
    for name in ('UNRESERVED_KEYWORDS', 'PARTIAL_RESERVED_KEYWORDS', 'FUTURE_RESERVED_KEYWORDS', 'CURRENT_RESERVED_KEYWORDS'):
        m = re.search(r'%s[^=]*=\s*phf_set!\s*\((.*?)\);' % name, src, re.S)
        out[name] = frozenset(re.findall(r'"([^"]+)"', m.group(1))) if m else frozenset()
    return out

def _mk(name, **attrs):
    m = types.ModuleType(name); m.__dict__.update(attrs); sys.modules[name] = m
    if '.' in name:
        parent, _, leaf = name.rpartition('.')
        if parent in sys.modules: setattr(sys.modules[parent], leaf, m)
    return m

class _Anything:
    """object that absorbs any attribute access / call / subclassing"""
    def __init__(self, *a, **k): pass
    def __call__(self, *a, **k): return _Anything()
    def __getattr__(self, n):
        if n.startswith('__') and n.endswith('__'): raise AttributeError(n)
        return _Anything()
    def __mro_entries__(self, bases): return (object,)
    def __iter__(self): return iter(())
    def __or__(self, o): return self
    def __ror__(self, o): return self
    def __getitem__(self, k): return _Anything()

class _StubMeta(type):
    def __getattr__(cls, n):
        if n.startswith('__') and n.endswith('__'): raise AttributeError(n)
        return _Anything()

class _StubModule(types.ModuleType):
    def __getattr__(self, n):
        if n.startswith('__') and n.endswith('__'): raise AttributeError(n)
        v = _StubMeta(n, (object,), {'__init__': lambda self, *a, **k: None, '__init_subclass__': classmethod(lambda cls, **k: None)})
        setattr(self, n, v); return v

STUB_PREFIXES = ('parsing', 'graphql', 'edb.pgsql.parser.parser', 'edb.server.dbview.dbview', 'edb.server._rust_native',
                 'edb.server.compiler.rpc', 'edb.server.pgcon.pgcon', 'edb.protocol.protocol', 'edb.server.protocol.',
                 'edb.graphql._graphql_rewrite', 'edb.graphql.extension', 'edb.server.pgproto', 'edb.server.cache.stmt_cache',
                 'edb.server.pgcon.rust_transport', 'edb.server.conn_pool', 'edb.server._conn_pool', 'edb.server._pg_rust', 'edb.server._http',
                 'edb.server.http', 'edb._graphql_rewrite', 'httptools', 'setproctitle', 'uvloop', 'jwcrypto', 'aiosmtplib', 'hishel', 'httpx')

class _Finder(importlib.abc.MetaPathFinder, importlib.abc.Loader):
    def find_spec(self, fullname, path, target=None):
        if fullname in ('edb._edgeql_parser', 'edb.common.turbo_uuid'):
            return importlib.machinery.ModuleSpec(fullname, self)
        for p in STUB_PREFIXES:
            if fullname == p.rstrip('.') or fullname.startswith(p if p.endswith('.') else p + '.'):
                # only stub when no real python source exists
                rel = fullname.replace('.', '/')
                if os.path.exists(os.path.join(REPO, rel + '.py')) or os.path.exists(os.path.join(REPO, rel, '__init__.py')):
                    return None
                return importlib.machinery.ModuleSpec(fullname, self, is_package=True)
        return None
    def create_module(self, spec):
        m = _StubModule(spec.name)
        if spec.submodule_search_locations is not None: m.__path__ = []
        return m
    def exec_module(self, m):
        if m.__name__ == 'edb._edgeql_parser':
            kw = _kw_sets()
            m.unreserved_keywords = kw['UNRESERVED_KEYWORDS']; m.partial_reserved_keywords = kw['PARTIAL_RESERVED_KEYWORDS']
            m.future_reserved_keywords = kw['FUTURE_RESERVED_KEYWORDS']; m.current_reserved_keywords = kw['CURRENT_RESERVED_KEYWORDS']
            class SyntaxError(Exception): pass
            m.SyntaxError = SyntaxError
        elif m.__name__ == 'edb.common.turbo_uuid':
            class UUID(uuid.UUID):
                def __init__(self, inp):
                    if isinstance(inp, uuid.UUID): super().__init__(int=inp.int)
                    elif isinstance(inp, (bytes, bytearray, memoryview)): super().__init__(bytes=bytes(inp))
                    else: super().__init__(inp)
            m.UUID = UUID
        elif m.__name__ == 'parsing':
            class _P:
                def __init_subclass__(cls, **k): pass
                def __init__(self, *a, **k): pass
            for n in ('Grammar', 'Token', 'Nonterm', 'Precedence', 'Spec', 'Lr', 'Glr', 'Symbol', 'NontermSpec', 'TokenSpec', 'Production'):
                setattr(m, n, type(n, (_P,), {}))
            class SyntaxError(Exception): pass
            m.SyntaxError = SyntaxError; m.UnexpectedToken = type('UnexpectedToken', (SyntaxError,), {})

sys.meta_path.insert(0, _Finder())
