// dumps, for every Unicode scalar value, the character classes the EdgeQL lexer (tokenizer.rs) uses for identifiers:
// bit0 is_alphabetic, bit1 is_alphanumeric, bit2 is_numeric   (one byte per code point, surrogates = 0)
use std::io::Write;
fn main() {
    let mut out = Vec::with_capacity(0x110000);
    for cp in 0u32..0x110000 {
        let b = match char::from_u32(cp) { Some(c) => (c.is_alphabetic() as u8) | ((c.is_alphanumeric() as u8) << 1) | ((c.is_numeric() as u8) << 2), None => 0 };
        out.push(b);
    }
    std::io::stdout().write_all(&out).unwrap();
}
