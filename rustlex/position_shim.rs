// shim of crate::position: only the two plain structs the tokenizer uses
#[derive(Debug, Clone, Copy, Default, PartialEq)]
pub struct Span { pub start: u64, pub end: u64 }
#[derive(PartialOrd, Ord, PartialEq, Eq, Clone, Copy, Default, Hash, Debug)]
pub struct Pos { pub line: usize, pub column: usize, pub offset: u64 }
