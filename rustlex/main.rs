// rustlex: the REAL EdgeQL lexer sources of /repo (included by #[path], not copied) behind a line protocol.
// stdin: one hex-encoded UTF-8 text per line.  stdout per line: JSON list of tokens {kind,text,value} or {"error":..}
#[path = "@REPO@/edb/edgeql-parser/src/keywords.rs"] pub mod keywords;
#[path = "@REPO@/edb/edgeql-parser/src/tokenizer.rs"] pub mod tokenizer;
#[path = "@REPO@/edb/edgeql-parser/src/validation.rs"] pub mod validation;
#[path = "@REPO@/edb/edgeql-parser/src/helpers/mod.rs"] pub mod helpers;
#[path = "position_shim.rs"] pub mod position;
use std::io::{self, BufRead, Write};
fn esc(s: &str) -> String {
    let mut o = String::new();
    for c in s.chars() { match c { '"' => o.push_str("\\\""), '\\' => o.push_str("\\\\"), c if (c as u32) < 0x20 || (c as u32) > 0x7e => o.push_str(&format!("\\u{:04x}", c as u32).chars().take(6).collect::<String>().as_str().to_string().replace("\\u", if (c as u32) > 0xffff {"\\U"} else {"\\u"})), c => o.push(c) } }
    o
}
fn jstr(s: &str) -> String {
    // JSON string with \uXXXX (surrogate pairs for astral)
    let mut o = String::from("\"");
    for u in s.encode_utf16() { if u == 0x22 { o.push_str("\\\""); } else if u == 0x5c { o.push_str("\\\\"); } else if u < 0x20 || u > 0x7e { o.push_str(&format!("\\u{:04x}", u)); } else { o.push(u as u8 as char); } }
    o.push('"'); o
}
fn unhex(s: &str) -> Vec<u8> { (0..s.len() / 2).map(|i| u8::from_str_radix(&s[2 * i..2 * i + 2], 16).unwrap()).collect() }
fn main() {
    let _ = esc;
    let stdin = io::stdin(); let out = io::stdout(); let mut out = out.lock();
    for line in stdin.lock().lines() {
        let line = line.unwrap(); let bytes = unhex(line.trim());
        let text = match String::from_utf8(bytes) { Ok(t) => t, Err(_) => { writeln!(out, "{{\"error\":\"not utf8\"}}").unwrap(); continue; } };
        let mut toks: Vec<String> = Vec::new(); let mut err: Option<String> = None;
        for t in tokenizer::Tokenizer::new(&text).validated_values() {
            match t {
                Ok(tok) => {
                    let val = match &tok.value {
                        Some(tokenizer::Value::String(s)) => format!("{{\"str\":{}}}", jstr(s)),
                        Some(tokenizer::Value::Bytes(b)) => format!("{{\"bytes\":\"{}\"}}", b.iter().map(|x| format!("{:02x}", x)).collect::<String>()),
                        Some(other) => format!("{{\"other\":{}}}", jstr(&format!("{:?}", other))),
                        None => "null".to_string(),
                    };
                    toks.push(format!("{{\"kind\":{},\"text\":{},\"value\":{}}}", jstr(&format!("{:?}", tok.kind)), jstr(&tok.text), val));
                }
                Err(e) => { err = Some(format!("{:?}", e)); break; }
            }
        }
        match err { Some(e) => writeln!(out, "{{\"error\":{},\"tokens\":[{}]}}", jstr(&e), toks.join(",")).unwrap(), None => writeln!(out, "{{\"tokens\":[{}]}}", toks.join(",")).unwrap() }
    }
}
