#!/bin/sh
# builds /verif/out/rustlex/rustlex from /repo's lexer sources (offline, plain rustc). Rebuilt when sources change.
set -e
HERE="$(cd "$(dirname "$0")" && pwd)"; REPO="${VERIF_REPO:-/repo}"; OUT="$HERE/../out/rustlex"; mkdir -p "$OUT"
SRC="$REPO/edb/edgeql-parser/src"
SUM=$(cat "$SRC/tokenizer.rs" "$SRC/validation.rs" "$SRC/keywords.rs" "$SRC/helpers/mod.rs" "$SRC/helpers/strings.rs" "$SRC/helpers/bytes.rs" "$HERE/main.rs" "$HERE"/shims/*.rs | sha256sum | cut -c1-16)
if [ -x "$OUT/rustlex" ] && [ "$(cat "$OUT/stamp" 2>/dev/null)" = "$SUM:$REPO" ]; then exit 0; fi
RUSTC="${RUSTC:-$(command -v rustc || echo /root/.cargo/bin/rustc)}"
for c in memchr phf bigdecimal; do "$RUSTC" --edition 2021 -O --crate-type rlib --crate-name $c "$HERE/shims/$c.rs" -o "$OUT/lib$c.rlib" 2>"$OUT/build_$c.log"; done
sed "s#@REPO@#$REPO#g" "$HERE/main.rs" > "$OUT/main.rs"; cp "$HERE/position_shim.rs" "$OUT/position_shim.rs"
"$RUSTC" --edition 2021 -O -A warnings --crate-name rustlex "$OUT/main.rs" --extern memchr="$OUT/libmemchr.rlib" --extern phf="$OUT/libphf.rlib" --extern bigdecimal="$OUT/libbigdecimal.rlib" -o "$OUT/rustlex" 2>"$OUT/build_main.log"
echo "$SUM:$REPO" > "$OUT/stamp"
