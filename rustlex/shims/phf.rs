// shim: phf::Set as a static slice with linear lookup; phf_set! macro
pub struct Set<T: 'static>(pub &'static [T]);
impl Set<&'static str> {
    pub fn get_key(&self, k: &str) -> Option<&&'static str> { self.0.iter().find(|x| **x == k) }
    pub fn contains(&self, k: &str) -> bool { self.get_key(k).is_some() }
    pub fn iter(&self) -> std::slice::Iter<'static, &'static str> { self.0.iter() }
    pub fn len(&self) -> usize { self.0.len() }
}
#[macro_export]
macro_rules! phf_set { ($($x:expr),* $(,)?) => { $crate::Set(&[$($x),*]) }; }
