// shim: memchr::memmem::find (naive substring search; same contract: first occurrence)
pub mod memmem {
    pub fn find(haystack: &[u8], needle: &[u8]) -> Option<usize> {
        if needle.is_empty() { return Some(0); }
        if needle.len() > haystack.len() { return None; }
        (0..=haystack.len() - needle.len()).find(|&i| &haystack[i..i + needle.len()] == needle)
    }
}
