// shim: just enough of bigdecimal for the tokenizer to compile; numeric literal *values* are not used by the C18 oracle
use std::str::FromStr;
#[derive(Debug, Clone, PartialEq)]
pub struct BigDecimal(pub String);
impl FromStr for BigDecimal { type Err = String; fn from_str(s: &str) -> Result<Self, String> {
    if s.chars().all(|c| c.is_ascii_digit() || "+-.eE_".contains(c)) && !s.is_empty() { Ok(BigDecimal(s.to_string())) } else { Err("bad decimal".into()) } } }
impl std::fmt::Display for BigDecimal { fn fmt(&self, f: &mut std::fmt::Formatter) -> std::fmt::Result { write!(f, "{}", self.0) } }
impl BigDecimal { pub fn normalized(&self) -> BigDecimal { self.clone() } }
pub mod num_bigint {
    pub struct BigInt(pub String);
    impl BigInt { pub fn to_str_radix(&self, _r: u32) -> String { self.0.clone() } }
    pub trait ToBigInt { fn to_bigint(&self) -> Option<BigInt>; }
    impl ToBigInt for super::BigDecimal { fn to_bigint(&self) -> Option<BigInt> { Some(BigInt(self.0.clone())) } }
}
