#!/usr/bin/env python
"""C06 witness (C): UNION of unrelated object types inherits the LAST
operand's disjoint_union flag.

Property under test: "a result the compiler classifies as duplicate-free
(multiplicity UNIQUE) contains no duplicates".

Run as:
    cd /repo && PYTHONPATH=/verif/stubs:/repo:/verif \
        /venv/bin/python /verif/findings/c06_union_types_disjoint_flag.py

(set VERIF_REPO to test another checkout; the inference code is always
imported from that checkout / the current working directory.)

Suspect: edb/edgeql/compiler/inference/multiplicity.py, the std::UNION rule
of __infer_oper_call():

    for m in mult:
        if m.is_unique():
            if (
                result.is_empty()
                or types_disjoint
                or (result.disjoint_union and m.disjoint_union)
            ):
                result = m          # <-- the whole MultiplicityInfo of m

When the operand types are unrelated object types (`types_disjoint`), the
UNION is indeed duplicate-free *within one evaluation*, but `result = m`
also hands the UNION the `disjoint_union` flag ("disjoint across iterations
of the tracked FOR iterator") of whatever operand happens to come LAST,
although an earlier operand may be the very same set in every iteration.
The enclosing FOR trusts the flag and returns UNIQUE.

    FOR b IN B UNION (A UNION b)
    FOR x IN {1, 2} UNION (A UNION (SELECT B FILTER .n = x))

(A, B unrelated object types) repeat all of A once per iteration.  Swapping
the UNION operands (`b UNION A`) makes the very same inference answer
DUPLICATE.

The sandbox cannot parse EdgeQL text or bootstrap the std schema (no Rust
parser), so the real compiler front end cannot be run.  Instead a *mini
front end* below replays, step by step, what edb/edgeql/compiler does for
these queries (stmt.compile_ForQuery, stmt.compile_SelectQuery,
clauses.compile_where_clause, stmtctx.declare_view, setgen.compile_path /
class_set / extend_path, expr.compile_Set, polyres.compile_arg,
func.compile_operator), using the REAL irast / PathId / ScopeTreeNode
classes and the REAL scope-tree operations (attach_fence, attach_path,
attach_subtree incl. factoring), and a small REAL schema built with the
schema API: std::BaseObject, std::Object, default::A, default::B with a
required single property `n: int64`, std::int64, std::bool, the abstract
constraint std::exclusive; FOR-iterator views are derived with
derive_subtype() like schemactx.derive_view does, the UNION result type is
made with s_utils.ensure_union_type() like schemactx.get_union_type does,
pointer refs come from typeutils.ptrref_from_ptrcls().  env.set_types (which
the UNION rule reads) is filled the way setgen.new_set fills it.  The
compiler options assumed are the defaults of compile_ast_to_ir (as used by
tests/test_edgeql_ir_mult_inference.py): no implicit id/__tid__ shape
injection, so no shapes appear in the IR.

The REAL cardinality + multiplicity inference is then run on that IR exactly
the way stmtctx.fini_expression runs it.  The equivalent qlast tree is
evaluated with the repository's reference evaluator edb.tools.toy_eval_model
over a toy database with one A and two B objects (n = 1, 2).

Exit status: 1 = defect reproduced (UNIQUE but duplicates in the result),
             0 = inference consistent with the evaluation,
             2 = harness error / a sanity control misbehaved.
"""
import os
import sys

REPO = os.environ.get('VERIF_REPO') or os.getcwd()
try:
    os.chdir(REPO)
    sys.path.insert(0, REPO)
    try:
        import edb._edgeql_parser  # noqa: F401  (stubbed by /verif/stubs)
    except ImportError:
        # stubs not on PYTHONPATH: activate them by hand
        sys.path.insert(0, '/verif/stubs')
        import sitecustomize  # noqa: F401

    import itertools
    import traceback
    import types
    import uuid

    from edb.ir import ast as irast
    from edb.ir import pathid
    from edb.ir import scopetree
    from edb.ir import typeutils
    from edb.schema import name as sn
    from edb.schema import constraints as s_constr
    from edb.schema import modules as s_mod
    from edb.schema import objects as so
    from edb.schema import objtypes as s_objtypes
    from edb.schema import pointers as s_pointers
    from edb.schema import properties as s_props
    from edb.schema import scalars as s_scalars
    from edb.schema import schema as s_schema
    from edb.schema import types as s_types
    from edb.schema import utils as s_utils
    from edb.edgeql import ast as qlast
    from edb.edgeql import qltypes as ft
    from edb.edgeql.compiler.inference import cardinality as C
    from edb.edgeql.compiler.inference import multiplicity as M
    from edb.edgeql.compiler.inference import context as IC
    from edb.tools import toy_eval_model as toy

    assert os.path.realpath(M.__file__).startswith(
        os.path.realpath(REPO) + os.sep), (M.__file__, REPO)
except Exception:
    import traceback
    traceback.print_exc()
    print('HARNESS ERROR: cannot import the inference code')
    sys.exit(2)


# ---------------------------------------------------------------------------
# mini front end: replays edb/edgeql/compiler for
#   FOR / SELECT .. FILTER / {consts} / Type / .ptr / alias / UNION / =
# ---------------------------------------------------------------------------
class Ctx:
    """The pieces of compiler.context.ContextLevel that matter here."""

    def __init__(self, path_scope, path_id_namespace=frozenset()):
        self.path_scope = path_scope
        self.path_id_namespace = frozenset(path_id_namespace)
        self.aliased_views = {}
        self.partial_path_prefix = None

    def new(self, *, path_scope=None, ns=None):
        c = Ctx(self.path_scope if path_scope is None else path_scope,
                self.path_id_namespace if ns is None else ns)
        c.aliased_views = dict(self.aliased_views)
        c.partial_path_prefix = self.partial_path_prefix
        return c

    def log_warning(self, w):  # scopetree.WarningContext
        raise AssertionError(f'unexpected scoping warning: {w}')


class FrontEnd:
    def __init__(self):
        schema = s_schema.EMPTY_SCHEMA
        for m in ('std', '__derived__', 'default'):
            schema, _ = s_mod.Module.create_in_schema(
                schema, name=sn.UnqualName(m), id=uuid.uuid4())

        def olist(objs):
            return so.ObjectList.create(schema, list(objs))

        def mkscalar(schema, name):
            return s_scalars.ScalarType.create_in_schema(
                schema, name=sn.QualName('std', name), id=uuid.uuid4())

        def mkobj(schema, mod, name, bases=(), ancestors=()):
            return s_objtypes.ObjectType.create_in_schema(
                schema, name=sn.QualName(mod, name), id=uuid.uuid4(),
                bases=olist(bases), ancestors=olist(ancestors))

        schema, self.int_t = mkscalar(schema, 'int64')
        schema, self.bool_t = mkscalar(schema, 'bool')
        schema, _ = s_constr.Constraint.create_in_schema(
            schema, name=sn.QualName('std', 'exclusive'), id=uuid.uuid4(),
            abstract=True)
        schema, base_t = mkobj(schema, 'std', 'BaseObject')
        schema, obj_t = mkobj(
            schema, 'std', 'Object', [base_t], [base_t])
        schema, self.A = mkobj(
            schema, 'default', 'A', [obj_t], [obj_t, base_t])
        schema, self.B = mkobj(
            schema, 'default', 'B', [obj_t], [obj_t, base_t])
        # required single property default::B.n -> std::int64
        pname = sn.QualName('default', sn.get_specialized_name(
            sn.QualName('default', 'n'), 'default::B'))
        schema, self.B_n = s_props.Property.create_in_schema(
            schema, name=pname, id=uuid.uuid4(),
            source=self.B, target=self.int_t,
            bases=olist([]), ancestors=olist([]),
            required=True, cardinality=ft.SchemaCardinality.One)
        self.schema = schema
        self.types = {'A': self.A, 'B': self.B}
        self.pointers = {(self.B, 'n'): self.B_n}

        # compiler.context.Environment bits used by the inference
        self.root = scopetree.ScopeTreeNode(fenced=True)   # env.path_scope
        self.scope_tree_nodes = {}
        self.set_types = {}
        self._scope_ids = itertools.count(1)
        self._aliases = {}

    # -- helpers -----------------------------------------------------------
    def alias(self, hint):
        n = self._aliases[hint] = self._aliases.get(hint, 0) + 1
        return f'{hint}~{n}'

    def typeref(self, t):
        return typeutils.type_to_typeref(self.schema, t, cache=None)

    def new_set(self, expr, stype, path_id, **kw):          # setgen.new_set
        s = irast.Set(
            path_id=path_id, typeref=self.typeref(stype), expr=expr, **kw)
        self.set_types[s] = stype
        return s

    def new_set_from_set(self, s, **kw):           # setgen.new_set_from_set
        attrs = dict(
            path_scope_id=s.path_scope_id,
            is_binding=s.is_binding,
            is_visible_binding_ref=s.is_visible_binding_ref,
        )
        attrs.update(kw)
        return self.new_set(s.expr, self.set_types[s], s.path_id, **attrs)

    def expression_set(self, expr, stype, ctx):       # setgen.expression_set
        path_id = pathid.PathId.from_type(          # get_expression_path_id
            self.schema, stype, env=None,
            typename=sn.QualName('__derived__', self.alias('expr')),
            namespace=ctx.path_id_namespace)
        return self.new_set(expr, stype, path_id)

    def assign_set_scope(self, s, scope):         # pathctx.assign_set_scope
        if scope.unique_id is None:
            scope.unique_id = next(self._scope_ids)
            self.scope_tree_nodes[scope.unique_id] = scope
        assert not scope.find_child(s.path_id)
        s.path_scope_id = scope.unique_id
        return s

    def register_set_in_scope(self, s, ctx):  # pathctx.register_set_in_scope
        ctx.path_scope.attach_path(
            s.path_id, optional=False, span=None, ctx=ctx)

    # -- qlast dispatch ----------------------------------------------------
    def compile(self, ql, ctx):
        if isinstance(ql, qlast.ForQuery):
            return self.compile_ForQuery(ql, ctx)
        if isinstance(ql, qlast.SelectQuery):
            return self.compile_SelectQuery(ql, ctx)
        if isinstance(ql, qlast.Set):
            return self.compile_Set(ql, ctx)
        if isinstance(ql, qlast.Path):
            return self.compile_path(ql, ctx)
        if isinstance(ql, qlast.BinOp) and ql.op == 'UNION':
            return self.compile_union(ql, ctx)
        if isinstance(ql, qlast.BinOp) and ql.op == '=':
            return self.compile_eq(ql, ctx)
        raise NotImplementedError(type(ql))

    @staticmethod
    def ensure_ql_query(ql, **kw):                # astutils.ensure_ql_query
        if isinstance(ql, qlast.Query):
            return ql
        return qlast.SelectQuery(result=ql, implicit=True, **kw)

    def compile_Set(self, ql, ctx):                        # expr.compile_Set
        # {c1, .., cn} of constants: compiled as a UNION tree which
        # try_constant_set() then collapses into one irast.ConstantSet that
        # is wrapped with setgen.ensure_set().  (The real compiler leaves
        # the empty fences of the discarded UNION operands in the scope
        # tree; empty fences are invisible to the inference.)
        assert len(ql.elements) > 1
        assert all(isinstance(e, qlast.Constant) for e in ql.elements)
        int_ref = self.typeref(self.int_t)
        cset = irast.ConstantSet(
            elements=tuple(
                irast.IntegerConstant(value=e.value, typeref=int_ref)
                for e in ql.elements),
            typeref=int_ref)
        return self.expression_set(cset, self.int_t, ctx)

    def compile_path(self, ql, ctx):                    # setgen.compile_path
        if ql.partial:
            path_tip = ctx.partial_path_prefix
            assert path_tip is not None
            steps = ql.steps
        else:
            step, *steps = ql.steps
            assert isinstance(step, qlast.ObjectRef)
            view_set = ctx.aliased_views.get(step.name)
            if view_set is not None:
                # FOR binding; pinned_path_id_ns is not None => no ns merge
                path_tip = self.new_set_from_set(
                    view_set, is_binding=irast.BindingKind.For)
            else:
                # setgen.class_set
                stype = self.types[step.name]
                path_tip = self.new_set(
                    irast.TypeRoot(typeref=self.typeref(stype)),
                    stype,
                    pathid.PathId.from_type(
                        self.schema, stype, env=None,
                        namespace=ctx.path_id_namespace))
        for step in steps:
            # setgen.ptr_step_set / extend_path
            assert isinstance(step, qlast.Ptr)
            src_t = self.set_types[path_tip]
            ptrcls = self.pointers[src_t, step.name]
            ptrref = typeutils.ptrref_from_ptrcls(
                schema=self.schema, ptrcls=ptrcls,
                cache=None, typeref_cache=None)
            path_id = path_tip.path_id.extend(
                ptrref=ptrref,
                direction=s_pointers.PointerDirection.Outbound,
                ns=ctx.path_id_namespace)
            ptr = irast.Pointer(
                source=path_tip,
                direction=s_pointers.PointerDirection.Outbound,
                ptrref=ptrref,
                is_definition=False)
            path_tip = self.new_set(
                ptr, ptrcls.get_target(self.schema), path_id)
        self.register_set_in_scope(path_tip, ctx)
        return path_tip

    def init_stmt(self, ctx):                               # stmt.init_stmt
        return ctx.new(path_scope=ctx.path_scope.attach_fence())

    def fini_stmt(self, stmt, sctx, view_name=None, view_ns=None):
        # stmt.fini_stmt
        stype = self.set_types[stmt.result]
        if view_name is not None:
            # schemactx.derive_view(t, derived_name=view_name)
            self.schema, view = stype.derive_subtype(
                self.schema, name=view_name,
                inheritance_merge=True, inheritance_refdicts={'pointers'},
                mark_derived=True, transient=True,
                preserve_endpoint_ptrs=False,
                attrs={'expr_type': s_types.ExprType.Select}, stdmode=False)
            path_id = pathid.PathId.from_type(
                self.schema, view, env=None, namespace=view_ns)
            result = self.new_set(stmt, view, path_id)
        else:
            result = self.expression_set(stmt, stype, sctx)
        return self.assign_set_scope(result, sctx.path_scope)   # scoped_set

    def compile_SelectQuery(self, ql, ctx, view_name=None, view_ns=None):
        sctx = self.init_stmt(ctx)                 # ctx.subquery + init_stmt
        stmt = irast.SelectStmt(implicit_wrapper=bool(ql.implicit))
        if ql.implicit:
            sctx.partial_path_prefix = ctx.partial_path_prefix
        # compile_result_clause / compile_query_subject (no shape)
        stmt.result = self.compile(ql.result, sctx.new())
        sctx.partial_path_prefix = stmt.result
        if ql.where is not None:
            # clauses.compile_where_clause
            self.register_set_in_scope(sctx.partial_path_prefix, sctx)
            wctx = sctx.new(path_scope=sctx.path_scope.attach_fence())
            wctx.path_scope.unnest_fence = True
            where = self.compile(ql.where, wctx)
            stmt.where = self.assign_set_scope(where, wctx.path_scope)
        return self.fini_stmt(stmt, sctx, view_name, view_ns)

    def declare_view(self, ql, alias, ctx, path_id_namespace):
        # stmtctx.declare_view(..., binding_kind=For)
        subctx = ctx.new(path_scope=ctx.path_scope.attach_fence())
        view_path_id_ns = {self.alias('ns')}
        subctx.path_id_namespace = path_id_namespace | view_path_id_ns
        ctx.path_scope.add_namespaces(view_path_id_ns)
        view_name = sn.QualName(
            '__derived__', f'{alias}@{self.alias("w")}')
        view_set = self.compile_SelectQuery(
            self.ensure_ql_query(ql), subctx,
            view_name=view_name, view_ns=path_id_namespace)
        ctx.aliased_views[alias] = view_set
        return view_set, subctx.path_scope

    def compile_ForQuery(self, ql, ctx):               # stmt.compile_ForQuery
        sctx = self.init_stmt(ctx)
        stmt = irast.SelectStmt()

        ectx = sctx.new()
        iterator_view, view_scope = self.declare_view(
            ql.iterator, ql.iterator_alias, ectx, sctx.path_id_namespace)
        sctx.aliased_views[ql.iterator_alias] = iterator_view

        iterator_stmt = self.new_set_from_set(iterator_view)
        iterator_view.is_visible_binding_ref = True
        stmt.iterator_stmt = iterator_stmt

        self.register_set_in_scope(iterator_stmt, sctx)
        node = sctx.path_scope.find_descendant(iterator_stmt.path_id)
        assert node is not None
        node.attach_subtree(view_scope, ctx=sctx)

        # the body: sctx.newscope(fenced=True)
        bctx = sctx.new(path_scope=sctx.path_scope.attach_fence())
        body = self.compile(self.ensure_ql_query(ql.result), bctx)
        assert body.path_scope_id is not None           # setgen.scoped_set
        stmt.result = body

        return self.fini_stmt(stmt, sctx)

    def compile_union(self, ql, ctx):
        # func.compile_operator + polyres.compile_arg (SET OF operands are
        # wrapped into implicit SELECTs) + finalize_args
        args = {}
        for i, operand in enumerate((ql.left, ql.right)):
            arg_ir = self.compile(
                qlast.SelectQuery(
                    result=operand, implicit=True, rptr_passthrough=True),
                ctx.new())
            args[i] = irast.CallArg(
                expr=arg_ir, param_typemod=ft.TypeModifier.SetOfType)
        arg_types = [self.set_types[a.expr] for a in args.values()]
        if all(isinstance(t, s_objtypes.ObjectType) for t in arg_types):
            # schemactx.get_union_type(..., preserve_derived=True)
            targets = s_utils.simplify_union_types_preserve_derived(
                self.schema, arg_types)
            self.schema, rtype, _ = s_utils.ensure_union_type(
                self.schema, targets, opaque=False, transient=True)
        else:
            (rtype,) = set(arg_types)
        node = irast.OperatorCall(
            args=args,
            func_shortname=sn.QualName('std', 'UNION'),
            func_polymorphic=True,
            func_sql_expr=True,
            force_return_cast=False,
            volatility=ft.Volatility.Immutable,
            operator_kind=ft.OperatorKind.Infix,
            typeref=self.typeref(rtype),
            typemod=ft.TypeModifier.SetOfType,
            tuple_path_ids=[],
        )
        return self.expression_set(node, rtype, ctx)         # ensure_set

    def compile_eq(self, ql, ctx):
        # func.compile_operator for std::= (l: anytype, r: anytype) -> bool;
        # singleton operands are compiled in place (no fence / branch)
        args = {}
        for i, operand in enumerate((ql.left, ql.right)):
            args[i] = irast.CallArg(
                expr=self.compile(operand, ctx.new()),
                param_typemod=ft.TypeModifier.SingletonType)
        node = irast.OperatorCall(
            args=args,
            func_shortname=sn.QualName('std', '='),
            func_polymorphic=False,
            force_return_cast=False,
            volatility=ft.Volatility.Immutable,
            operator_kind=ft.OperatorKind.Infix,
            sql_operator=('=',),
            typeref=self.typeref(self.bool_t),
            typemod=ft.TypeModifier.SingletonType,
            tuple_path_ids=[],
        )
        return self.expression_set(node, self.bool_t, ctx)   # ensure_set

    # -- top level: compile_ast_to_ir + stmtctx.fini_expression ------------
    def compile_toplevel(self, ql):
        ir = self.compile(self.ensure_ql_query(ql), Ctx(self.root))
        assert ir.path_scope_id is not None
        return ir

    def infer(self, ir):
        fe = self

        class Env(types.SimpleNamespace):
            def add_schema_ref(self, obj, expr):
                pass

        env = Env(
            singletons=[], scope_tree_nodes=self.scope_tree_nodes,
            set_types=self.set_types, schema=self.schema, warnings=[],
            inferred_volatility={}, pointer_specified_info={},
        )
        inf_ctx = IC.make_ctx(env)
        card = C.infer_cardinality(ir, scope_tree=self.root, ctx=inf_ctx)
        mult = M.infer_multiplicity(ir, scope_tree=self.root, ctx=inf_ctx)
        self.root.validate_unique_ids()
        fe.schema = env.schema
        return card, mult, inf_ctx


# ---------------------------------------------------------------------------
# qlast builders
# ---------------------------------------------------------------------------
def ql_ints(*vals):
    return qlast.Set(elements=[qlast.Constant.integer(v) for v in vals])


def ql_ref(name):
    return qlast.Path(steps=[qlast.ObjectRef(name=name)])


def ql_for(alias, iterator, result):
    return qlast.ForQuery(
        iterator_alias=alias, iterator=iterator, result=result)


def ql_union(left, right):
    return qlast.BinOp(left=left, op='UNION', right=right)


def ql_select_B_where_n_eq(name):
    """SELECT B FILTER .n = <name>"""
    return qlast.SelectQuery(
        result=ql_ref('B'),
        where=qlast.BinOp(
            left=qlast.Path(steps=[qlast.Ptr(name='n')], partial=True),
            op='=',
            right=ql_ref(name)))


# toy database: one A, two Bs
DB = toy.mk_db([
    {'id': toy.bsid(0xA1), '__type__': 'A'},
    {'id': toy.bsid(0xB1), '__type__': 'B', 'n': 1},
    {'id': toy.bsid(0xB2), '__type__': 'B', 'n': 2},
], {})
NAMES = {toy.bsid(0xA1): 'A#1', toy.bsid(0xB1): 'B#1(n=1)',
         toy.bsid(0xB2): 'B#2(n=2)'}


def evaluate(ql):
    out = []
    for v in toy.toplevel_query(ql, DB):
        out.append(NAMES[v.id] if isinstance(v, toy.Obj) else v)
    return out


def fmt_mult(m):
    return m.own.name + (' (disjoint_union)' if m.disjoint_union else '')


def print_trace(inf_ctx):
    """What the inference recorded for every FOR / UNION it visited."""
    print('    inference trace (from ctx.inferred_multiplicity):')
    for (ir, _scope, tracked), m in inf_ctx.inferred_multiplicity.items():
        if isinstance(ir, irast.SelectStmt) and ir.iterator_stmt is not None:
            what = f'FOR over {ir.iterator_stmt.path_id}'
        elif (isinstance(ir, irast.OperatorCall)
                and str(ir.func_shortname) == 'std::UNION'):
            what = 'std::UNION of [' + ', '.join(
                fmt_mult(inf_ctx.inferred_multiplicity[
                    a.expr, _scope, tracked])
                for a in ir.args.values()) + ']'
        elif isinstance(ir, irast.SelectStmt) and ir.where is not None:
            what = 'SELECT .. FILTER'
        else:
            continue
        print(f'      {what}: tracked iterator on entry = {tracked} '
              f'-> {fmt_mult(m)}')


def check(text, ql, *, show_tree=False):
    """Returns (inferred MultiplicityInfo, evaluated result, has_dups)."""
    fe = FrontEnd()
    ir = fe.compile_toplevel(ql)
    card, mult, inf_ctx = fe.infer(ir)
    actual = evaluate(ql)
    dups = len(set(actual)) != len(actual)
    print(f'  {text}')
    if show_tree:
        print('    scope tree built by the mini front end:')
        for line in fe.root.pdebugformat().split('\n'):
            print('      ' + line)
        print_trace(inf_ctx)
    print(f'    inferred : cardinality={card.name} '
          f'multiplicity={fmt_mult(mult)}')
    print(f'    evaluated: {actual!r}  '
          f'({"has duplicates" if dups else "no duplicates"})')
    lo = 0 if card.can_be_zero() else 1
    if not (len(actual) >= lo and (card.is_multi() or len(actual) <= 1)):
        raise AssertionError(
            f'cardinality {card.name} contradicts the evaluation: the hand '
            f'built IR/qlast pair is not equivalent')
    return mult, actual, dups


def main():
    bad_controls = []
    A, B, b, x = ql_ref('A'), ql_ref('B'), ql_ref('b'), ql_ref('x')

    print('sanity controls (the harness must build IR the inference '
          'understands):')
    # tests/test_edgeql_ir_mult_inference.py: _64, _66 / UNION of a type
    # with itself, _55a (shape), and the operand-swapped witnesses
    controls = [
        ('SELECT A UNION B',
         qlast.SelectQuery(result=ql_union(A, B)),
         'UNIQUE'),
        ('SELECT B UNION B',
         qlast.SelectQuery(result=ql_union(B, B)),
         'DUPLICATE'),
        ('FOR b IN B UNION b                              '
         '[mult_inference_64]',
         ql_for('b', B, b),
         'UNIQUE'),
        ('FOR b IN B UNION A',
         ql_for('b', B, A),
         'DUPLICATE'),
        ('FOR x IN {1, 2} UNION (SELECT B FILTER .n = x)  '
         '[mult_inference_55a]',
         ql_for('x', ql_ints(1, 2), ql_select_B_where_n_eq('x')),
         'UNIQUE'),
        # the witnesses with the UNION operands swapped
        ('FOR b IN B UNION (b UNION A)',
         ql_for('b', B, ql_union(b, A)),
         'DUPLICATE'),
        ('FOR x IN {1, 2} UNION ((SELECT B FILTER .n = x) UNION A)',
         ql_for('x', ql_ints(1, 2),
                ql_union(ql_select_B_where_n_eq('x'), A)),
         'DUPLICATE'),
    ]
    for text, ql, expected in controls:
        mult, actual, dups = check(text, ql)
        if mult.own.name != expected:
            bad_controls.append(
                f'{text}: expected {expected}, inferred {mult.own.name}')
        if mult.is_unique() and dups:
            bad_controls.append(f'{text}: UNIQUE but has duplicates')
        if expected == 'DUPLICATE' and not dups:
            bad_controls.append(
                f'{text}: control is expected to evaluate to duplicates')

    if bad_controls:
        print('HARNESS ERROR: sanity controls misbehave:')
        for c in bad_controls:
            print('  -', c)
        return 2

    print()
    print('witnesses:')
    witnesses = [
        ('FOR b IN B UNION (A UNION b)',
         ql_for('b', B, ql_union(A, b))),
        ('FOR x IN {1, 2} UNION (A UNION (SELECT B FILTER .n = x))',
         ql_for('x', ql_ints(1, 2),
                ql_union(A, ql_select_B_where_n_eq('x')))),
    ]
    reproduced = []
    for text, ql in witnesses:
        mult, actual, dups = check(text, ql, show_tree=True)
        if mult.is_unique() and dups:
            reproduced.append((text, mult, actual))
        elif not dups:
            raise AssertionError(
                f'{text}: witness is expected to evaluate to duplicates')

    print()
    if reproduced:
        for text, mult, actual in reproduced:
            print('DEFECT REPRODUCED: the compiler classifies the result of')
            print(f'  {text}')
            print(f'as duplicate-free (multiplicity {mult.own.name}) but it '
                  f'evaluates to {actual!r}.')
        return 1
    print('no defect: every witness is inferred DUPLICATE, the duplicates '
          'are accounted for.')
    return 0


if __name__ == '__main__':
    try:
        rc = main()
    except SystemExit:
        raise
    except BaseException:
        traceback.print_exc()
        print('HARNESS ERROR')
        rc = 2
    sys.exit(rc)
