#!/usr/bin/env python
"""C09 witness: SQLTransactionState.apply (edb/server/compiler/dbstate.py), COMMIT while no transaction is in progress.

    cd /repo && PYTHONPATH=/verif/stubs:/repo:/verif /venv/bin/python /verif/findings/c09_sql_commit_without_tx.py

pg_ext hands the compiler the session's frontend settings with in_tx=False and in_tx_settings=None when no transaction is open.  For a simple query whose first statement is
COMMIT (PostgreSQL: a warning, no effect on the session), apply() executed `self.settings = self.in_tx_settings` unconditionally: the session settings became None and the
remaining statements of the query were compiled against the DEFAULT settings (search_path `public` instead of the session's).
Shows the one call on the real class, then runs the SQL-settings part of the C09 explorer (which starts every history from a session with a non-default setting).
exit 0: the session setting is still visible after the stray COMMIT and all histories agree with the reference; exit 1 otherwise.
"""
import sys, os
sys.path.insert(0, os.path.join(os.path.dirname(os.path.abspath(__file__)), '..', 'contracts', 'C09'))
sys.argv = ['scenario']
import scenario as S
import immutables
from edb.server.compiler import dbstate
class U:
    tx_action = dbstate.TxAction.COMMIT; sp_name = None; frontend_only = False; set_vars = None; is_local = False
st = dbstate.SQLTransactionState(in_tx=False, settings=immutables.Map({'search_path': ('foo',)}), in_tx_settings=None, in_tx_local_settings=None, savepoints=[])
st.apply(U())
sp = st.current_fe_settings().get('search_path')
print('search_path visible to the statement after a stray COMMIT:', sp)
if sp != ('foo',): print("C09 VIOLATED: the session's search_path ('foo',) was replaced by", sp); sys.exit(1)
n, f = S.sql_settings()
print('%d histories' % n)
if f: print('C09 VIOLATED:', f['problem']); sys.exit(1)
print('OK'); sys.exit(0)
