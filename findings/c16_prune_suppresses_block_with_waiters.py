"""Witness for the fourth C16 defect found by the C15/C16 scheduler explorer (repaired by a 'fix:' commit in /repo).

prune_inactive_connections(db) marks the block `suppressed` even when a request for db is queued at that moment (pool full, the block has
no connection).  On the next tick the block (suppressed, no connections) is put on the drop list and _drop_block asserts that it has no
waiters: the AssertionError aborts *every* tick before any rebalancing happens, so the whole pool -- all databases -- stops moving
connections and the queued requests never complete.  Explorer scenario 100241 on the REAL pool (virtual time).
usage: PYTHONPATH=/verif/stubs:/repo /venv/bin/python c16_prune_suppresses_block_with_waiters.py     exit 1 = acquires never complete
"""
import sys, os
sys.path.insert(0, os.path.join(os.path.dirname(os.path.abspath(__file__)), '..', 'contracts', 'C15'))
import scenario as S
SPEC = {"maxcap": 1, "clients": [[0.0, "db2", 0.0, False], [0.0, "db3", 0.1, False], [0.0, "db2", 0.0, False], [0.0, "db2", 0.001, False], [0.0, "db3", 0.0, False], [0.005, "db3", 0.004, True],
                                  [0.0, "db2", 0.004, False], [0.05, "db3", 0.1, False], [0.0, "db3", 0.1, True], [0.0, "db1", 0.03, False]],
        "prunes": [[0.001, "db1"]], "slow": [0.0], "fail_rate": 0.0, "disc_fail_rate": 0.0, "gc": 0.01, "horizon": 3600.0}
w, stats, spec = S.run_one(100241, dict(SPEC))
if w.failure:
    print('C16 VIOLATED: %s: %s' % (w.failure['kind'], w.failure['problem'])); sys.exit(1)
print('every acquire completed (%d served)' % stats['served']); sys.exit(0)
