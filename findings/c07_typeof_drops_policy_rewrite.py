#!/usr/bin/env python
"""C07 witness: an access policy whose condition contains `typeof` is silently
dropped for every read of the protected type.

Property under test: "when an object type has access policies, every read of
that type goes through the policy filter".

Run as:
    cd /repo && PYTHONPATH=/verif/stubs:/repo:/verif \
        /venv/bin/python /verif/findings/c07_typeof_drops_policy_rewrite.py

(set VERIF_REPO to test another checkout: a directory that contains edb/.
All compiler code is imported from that checkout; this is asserted.)

Suspect (two sites that are each fine alone):

  edb/edgeql/compiler/policies.py, try_type_rewrite():
      type_rewrites = ctx.env.type_rewrites          # local ALIAS of the dict
      ...
      type_rewrites[rw_key] = None                   # placeholder (recursion)
      ... get_rewrite_filter() -> compile_pol() -> dispatch.compile(<policy>)
      type_rewrites[rw_key] = rewritten_set          # final store, via alias

  edb/edgeql/compiler/typegen.py, _ql_typeexpr_get_types(), TypeOf branch:
      orig_rewrites = ctx.env.type_rewrites.copy()
      ir_set = dispatch.compile(ql_t.expr, ctx=subctx)
      ...
      ctx.env.type_rewrites = orig_rewrites          # REBINDS env to the copy

If the policy expression contains `typeof`, the TypeOf branch runs inside the
dynamic extent of try_type_rewrite (all context levels share one Environment):
env.type_rewrites is rebound to a copy that contains the None placeholder,
and the final store lands in the orphaned original dict.  In the live dict
the entry stays None, which everywhere means "this type has no rewrite":
setgen.new_set never retries (the key is present), stmtctx.fini_expression
exports only irast.Set values to the SQL compiler, and the generated SQL
ranges over the type's storage table directly.

What is REAL here (imported from the checkout and executed unmodified):
  * the schema objects: edb.schema FlatSchema, Module, ScalarType, ObjectType,
    Property, Link, Constraint, AccessPolicy (+ s_expr.Expression holding the
    policy text), built through the schema API (create_in_schema);
  * setgen.class_set -> setgen.new_set -> policies.try_type_rewrite ->
    has_own_policies / get_access_policies / get_rewrite_filter ->
    compile_pol -> Expression.parse() -> dispatch.compile(<policy AST>) ->
    expr.compile_IsOp / compile_TypeCast / compile_Path ->
    typegen.ql_typeexpr_to_ir_typeref / ql_typeexpr_to_type ->
    typegen._ql_typeexpr_get_types  (the TypeOf branch is reached naturally,
    from the policy expression, nothing calls it by hand);
  * setgen.scoped_set and the final store of try_type_rewrite;
  * the hand-off of env.type_rewrites to the SQL compiler is copied verbatim
    from stmtctx.fini_expression (only irast.Set values, key (type id,
    not skip_subtypes)), read from the LIVE env dict;
  * edb.pgsql.compiler.compile_ir_to_sql_tree and the pgsql codegen.

What is SUBSTITUTED (no Rust parser, no bootstrapped std library here):
  * edb.edgeql.parser.parse_fragment (the only entry used by
    Expression.parse()) is replaced by a lookup table from the policy's
    source text to a hand-built qlast tree, node for node what the grammar's
    reductions build (reduce_TYPEOF_Expr -> qlast.TypeOf(expr=..),
    reduce_DUNDERSUBJECT -> Path([SpecialAnchor('__subject__')]), ...);
  * the std library is a handful of hand-made objects: std::bool, std::json,
    abstract constraint std::exclusive, schema::ObjectType and the
    `__type__` link / `flag` property of default::Doc;
  * clauses.compile_where_clause: get_rewrite_filter() returns
    `<anchor of the compiled policy> OR (.id ?= <uuid>{})`, whose operators
    `OR` / `?=` need std operator objects.  The substitute checks that shape,
    checks that the anchor is bound to the irast.Set produced by the real
    compile_pol, and returns a constant-FALSE condition.  So the *filter in
    the SQL* is a marker (WHERE false), not the compiled policy; the policy
    expression itself IS compiled by the real compiler (that is where typeof
    is hit), its IR is just not carried into the WHERE clause;
  * SelectStmt.where_card of the rewrite is set by hand (cardinality
    inference is not run), the top-level `select Doc` IR statement is built
    by hand around the set returned by the real class_set;
  * observation only: try_type_rewrite and _ql_typeexpr_get_types are wrapped
    by pass-through tracers that record "TypeOf branch entered while
    try_type_rewrite(T) is active" and the identity of env.type_rewrites.

Cases (one fresh schema + Environment each; the policy is
`access policy p allow select using (<text>)` on default::Doc):
    control   __subject__ IS default::Doc       witness  __subject__ IS typeof default::Doc
    control   .flag IS std::bool                witness  .flag IS typeof .flag
    control   <std::bool>.flag                  witness  <typeof .flag>.flag
For each: Doc is referenced twice through class_set (a query mentioning the
type twice), then env.type_rewrites[(Doc, False)] is read from the LIVE dict
and `select Doc` is compiled to SQL.

Other ways to reach the same interleaving in the real server (not exercised):
a policy that uses a computed pointer / alias / global whose own expression
contains typeof, `introspect typeof ..` in the condition, and typeof in the
policy of a child type compiled while the parent's rewrite is in progress
(the parent's final store is lost as well).

Exit status: 1 = defect reproduced (a policy with typeof registers no rewrite /
                 SQL reads the table unfiltered, while the controls are fine),
             0 = not reproduced (all six policies are applied),
             2 = harness error / a control misbehaved.
"""
import os
import sys

REPO = os.environ.get('VERIF_REPO')
if not REPO:
    REPO = os.getcwd() if os.path.isdir(os.path.join(os.getcwd(), 'edb')) \
        else '/repo'
REPO = os.path.realpath(REPO)

try:
    os.chdir(REPO)
    sys.path.insert(0, REPO)
    try:
        import edb._edgeql_parser  # noqa: F401  (stubbed by /verif/stubs)
    except ImportError:
        # stubs not on PYTHONPATH: activate them by hand
        os.environ['VERIF_REPO'] = REPO
        sys.path.insert(1, '/verif/stubs')
        import sitecustomize  # noqa: F401

    import itertools
    import traceback

    from edb.common import ast as cast_
    from edb.common import uuidgen
    from edb.edgeql import ast as qlast
    from edb.edgeql import qltypes
    from edb.edgeql import parser as qlparser
    from edb.edgeql import compiler as qlcompiler  # noqa: F401
    from edb.edgeql.compiler import clauses
    from edb.edgeql.compiler import context as qlcontext
    from edb.edgeql.compiler import expr as _ql_expr  # noqa: F401 (handlers)
    from edb.edgeql.compiler import stmt as _ql_stmt  # noqa: F401 (handlers)
    from edb.edgeql.compiler import policies
    from edb.edgeql.compiler import setgen
    from edb.edgeql.compiler import typegen
    from edb.ir import ast as irast
    from edb.pgsql import ast as pgast
    from edb.pgsql import codegen as pgcodegen
    from edb.pgsql import compiler as pgcompiler
    from edb.schema import constraints as s_constr
    from edb.schema import expr as s_expr
    from edb.schema import links as s_links
    from edb.schema import modules as s_mod
    from edb.schema import name as sn
    from edb.schema import objects as so
    from edb.schema import objtypes as s_objtypes
    from edb.schema import policies as s_policies
    from edb.schema import properties as s_props
    from edb.schema import scalars as s_scalars
    from edb.schema import schema as s_schema

    for _m in (policies, typegen, setgen, clauses, s_expr, qlparser,
               pgcompiler):
        assert os.path.realpath(_m.__file__).startswith(REPO + os.sep), (
            _m.__file__, REPO)
    assert s_expr.qlparser is qlparser
except Exception:
    import traceback
    traceback.print_exc()
    print('HARNESS ERROR: cannot import the compiler from', REPO)
    sys.exit(2)

_ctr = itertools.count(1)
Allow = qltypes.AccessPolicyAction.Allow
Select = qltypes.AccessKind.Select
MISSING = '<no entry>'


# ---------------------------------------------------------------------------
# SUBSTITUTE 1: the parser.  text -> the qlast the grammar would build
# ---------------------------------------------------------------------------
def _subject():
    return qlast.Path(steps=[qlast.SpecialAnchor(name='__subject__')])


def _flag():
    return qlast.Path(partial=True, steps=[qlast.Ptr(name='flag')])


def _doc_path():
    return qlast.Path(steps=[qlast.ObjectRef(module='default', name='Doc')])


def _tname(module, name):
    return qlast.TypeName(maintype=qlast.ObjectRef(module=module, name=name))


POLICY_ASTS = {
    '__subject__ IS default::Doc': lambda: qlast.IsOp(
        left=_subject(), op='IS', right=_tname('default', 'Doc')),
    '__subject__ IS typeof default::Doc': lambda: qlast.IsOp(
        left=_subject(), op='IS', right=qlast.TypeOf(expr=_doc_path())),
    '.flag IS std::bool': lambda: qlast.IsOp(
        left=_flag(), op='IS', right=_tname('std', 'bool')),
    '.flag IS typeof .flag': lambda: qlast.IsOp(
        left=_flag(), op='IS', right=qlast.TypeOf(expr=_flag())),
    '<std::bool>.flag': lambda: qlast.TypeCast(
        type=_tname('std', 'bool'), expr=_flag()),
    '<typeof .flag>.flag': lambda: qlast.TypeCast(
        type=qlast.TypeOf(expr=_flag()), expr=_flag()),
}
PAIRS = [
    ('__subject__ IS default::Doc', '__subject__ IS typeof default::Doc'),
    ('.flag IS std::bool', '.flag IS typeof .flag'),
    ('<std::bool>.flag', '<typeof .flag>.flag'),
]
PARSE_LOG = []


def lookup_parse_fragment(source, filename=None):
    PARSE_LOG.append(source)
    return POLICY_ASTS[source]()


qlparser.parse_fragment = lookup_parse_fragment


def ast_has_typeof(node):
    if isinstance(node, qlast.TypeOf):
        return True
    if cast_.is_ast_node(node):
        return any(ast_has_typeof(v)
                   for _, v in cast_.iter_fields(node, include_meta=False))
    if isinstance(node, (list, tuple)):
        return any(ast_has_typeof(v) for v in node)
    return False


# ---------------------------------------------------------------------------
# SUBSTITUTE 2: compile_where_clause (needs std `OR` / `?=`)
# ---------------------------------------------------------------------------
WHERE_LOG = []


def marker_compile_where_clause(where, *, ctx):
    # `where` is the real output of policies.get_rewrite_filter():
    #     <anchor of compile_pol(pol)>  OR  (.id ?= <uuid>{})
    assert isinstance(where, qlast.BinOp) and where.op == 'OR', where
    anchor = where.left
    assert (isinstance(anchor, qlast.Path)
            and isinstance(anchor.steps[0], qlast.IRAnchor)), anchor
    pol_ir = ctx.anchors[anchor.steps[0].name]
    assert isinstance(pol_ir, irast.Set), pol_ir
    WHERE_LOG.append(type(pol_ir.expr).__name__)

    bool_t = irast.TypeRef(
        id=so.get_known_type_id('std::bool'),
        name_hint=sn.QualName('std', 'bool'), is_scalar=True)
    pid = irast.PathId.from_typeref(
        bool_t, typename=sn.QualName('__derived__', f'cond~{next(_ctr)}'))
    return irast.Set(
        path_id=pid, typeref=bool_t,
        expr=irast.BooleanConstant(value='false', typeref=bool_t))


clauses.compile_where_clause = marker_compile_where_clause


# ---------------------------------------------------------------------------
# OBSERVERS (pass-through): who is active when the TypeOf branch runs
# ---------------------------------------------------------------------------
RW_STACK = []
TYPEOF_LOG = []
_real_try_type_rewrite = policies.try_type_rewrite
_real_get_types = typegen._ql_typeexpr_get_types


def traced_try_type_rewrite(stype, *, skip_subtypes, ctx):
    RW_STACK.append(
        (stype.get_name(ctx.env.schema).name, skip_subtypes))
    try:
        return _real_try_type_rewrite(
            stype, skip_subtypes=skip_subtypes, ctx=ctx)
    finally:
        RW_STACK.pop()


def traced_get_types(ql_t, *, ctx):
    if not isinstance(ql_t, qlast.TypeOf):
        return _real_get_types(ql_t, ctx=ctx)
    before = ctx.env.type_rewrites
    active = tuple(RW_STACK)
    try:
        return _real_get_types(ql_t, ctx=ctx)
    finally:
        TYPEOF_LOG.append((active, before is ctx.env.type_rewrites))


policies.try_type_rewrite = traced_try_type_rewrite
typegen._ql_typeexpr_get_types = traced_get_types


# ---------------------------------------------------------------------------
# schema: real objects, hand-made mini std
# ---------------------------------------------------------------------------
def build_schema(policy_text):
    sch = s_schema.EMPTY_SCHEMA

    def nolist():
        return so.ObjectList.create(sch, [])

    for m in ('std', 'schema', 'default', '__derived__'):
        sch, _ = s_mod.Module.create_in_schema(
            sch, id=uuidgen.uuid1mc(), name=sn.UnqualName(m))
    sch, bool_t = s_scalars.ScalarType.create_in_schema(
        sch, id=uuidgen.uuid1mc(), name=sn.QualName('std', 'bool'))
    sch, _ = s_scalars.ScalarType.create_in_schema(
        sch, id=uuidgen.uuid1mc(), name=sn.QualName('std', 'json'))
    sch, _ = s_constr.Constraint.create_in_schema(
        sch, id=uuidgen.uuid1mc(), name=sn.QualName('std', 'exclusive'),
        abstract=True)
    sch, schema_ot = s_objtypes.ObjectType.create_in_schema(
        sch, id=uuidgen.uuid1mc(), name=sn.QualName('schema', 'ObjectType'),
        bases=nolist(), ancestors=nolist())
    sch, doc = s_objtypes.ObjectType.create_in_schema(
        sch, id=uuidgen.uuid1mc(), name=sn.QualName('default', 'Doc'),
        bases=nolist(), ancestors=nolist())

    # required property  default::Doc.flag -> std::bool
    sch, flag = s_props.Property.create_in_schema(
        sch, id=uuidgen.uuid1mc(),
        name=sn.QualName('default', sn.get_specialized_name(
            sn.QualName('default', 'flag'), 'default::Doc')),
        source=doc, target=bool_t, bases=nolist(), ancestors=nolist(),
        required=True, cardinality=qltypes.SchemaCardinality.One)
    sch = doc.add_classref(sch, 'pointers', flag)
    # required link  default::Doc.__type__ -> schema::ObjectType
    sch, tlink = s_links.Link.create_in_schema(
        sch, id=uuidgen.uuid1mc(),
        name=sn.QualName('default', sn.get_specialized_name(
            sn.QualName('std', '__type__'), 'default::Doc')),
        source=doc, target=schema_ot, bases=nolist(), ancestors=nolist(),
        required=True, cardinality=qltypes.SchemaCardinality.One)
    sch = doc.add_classref(sch, 'pointers', tlink)

    # access policy p allow select using (<policy_text>)
    sch, pol = s_policies.AccessPolicy.create_in_schema(
        sch, id=uuidgen.uuid1mc(),
        name=sn.QualName('default', 'default::Doc@p'),
        subject=doc, action=Allow, access_kinds=[Select],
        expr=s_expr.Expression(
            text=policy_text, refs=so.ObjectSet.create(sch, [])),
        bases=nolist(), ancestors=nolist())
    sch = doc.add_classref(sch, 'access_policies', pol)
    return sch, doc


# ---------------------------------------------------------------------------
# SQL tree inspection
# ---------------------------------------------------------------------------
def _children(n):
    if cast_.is_ast_node(n):
        for _, v in cast_.iter_fields(n, include_meta=False):
            yield v
    elif isinstance(n, (list, tuple, set, frozenset)):
        yield from n
    elif isinstance(n, dict):
        yield from n.values()


def has_policy_marker(expr):
    """WHERE expression contains the constant-FALSE marker (not inside a
    nested subquery)."""
    if expr is None or isinstance(expr, pgast.Query):
        return False
    if (isinstance(expr, pgast.BooleanConstant)
            and str(expr.val).lower() == 'false'):
        return True
    return any(has_policy_marker(c) for c in _children(expr))


def table_scans(tree):
    """Yield (table, alias, filtered, via_cte) for every path by which the
    statement reaches a range var over a plain table; `filtered` = some
    enclosing SELECT on that path carries the policy marker."""
    seen = set()

    def rec(n, filtered, via):
        if cast_.is_ast_node(n):
            if (id(n), filtered) in seen:
                return
            seen.add((id(n), filtered))
            if isinstance(n, pgast.CommonTableExpr):
                return  # only reached through references
            if isinstance(n, pgast.RelRangeVar):
                rel = n.relation
                if isinstance(rel, pgast.CommonTableExpr):
                    yield from rec(rel.query, filtered, via + (rel.name,))
                    return
                if isinstance(rel, pgast.Relation):
                    yield rel.name, n.alias.aliasname, filtered, via
                    return
            if isinstance(n, pgast.SelectStmt):
                filtered = filtered or has_policy_marker(n.where_clause)
        for c in _children(n):
            yield from rec(c, filtered, via)

    yield from rec(tree, False, ())


# ---------------------------------------------------------------------------
# one case
# ---------------------------------------------------------------------------
def describe(entry):
    if entry is MISSING:
        return MISSING
    if entry is None:
        return 'None (= "no rewrite")'
    if isinstance(entry, irast.Set):
        return f'irast.Set[{type(entry.expr).__name__}]'
    return repr(entry)


def run_case(policy_text):
    del PARSE_LOG[:], WHERE_LOG[:], TYPEOF_LOG[:], RW_STACK[:]
    sch, doc = build_schema(policy_text)

    env = qlcontext.Environment(
        schema=sch,
        options=qlcontext.GlobalCompilerOptions(apply_query_rewrites=True))
    stack = qlcontext.CompilerContext(
        initial=qlcontext.ContextLevel(
            None, qlcontext.ContextSwitchMode.NEW, env=env))
    ctx = stack.current
    dict_at_start = env.type_rewrites
    key = (doc, False)

    # REAL: first reference to Doc in the query
    root = setgen.class_set(doc, ctx=ctx)
    entry1 = env.type_rewrites.get(key, MISSING)
    # REAL: a second reference to Doc in the same query (no retry happens
    # once the key is present, whatever its value)
    setgen.class_set(doc, ctx=ctx)
    live = env.type_rewrites
    entry2 = live.get(key, MISSING)

    r = {
        'text': policy_text,
        'parsed': list(PARSE_LOG),
        'policy_ir': list(WHERE_LOG),
        'typeof_hits': list(TYPEOF_LOG),
        'rebound': live is not dict_at_start,
        'entry1': entry1,
        'entry2': entry2,
        'orphan': (dict_at_start.get(key, MISSING)
                   if live is not dict_at_start else None),
    }

    # verbatim from stmtctx.fini_expression, on the LIVE dict
    type_rewrites = {
        (typ.id, not skip_subtypes): s
        for (typ, skip_subtypes), s in env.type_rewrites.items()
        if isinstance(s, irast.Set)}
    for rw in type_rewrites.values():
        if isinstance(rw.expr, irast.SelectStmt) and rw.expr.where:
            # (normally done by cardinality inference)
            rw.expr.where_card = qltypes.Cardinality.ONE
    r['exported'] = len(type_rewrites)

    top = irast.Set(
        path_id=irast.PathId.from_typeref(
            root.typeref,
            typename=sn.QualName('__derived__', f'top~{next(_ctr)}')),
        typeref=root.typeref,
        expr=irast.SelectStmt(result=root))
    stmt = irast.Statement(
        expr=top, params=[], globals=[], scope_tree=env.path_scope,
        type_rewrites=type_rewrites, singletons=[], triggers=(),
        views={}, cardinality=qltypes.Cardinality.MANY,
        volatility=qltypes.Volatility.Stable,
        multiplicity=qltypes.Multiplicity.UNIQUE,
        stype=doc, view_shapes={}, view_shapes_metadata={},
        schema=env.schema, schema_refs=frozenset(), schema_ref_exprs=None,
        dml_exprs=[], warnings=())
    # REAL SQL compiler
    tree = pgcompiler.compile_ir_to_sql_tree(
        stmt, output_format=pgcompiler.OutputFormat.NATIVE).ast

    scans = [s for s in table_scans(tree) if s[0] == str(doc.id)]
    r['scans'] = scans
    r['sql'] = ' '.join(
        pgcodegen.generate_source(tree).replace(str(doc.id), '<Doc-id>')
        .split())
    r['sql_reads_doc'] = bool(scans)
    r['sql_filtered'] = bool(scans) and all(f for _, _, f, _ in scans)
    r['applied'] = (
        isinstance(entry2, irast.Set)
        and r['exported'] == 1
        and r['sql_filtered'])
    return r


def show(kind, r):
    print(f'[{kind}] access policy p allow select using ({r["text"]})')
    print(f'    text handed to the (substituted) parser : {r["parsed"]}')
    print(f'    IR of the policy from the real compile_pol: '
          f'{r["policy_ir"]}')
    if r['typeof_hits']:
        for active, same in r['typeof_hits']:
            print(f'    real TypeOf branch of _ql_typeexpr_get_types ran '
                  f'while try_type_rewrite{list(active)} was active; '
                  f'env.type_rewrites is '
                  f'{"the same dict" if same else "a DIFFERENT dict"} '
                  f'afterwards')
    else:
        print('    TypeOf branch of _ql_typeexpr_get_types: not entered')
    print(f'    LIVE env.type_rewrites[(Doc, False)] after 1st reference : '
          f'{describe(r["entry1"])}')
    print(f'    LIVE env.type_rewrites[(Doc, False)] after 2nd reference : '
          f'{describe(r["entry2"])}')
    if r['rebound']:
        print(f'    dict that was env.type_rewrites when compilation began '
              f'(now orphaned) holds: {describe(r["orphan"])}')
    print(f'    rewrites exported to the SQL compiler (fini_expression '
          f'rule): {r["exported"]}')
    for table, alias, filtered, via in r['scans']:
        how = (f'through CTE {" > ".join(via)}' if via
               else 'DIRECTLY in the main query')
        print(f'    SQL: table edgedbpub."<Doc-id>" scanned as "{alias}" '
              f'{how}, policy marker (WHERE false) '
              f'{"present" if filtered else "ABSENT"}')
    if not r['scans']:
        print('    SQL: the Doc table is not read at all (?)')
    print(f'    SQL: {r["sql"]}')
    print(f'    => policy {"APPLIED" if r["applied"] else "NOT APPLIED"}')
    print()


def main():
    print(f'compiler under test: {REPO}/edb')
    print()
    bad_controls = []
    lost = []
    for control_text, witness_text in PAIRS:
        assert not ast_has_typeof(POLICY_ASTS[control_text]())
        assert ast_has_typeof(POLICY_ASTS[witness_text]())

        c = run_case(control_text)
        show('control', c)
        if not c['applied'] or c['typeof_hits'] or c['rebound']:
            bad_controls.append(control_text)

        w = run_case(witness_text)
        show('typeof ', w)
        if not w['typeof_hits'] or not all(
                ('Doc', False) in active for active, _ in w['typeof_hits']):
            # the whole point is to reach typeof from inside the rewrite
            bad_controls.append(
                witness_text + '  [TypeOf branch not reached from '
                'try_type_rewrite(Doc)]')
        if not w['sql_reads_doc']:
            bad_controls.append(witness_text + '  [SQL does not read Doc]')
        if not w['applied']:
            lost.append(witness_text)

    if bad_controls:
        print('HARNESS ERROR: control(s) misbehaved:')
        for t in bad_controls:
            print('   ', t)
        return 2
    if lost:
        print('DEFECT REPRODUCED: Doc has an access policy, the policy '
              'compiles, but the live env.type_rewrites[(Doc, False)] is '
              'None and the SQL for `select Doc` reads the storage table '
              'with no policy CTE, for the policy condition(s):')
        for t in lost:
            print('   ', t)
        print('The same policies without `typeof` (controls) register a '
              'rewrite and are filtered.')
        return 1
    print('NOT REPRODUCED: all six policies (with and without typeof) '
          'register a rewrite in the live env and the SQL reads Doc only '
          'through the policy CTE.')
    return 0


if __name__ == '__main__':
    try:
        rc = main()
    except Exception:
        traceback.print_exc()
        print('HARNESS ERROR')
        rc = 2
    sys.exit(rc)
