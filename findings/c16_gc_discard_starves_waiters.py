"""Witness for a C16 defect found by the C15/C16 scheduler explorer: capacity freed by a *discard* is never offered to waiters.

max_capacity = 1, two databases.  A client uses db1 and hands its connection back; the idle-connection GC discards it
(min_idle_time_before_gc elapsed) at a moment when a db0 client is already parked in the waiters' queue (the pool was
full when it asked).  When the disconnect completes the pool has 0 connections and free capacity -- and nothing ever
opens a connection for the parked request: release() is the only place that serves parked blocks, ticks in Mode A/B/D
never create connections.  Runs the REAL pool on a virtual-time loop.
usage: PYTHONPATH=/verif/stubs:/repo /venv/bin/python c16_gc_discard_starves_waiters.py    exit 1 = the acquire never completes
"""
import sys, os, asyncio
sys.path.insert(0, os.path.join(os.path.dirname(os.path.abspath(__file__)), '..', 'contracts', 'C15'))
import scenario as S

async def main(loop, log):
    opened = []
    async def connect(db):
        await asyncio.sleep(0); opened.append(db); log.append('connect %s' % db); return object()
    async def disconnect(c):
        log.append('disconnect-start'); await asyncio.sleep(0.1); log.append('disconnect-done')
    pool = S.pool_mod.Pool(connect=connect, disconnect=disconnect, max_capacity=1, min_idle_time_before_gc=0.005)
    async def c1():
        c = await pool.acquire('db1'); pool.release('db1', c); log.append('db1 client served')
    async def c0():
        await asyncio.sleep(0.001)
        c = await pool.acquire('db0'); pool.release('db0', c); log.append('db0 client served')
    t1 = loop.create_task(c1()); t0 = loop.create_task(c0())
    done, pending = await asyncio.wait([t1, t0], timeout=3600)      # one virtual hour
    for t in pending: t.cancel()
    return (t0 in pending), pool

if __name__ == '__main__':
    loop = S.VirtualLoop(); asyncio.set_event_loop(loop); S.pool_mod.time = S.FakeTime(loop)
    log = []
    stuck, pool = loop.run_until_complete(main(loop, log))
    print(' / '.join(log))
    if stuck:
        print('C16 VIOLATED: acquire(db0) did not complete within one (virtual) hour; pool capacity in use %d of %d, blocks %s'
              % (pool.current_capacity, pool.max_capacity, {k: (len(b.conns), b.pending_conns, b.conn_waiters_num) for k, b in pool._blocks.items()}))
        sys.exit(1)
    print('every acquire completed'); sys.exit(0)
