#!/usr/bin/env python
"""C09 witness: in an SQL script the statements after COMMIT / ROLLBACK were compiled against the finished transaction.

    cd /repo && PYTHONPATH=/verif/stubs:/repo:/verif /venv/bin/python /verif/findings/c09_sql_script_stale_tx.py

Runs the SQL-script part of the C09 explorer (contracts/C09/scenario.py sql_scripts): the REAL compiler.compile_sql_as_unit_group on every script of <= 3
transaction-control statements from three starting positions; only sql.compile_sql (native PostgreSQL parser) is replaced by units carrying each statement's
transaction action.  Before the fix `BEGIN; COMMIT; SAVEPOINT a` was accepted (the savepoint went to the dead transaction object).
exit 0: every script is accepted / rejected as PostgreSQL would and leaves the expected savepoint list; exit 1: a script that is not (printed).
"""
import sys, os
sys.path.insert(0, os.path.join(os.path.dirname(os.path.abspath(__file__)), '..', 'contracts', 'C09'))
sys.argv = ['scenario']
import scenario as S
n, f = S.sql_scripts()
print('%d scripts' % n)
if f: print('C09 VIOLATED:', f['problem']); sys.exit(1)
print('OK'); sys.exit(0)
