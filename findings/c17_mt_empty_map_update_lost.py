"""Witness for a C17 defect in the MULTI-TENANT compiler pool: an update of a database's reflection cache / database
config to an EMPTY (falsy) immutables.Map is transmitted to the worker process, but the server-side belief keeps the
old object, because MultiTenantPool._compute_compile_preargs.sync_worker_state_cb merges with
    reflection_cache=(reflection_cache or worker_db.reflection_cache)
    database_config=(database_config or worker_db.database_config)
A later request that presents the old object again therefore transmits nothing and is compiled with the empty map.

Minimal history found by /verif/contracts/C17/scenario_mt.py (seed 0): one tenant, one database, one worker,
    request(database_config = X)  ;  request(database_config = {})  ;  request(database_config = X)   -> compiled with {}
(and the same with reflection_cache).  Replayed here through the same REAL code as the explorer: AbstractPool.compile,
MultiTenantPool._compute_compile_preargs + sync_worker_state_cb, MultiTenantWorker, BaseWorker.call, worker_proc.worker,
multitenant_worker.get_handler / call_for_client / __sync__ / compile, with a recording COMPILER.

run:  cd /repo && PYTHONPATH=/verif/stubs:/repo:/verif /venv/bin/python /verif/findings/c17_mt_empty_map_update_lost.py
      (VERIF_REPO=<root containing edb/> selects another checkout; put the same root on PYTHONPATH instead of /repo)
exit: 1 the defect reproduces, 0 it does not, 2 harness error
"""
import os, sys, traceback

def main():
    repo = os.environ.get('VERIF_REPO')
    if repo: sys.path.insert(0, repo)
    here = os.path.dirname(os.path.dirname(os.path.abspath(__file__)))
    if here not in sys.path: sys.path.append(here)
    try:
        from contracts.C17 import scenario_mt as mt
        import edb
        if repo and not os.path.abspath(edb.__file__ or list(edb.__path__)[0]).startswith(os.path.abspath(repo)):
            print('HARNESS ERROR: VERIF_REPO=%s but edb was imported from %s' % (repo, edb.__path__)); return 2
    except Exception:
        traceback.print_exc(); print('HARNESS ERROR: cannot import the explorer / the repo under test'); return 2

    #           worker tenant db usp gsp rc dc sc fault         (value 0 = a non-empty map, value 1 = the EMPTY map)
    histories = {
        'database_config':  [(0, 0, 0, 0, 0, 0, 0, 0, None), (0, 0, 0, 0, 0, 0, 1, 0, None), (0, 0, 0, 0, 0, 0, 0, 0, None)],
        'reflection_cache': [(0, 0, 0, 0, 0, 0, 0, 0, None), (0, 0, 0, 0, 0, 1, 0, 0, None), (0, 0, 0, 0, 0, 0, 0, 0, None)],
    }
    bad = []; other = []
    try:
        for part, h in histories.items():
            before = mt.STATS['compiled']
            f = mt.run_history(h, empties=True)
            if f is None:
                if mt.run_history.nonfaulty_failed is not None:
                    print('HARNESS ERROR: fault-free request %d of the %s history failed: %s' % (mt.run_history.nonfaulty_failed[0], part, mt.run_history.nonfaulty_failed[1])); return 2
                if mt.STATS['compiled'] - before != len(h):
                    print('HARNESS ERROR: only %d of %d requests reached the recording compiler' % (mt.STATS['compiled'] - before, len(h))); return 2
                print('ok: %s X, {}, X: every request compiled with the supplied state' % part)
            elif f['kind'] == 'empty_map_update_lost' and f['step'] == 2 and f['differs'] == [part]:
                bad.append((part, f))
            else:
                other.append((part, f))
    except Exception:
        traceback.print_exc(); print('HARNESS ERROR: replay raised'); return 2
    for part, f in bad:
        print('C17 VIOLATED (multi-tenant pool, empty map update lost): history %s = X, {}, X on one tenant/db/worker:' % part)
        print('    request 2 supplied      %s' % f['supplied'])
        print('    but was compiled with   %s' % f['compiled_with'])
    for part, f in other:
        print('C17 VIOLATED (multi-tenant pool, DIFFERENT failure than the one this witness is about): %s history, %r' % (part, f))
    return 1 if bad or other else 0

if __name__ == '__main__':
    sys.exit(main())
