"""Witness for C17 defect (fixed): an *empty* reflection cache / database config (falsy immutables.Map) is
transmitted to the worker but the server's belief keeps the old object (`new or old`), so a later request that
presents the old object again transmits nothing and is compiled with the empty map.

Runs the REAL AbstractPool._compute_compile_preargs + its sync callback with an in-process fake worker that applies
the transmitted parts like worker.__sync__ does.  exit 1 if the property is violated on this tree.
run: PYTHONPATH=/verif/stubs:/repo /venv/bin/python c17_empty_map_sync.py
"""
import asyncio, pickle, sys, immutables
from edb.server.compiler_pool import pool, state

class FakeWorker(pool.BaseWorker):
    pass

def main():
    X = immutables.Map({'a': ('b',)}); EMPTY = immutables.Map()
    usp = pickle.dumps('schema'); gsp = pickle.dumps('global'); dbc = immutables.Map({'k': 1}); sysc = immutables.Map({'s': 1})
    w = FakeWorker(immutables.Map(), None, None, None, None, gsp, sysc)
    p = pool.AbstractPool.__new__(pool.AbstractPool)
    actual = {}          # what the worker process would hold for db 'main'
    bad = []
    for step, refl in enumerate([X, EMPTY, X]):
        preargs, cb = asyncio.run(p._compute_compile_preargs('compile', w, 'main', usp, gsp, refl, dbc, sysc))
        sent_refl = preargs[3]
        if sent_refl is not None: actual['reflection_cache'] = pickle.loads(sent_refl)
        if cb is not None: cb()
        if actual['reflection_cache'] != refl:
            bad.append('request %d supplied reflection_cache=%r but the worker compiles with %r' % (step, dict(refl), dict(actual['reflection_cache'])))
    for b in bad: print('C17 VIOLATED:', b)
    sys.exit(1 if bad else 0)
main()
