"""Witness for C17 defect (fixed): worker.__sync__ was not atomic.  A state transfer that fails while unpickling
the global schema (after the per-database part was already stored in DBS) raised FailedStateSync -- so the server
keeps believing the worker holds the OLD user schema -- while the worker already holds the NEW one.  A later request
that presents the old user schema again transmits nothing and is compiled against the new schema.

Runs the REAL worker.__sync__/compile with a recording COMPILER.  exit 1 if violated on this tree.
run: PYTHONPATH=/verif/stubs:/repo /venv/bin/python c17_sync_not_atomic.py
"""
import pickle, sys, immutables
from edb.server.compiler_pool import worker, state

class Rec:
    def __init__(self): self.calls = []
    def compile_serialized_request(self, user_schema, global_schema, refl, dbc, sysc, *a, **k):
        self.calls.append(user_schema); return ('units', None)

def main():
    worker.COMPILER = Rec()
    S1, S2 = 'schema-1', 'schema-2'
    worker.DBS = immutables.Map({'main': state.DatabaseState('main', S1, immutables.Map(), immutables.Map())})
    worker.GLOBAL_SCHEMA = 'G1'; worker.INSTANCE_CONFIG = immutables.Map()
    # request 2: new user schema S2 together with a global schema pickle that cannot be loaded
    try:
        worker.compile('main', pickle.dumps(S2), None, b'not a pickle', None, None)
        print('expected FailedStateSync'); sys.exit(2)
    except state.FailedStateSync:
        pass          # BaseWorker.call(): belief about the worker is NOT updated -> server still believes S1
    # request 3 presents S1 again: identical to the believed object, so nothing is transmitted
    worker.compile('main', None, None, None, None, None)
    used = worker.COMPILER.calls[-1]
    if used != S1:
        print('C17 VIOLATED: request supplied user schema %r (believed present on the worker) but was compiled against %r' % (S1, used))
        sys.exit(1)
    sys.exit(0)
main()
