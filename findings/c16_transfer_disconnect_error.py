"""Witness for the third C16 defect found by the C15/C16 scheduler explorer (repaired by a 'fix:' commit in /repo).

A connection is transferred from db0 to db1 (max_capacity = 1): _schedule_transfer counts a pending connection for db1, _transfer
closes the old connection and then connects.  If the disconnect callback reports an error, _transfer stopped there: db1 kept a
phantom pending connection forever, nothing ever connected for it, its requests never completed.
usage: PYTHONPATH=/verif/stubs:/repo /venv/bin/python c16_transfer_disconnect_error.py     exit 1 = an acquire never completes
"""
import sys, os
sys.path.insert(0, os.path.join(os.path.dirname(os.path.abspath(__file__)), '..', 'contracts', 'C15'))
import scenario as S
SPEC = dict(maxcap=1, clients=[(0.0, 'db0', 0.02, False), (0.001, 'db1', 0.0, False), (0.002, 'db1', 0.0, False)],
            slow=[0.001], fail_rate=0.0, disc_fail_rate=1.0, gc=120.0, horizon=3600.0)
w, stats, spec = S.run_one(7, dict(SPEC))
if w.failure:
    print('C16 VIOLATED: %s: %s' % (w.failure['kind'], w.failure['problem'])); sys.exit(1)
print('every acquire completed (%d served)' % stats['served']); sys.exit(0)
