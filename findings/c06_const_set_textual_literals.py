#!/usr/bin/env python
"""C06 witness: a literal set is classified UNIQUE by comparing the literals' TEXT.

Property under test: "a result the compiler classifies as duplicate-free (multiplicity UNIQUE) contains no duplicates".

Run as:
    cd /repo && PYTHONPATH=/verif/stubs:/repo:/verif /venv/bin/python /verif/findings/c06_const_set_textual_literals.py
(set VERIF_REPO / cwd to test another checkout; the inference code is imported from there)

Suspect: edb/edgeql/compiler/inference/multiplicity.py __infer_const_set():

    els = set()
    for el in ir.elements:
        if isinstance(el, irast.BaseConstant):
            els.add(el.value)          # <-- the literal text (compile_Constant only strips '_')
    if len(ir.elements) == len(els): return UNIQUE

`{1.0, 1.00}`, `{1e0, 1.0}`, `{1.0n, 1.00n}`, `{10n, 1e1n}` have pairwise different texts and equal values: the set is classified UNIQUE and evaluates to two equal
elements.  The IR below is what expr.try_constant_set / compile_Constant build for these literals (value = token text without underscores, decimal / bigint without the `n`).
exit 0: every literal set classified UNIQUE has pairwise distinct values; exit 1: a UNIQUE set with equal elements (printed).
"""
import sys, uuid, decimal
from edb.ir import ast as irast
from edb.schema import name as sn
from edb.edgeql.compiler.inference import multiplicity as M
from edb.edgeql import qltypes

def tref(n): return irast.TypeRef(id=uuid.uuid5(uuid.NAMESPACE_DNS, n), name_hint=sn.QualName('std', n), is_scalar=True)
CASES = [
    ('float64', irast.FloatConstant, ['1.0', '1.00'], float),
    ('float64', irast.FloatConstant, ['1e0', '1.0'], float),
    ('float64', irast.FloatConstant, ['0.1', '0.10000000000000001'], float),
    ('decimal', irast.DecimalConstant, ['1.0', '1.00'], decimal.Decimal),
    ('bigint', irast.BigintConstant, ['10', '1e1'], lambda s: int(decimal.Decimal(s))),
    ('float64', irast.FloatConstant, ['1.0', '2.0'], float),          # controls: really distinct / textually equal
    ('int64', irast.IntegerConstant, ['1', '2'], int),
    ('str', irast.StringConstant, ['a', 'a'], str),
]
rule = M._infer_multiplicity.dispatch(irast.ConstantSet)
bad = []
for tname, cls, texts, val in CASES:
    t = tref(tname)
    ir = irast.ConstantSet(elements=tuple(cls(value=x, typeref=t) for x in texts), typeref=t)
    info = rule(ir, scope_tree=None, ctx=None)
    values = [val(x) for x in texts]
    dup = len(set(values)) != len(values)
    print('{%s} :: %s -> %s; values %r' % (', '.join(texts), tname, info.own.name, values))
    if info.own is qltypes.Multiplicity.UNIQUE and dup: bad.append((tname, texts, values))
    if not dup and info.own is not qltypes.Multiplicity.UNIQUE and texts == ['1.0', '2.0']: print('  (note: distinct literals no longer recognised as UNIQUE)')
if bad:
    print('C06 VIOLATED: classified UNIQUE, evaluates to equal elements:', bad); sys.exit(1)
print('OK'); sys.exit(0)
