#!/usr/bin/env python
"""C09 witness: SQLTransactionState.apply (edb/server/compiler/dbstate.py), ROLLBACK TO SAVEPOINT of a savepoint that is not the newest one.

    cd /repo && PYTHONPATH=/verif/stubs:/repo:/verif /venv/bin/python /verif/findings/c09_sql_rollback_to_older_savepoint.py

The compiler tracks, for the statements of an SQL script -- and for the single statement of a native-protocol SQL request, seeded with the transaction's live savepoints
(compiler.compile_sql_as_unit_group) -- the frontend settings a PostgreSQL transaction exposes.  PostgreSQL: ROLLBACK TO SAVEPOINT a restores the state at `a`, discards
the savepoints declared after it and keeps `a`.  The loop in apply() looked at the NEWEST savepoint (`self.savepoints[-1]`) but, when that was not the one asked for,
removed the OLDEST (`self.savepoints.pop(0)`): with savepoints [a, b], ROLLBACK TO SAVEPOINT a removed a, then b, and raised `savepoint "a" does not exist`.
Runs the SQL-settings part of the C09 explorer (contracts/C09/scenario.py sql_settings): the REAL SQLTransactionState.apply on every history of <= 5
SET / SAVEPOINT / ROLLBACK TO statements over two savepoint names against a reference model.
exit 0: all histories agree; exit 1: the first history that does not (printed).
"""
import sys, os
sys.path.insert(0, os.path.join(os.path.dirname(os.path.abspath(__file__)), '..', 'contracts', 'C09'))
sys.argv = ['scenario']
import scenario as S
n, f = S.sql_settings()
print('%d histories' % n)
if f: print('C09 VIOLATED:', f['problem']); sys.exit(1)
print('OK'); sys.exit(0)
