#!/usr/bin/env python
"""C06 witness (A): three nested FORs are classified duplicate-free.

Property under test: "a result the compiler classifies as duplicate-free
(multiplicity UNIQUE) contains no duplicates".

Run as:
    cd /repo && PYTHONPATH=/verif/stubs:/repo:/verif \
        /venv/bin/python /verif/findings/c06_nested_for_multiplicity.py

(set VERIF_REPO to test another checkout; the inference code is always
imported from that checkout / the current working directory.)

Suspect: edb/edgeql/compiler/inference/multiplicity.py,
_infer_for_multiplicity():

    new_iter = itset.path_id if not ctx.distinct_iterator else None
    ctx = ctx._replace(distinct_iterator=new_iter)

Only ONE iterator is tracked at a time, and a nested FOR *toggles* the
tracking.  With three nested FORs the innermost iterator is tracked again
(the middle one switched tracking off), so the innermost FOR returns
UNIQUE+disjoint_union; the middle FOR - whose own iterator is NOT tracked -
trusts that flag (`if result_mult.disjoint_union: return result_mult`), and
so does the outer one.

    FOR x IN {1, 2} UNION (FOR y IN {5, 6} UNION (FOR z IN {8, 9} UNION z))

evaluates to [8, 9, 8, 9, 8, 9, 8, 9].

The sandbox cannot parse EdgeQL text or bootstrap the std schema (no Rust
parser), so the real compiler front end cannot be run.  Instead a *mini
front end* below replays, step by step, what edb/edgeql/compiler does for
these queries (stmt.compile_ForQuery, stmt.compile_SelectQuery,
stmtctx.declare_view, setgen.compile_path, expr.compile_Set,
polyres.compile_arg, func.compile_operator), using the REAL
irast / PathId / ScopeTreeNode classes and the REAL scope-tree operations
(attach_fence, attach_path, attach_subtree incl. factoring), and a real
(tiny) schema for the types.  The REAL cardinality + multiplicity inference
is then run on that IR exactly the way stmtctx.fini_expression runs it.
The equivalent qlast tree is evaluated with the repository's reference
evaluator edb.tools.toy_eval_model.

Exit status: 1 = defect reproduced (UNIQUE but duplicates in the result),
             0 = inference consistent with the evaluation,
             2 = harness error / a sanity control misbehaved.
"""
import os
import sys

REPO = os.environ.get('VERIF_REPO') or os.getcwd()
try:
    os.chdir(REPO)
    sys.path.insert(0, REPO)
    try:
        import edb._edgeql_parser  # noqa: F401  (stubbed by /verif/stubs)
    except ImportError:
        # stubs not on PYTHONPATH: activate them by hand
        sys.path.insert(0, '/verif/stubs')
        import sitecustomize  # noqa: F401

    import itertools
    import traceback
    import types
    import uuid

    from edb.ir import ast as irast
    from edb.ir import pathid
    from edb.ir import scopetree
    from edb.ir import typeutils
    from edb.schema import name as sn
    from edb.schema import modules as s_mod
    from edb.schema import scalars as s_scalars
    from edb.schema import schema as s_schema
    from edb.schema import types as s_types
    from edb.edgeql import ast as qlast
    from edb.edgeql import qltypes as ft
    from edb.edgeql.compiler.inference import cardinality as C
    from edb.edgeql.compiler.inference import multiplicity as M
    from edb.edgeql.compiler.inference import context as IC
    from edb.tools import toy_eval_model as toy

    assert os.path.realpath(M.__file__).startswith(
        os.path.realpath(REPO) + os.sep), (M.__file__, REPO)
except Exception:
    import traceback
    traceback.print_exc()
    print('HARNESS ERROR: cannot import the inference code')
    sys.exit(2)


# ---------------------------------------------------------------------------
# mini front end: replays edb/edgeql/compiler for FOR / SELECT / {..} / UNION
# ---------------------------------------------------------------------------
class Ctx:
    """The two pieces of compiler.context.ContextLevel that matter here."""

    def __init__(self, path_scope, path_id_namespace=frozenset()):
        self.path_scope = path_scope
        self.path_id_namespace = frozenset(path_id_namespace)
        self.aliased_views = {}

    def new(self, *, path_scope=None, ns=None):
        c = Ctx(self.path_scope if path_scope is None else path_scope,
                self.path_id_namespace if ns is None else ns)
        c.aliased_views = dict(self.aliased_views)
        return c

    def log_warning(self, w):  # scopetree.WarningContext
        raise AssertionError(f'unexpected scoping warning: {w}')


class FrontEnd:
    def __init__(self):
        # a tiny real schema: std::int64 (+ module __derived__ for views)
        schema = s_schema.EMPTY_SCHEMA
        for m in ('std', '__derived__'):
            schema, _ = s_mod.Module.create_in_schema(
                schema, name=sn.UnqualName(m), id=uuid.uuid4())
        schema, self.int_t = s_scalars.ScalarType.create_in_schema(
            schema, name=sn.QualName('std', 'int64'), id=uuid.uuid4())
        self.schema = schema
        # compiler.context.Environment bits used by the inference
        self.root = scopetree.ScopeTreeNode(fenced=True)   # env.path_scope
        self.scope_tree_nodes = {}
        self.set_types = {}
        self._scope_ids = itertools.count(1)
        self._aliases = {}

    # -- helpers -----------------------------------------------------------
    def alias(self, hint):
        n = self._aliases[hint] = self._aliases.get(hint, 0) + 1
        return f'{hint}~{n}'

    def typeref(self, t):
        return typeutils.type_to_typeref(self.schema, t, cache=None)

    def new_set(self, expr, stype, path_id, **kw):          # setgen.new_set
        s = irast.Set(
            path_id=path_id, typeref=self.typeref(stype), expr=expr, **kw)
        self.set_types[s] = stype
        return s

    def new_set_from_set(self, s, **kw):           # setgen.new_set_from_set
        attrs = dict(
            path_scope_id=s.path_scope_id,
            is_binding=s.is_binding,
            is_visible_binding_ref=s.is_visible_binding_ref,
        )
        attrs.update(kw)
        return self.new_set(s.expr, self.set_types[s], s.path_id, **attrs)

    def expression_set(self, expr, stype, ctx):       # setgen.expression_set
        path_id = pathid.PathId.from_type(          # get_expression_path_id
            self.schema, stype, env=None,
            typename=sn.QualName('__derived__', self.alias('expr')),
            namespace=ctx.path_id_namespace)
        return self.new_set(expr, stype, path_id)

    def assign_set_scope(self, s, scope):         # pathctx.assign_set_scope
        if scope.unique_id is None:
            scope.unique_id = next(self._scope_ids)
            self.scope_tree_nodes[scope.unique_id] = scope
        assert not scope.find_child(s.path_id)
        s.path_scope_id = scope.unique_id
        return s

    # -- qlast dispatch ----------------------------------------------------
    def compile(self, ql, ctx):
        if isinstance(ql, qlast.ForQuery):
            return self.compile_ForQuery(ql, ctx)
        if isinstance(ql, qlast.SelectQuery):
            return self.compile_SelectQuery(ql, ctx)
        if isinstance(ql, qlast.Set):
            return self.compile_Set(ql, ctx)
        if isinstance(ql, qlast.Path):
            return self.compile_path(ql, ctx)
        if isinstance(ql, qlast.Constant):
            return self.compile_Constant(ql, ctx)
        if isinstance(ql, qlast.BinOp) and ql.op == 'UNION':
            return self.compile_union(ql, ctx)
        raise NotImplementedError(type(ql))

    @staticmethod
    def ensure_ql_query(ql, **kw):                # astutils.ensure_ql_query
        if isinstance(ql, qlast.Query):
            return ql
        return qlast.SelectQuery(result=ql, implicit=True, **kw)

    def compile_Set(self, ql, ctx):                        # expr.compile_Set
        # {c1, .., cn} of constants: compiled as a UNION tree which
        # try_constant_set() then collapses into one irast.ConstantSet that
        # is wrapped with setgen.ensure_set().  (The real compiler leaves
        # the empty fences of the discarded UNION operands in the scope
        # tree; empty fences are invisible to the inference.)
        assert len(ql.elements) > 1
        assert all(isinstance(e, qlast.Constant) for e in ql.elements)
        int_ref = self.typeref(self.int_t)
        cset = irast.ConstantSet(
            elements=tuple(
                irast.IntegerConstant(value=e.value, typeref=int_ref)
                for e in ql.elements),
            typeref=int_ref)
        return self.expression_set(cset, self.int_t, ctx)

    def compile_Constant(self, ql, ctx):              # expr.compile_Constant
        assert ql.kind == qlast.ConstantKind.INTEGER
        const = irast.IntegerConstant(
            value=ql.value, typeref=self.typeref(self.int_t))
        return self.expression_set(const, self.int_t, ctx)     # ensure_set

    def compile_path(self, ql, ctx):                    # setgen.compile_path
        (step,) = ql.steps
        assert isinstance(step, qlast.ObjectRef)
        view_set = ctx.aliased_views[step.name]
        # pinned_path_id_ns is not None for FOR bindings => no ns merge
        path_tip = self.new_set_from_set(
            view_set, is_binding=irast.BindingKind.For)
        # pathctx.register_set_in_scope
        ctx.path_scope.attach_path(
            path_tip.path_id, optional=False, span=None, ctx=ctx)
        return path_tip

    def init_stmt(self, ctx):                               # stmt.init_stmt
        return ctx.new(path_scope=ctx.path_scope.attach_fence())

    def fini_stmt(self, stmt, sctx, view=None, view_ns=None):  # stmt.fini_stmt
        stype = self.set_types[stmt.result]
        if view is not None:
            path_id = pathid.PathId.from_type(
                self.schema, view, env=None, namespace=view_ns)
            result = self.new_set(stmt, view, path_id)
        else:
            result = self.expression_set(stmt, stype, sctx)
        return self.assign_set_scope(result, sctx.path_scope)   # scoped_set

    def compile_SelectQuery(self, ql, ctx, view=None, view_ns=None):
        sctx = self.init_stmt(ctx)                 # ctx.subquery + init_stmt
        stmt = irast.SelectStmt(implicit_wrapper=bool(ql.implicit))
        # compile_result_clause / compile_query_subject: no shape, scalar
        stmt.result = self.compile(ql.result, sctx)
        return self.fini_stmt(stmt, sctx, view, view_ns)

    def declare_view(self, ql, alias, ctx, path_id_namespace):
        # stmtctx.declare_view(..., binding_kind=For)
        subctx = ctx.new(path_scope=ctx.path_scope.attach_fence())
        view_path_id_ns = {self.alias('ns')}
        subctx.path_id_namespace = path_id_namespace | view_path_id_ns
        ctx.path_scope.add_namespaces(view_path_id_ns)
        view_name = sn.QualName(
            '__derived__', f'{alias}@{self.alias("w")}')
        # fini_stmt: schemactx.derive_view(t, derived_name=view_name)
        self.schema, view = self.int_t.derive_subtype(
            self.schema, name=view_name,
            inheritance_merge=True, inheritance_refdicts={'pointers'},
            mark_derived=True, transient=True, preserve_endpoint_ptrs=False,
            attrs={'expr_type': s_types.ExprType.Select}, stdmode=False)
        view_set = self.compile_SelectQuery(
            self.ensure_ql_query(ql), subctx,
            view=view, view_ns=path_id_namespace)
        ctx.aliased_views[alias] = view_set
        return view_set, subctx.path_scope

    def compile_ForQuery(self, ql, ctx):               # stmt.compile_ForQuery
        sctx = self.init_stmt(ctx)
        stmt = irast.SelectStmt()

        ectx = sctx.new()
        iterator_view, view_scope = self.declare_view(
            ql.iterator, ql.iterator_alias, ectx, sctx.path_id_namespace)
        sctx.aliased_views[ql.iterator_alias] = iterator_view

        iterator_stmt = self.new_set_from_set(iterator_view)
        iterator_view.is_visible_binding_ref = True
        stmt.iterator_stmt = iterator_stmt

        # pathctx.register_set_in_scope(iterator_stmt, path_scope=...)
        sctx.path_scope.attach_path(
            iterator_stmt.path_id, optional=False, span=None, ctx=sctx)
        node = sctx.path_scope.find_descendant(iterator_stmt.path_id)
        assert node is not None
        node.attach_subtree(view_scope, ctx=sctx)

        # the body: sctx.newscope(fenced=True)
        bctx = sctx.new(path_scope=sctx.path_scope.attach_fence())
        body = self.compile(self.ensure_ql_query(ql.result), bctx)
        assert body.path_scope_id is not None           # setgen.scoped_set
        stmt.result = body

        return self.fini_stmt(stmt, sctx)

    def compile_union(self, ql, ctx):
        # func.compile_operator + polyres.compile_arg (SET OF operands are
        # wrapped into implicit SELECTs) + finalize_args
        args = {}
        for i, operand in enumerate((ql.left, ql.right)):
            arg_ir = self.compile(
                qlast.SelectQuery(
                    result=operand, implicit=True, rptr_passthrough=True),
                ctx.new())
            args[i] = irast.CallArg(
                expr=arg_ir, param_typemod=ft.TypeModifier.SetOfType)
        node = irast.OperatorCall(
            args=args,
            func_shortname=sn.QualName('std', 'UNION'),
            func_polymorphic=True,
            func_sql_expr=True,
            force_return_cast=False,
            volatility=ft.Volatility.Immutable,
            operator_kind=ft.OperatorKind.Infix,
            typeref=self.typeref(self.int_t),
            typemod=ft.TypeModifier.SetOfType,
            tuple_path_ids=[],
        )
        return self.expression_set(node, self.int_t, ctx)   # ensure_set

    # -- top level: compile_ast_to_ir + stmtctx.fini_expression ------------
    def compile_toplevel(self, ql):
        ir = self.compile(self.ensure_ql_query(ql), Ctx(self.root))
        assert ir.path_scope_id is not None
        return ir

    def infer(self, ir):
        env = types.SimpleNamespace(
            singletons=[], scope_tree_nodes=self.scope_tree_nodes,
            set_types=self.set_types, schema=self.schema, warnings=[],
            inferred_volatility={}, pointer_specified_info={},
        )
        inf_ctx = IC.make_ctx(env)
        card = C.infer_cardinality(ir, scope_tree=self.root, ctx=inf_ctx)
        mult = M.infer_multiplicity(ir, scope_tree=self.root, ctx=inf_ctx)
        self.root.validate_unique_ids()
        return card, mult, inf_ctx


# ---------------------------------------------------------------------------
# qlast builders
# ---------------------------------------------------------------------------
def ql_ints(*vals):
    return qlast.Set(elements=[qlast.Constant.integer(v) for v in vals])


def ql_ref(name):
    return qlast.Path(steps=[qlast.ObjectRef(name=name)])


def ql_for(alias, iterator, result):
    return qlast.ForQuery(
        iterator_alias=alias, iterator=iterator, result=result)


def ql_union(left, right):
    return qlast.BinOp(left=left, op='UNION', right=right)


EMPTY_DB = toy.mk_db([], {})


def fmt_mult(m):
    return m.own.name + (' (disjoint_union)' if m.disjoint_union else '')


def print_trace(inf_ctx):
    """What the inference recorded for every FOR / UNION it visited."""
    print('    inference trace (from ctx.inferred_multiplicity):')
    for (ir, _scope, tracked), m in inf_ctx.inferred_multiplicity.items():
        if isinstance(ir, irast.SelectStmt) and ir.iterator_stmt is not None:
            what = f'FOR over {ir.iterator_stmt.path_id}'
        elif isinstance(ir, irast.OperatorCall):
            what = (f'{ir.func_shortname} of ['
                    + ', '.join(a.multiplicity.name for a in ir.args.values())
                    + ']')
        else:
            continue
        print(f'      {what}: tracked iterator on entry = {tracked} '
              f'-> {fmt_mult(m)}')


def check(text, ql, *, show_tree=False):
    """Returns (inferred MultiplicityInfo, evaluated result, has_dups)."""
    fe = FrontEnd()
    ir = fe.compile_toplevel(ql)
    card, mult, inf_ctx = fe.infer(ir)
    actual = toy.go(ql, EMPTY_DB, False)
    dups = len(set(actual)) != len(actual)
    print(f'  {text}')
    if show_tree:
        print('    scope tree built by the mini front end:')
        for line in fe.root.pdebugformat().split('\n'):
            print('      ' + line)
    if show_tree:
        print_trace(inf_ctx)
    print(f'    inferred : cardinality={card.name} '
          f'multiplicity={fmt_mult(mult)}')
    print(f'    evaluated: {actual!r}  '
          f'({"has duplicates" if dups else "no duplicates"})')
    lo = 0 if card.can_be_zero() else 1
    if not (len(actual) >= lo and (card.is_multi() or len(actual) <= 1)):
        raise AssertionError(
            f'cardinality {card.name} contradicts the evaluation: the hand '
            f'built IR/qlast pair is not equivalent')
    return mult, actual, dups


def main():
    bad_controls = []

    print('sanity controls (the harness must build IR the inference '
          'understands):')
    # tests/test_edgeql_ir_mult_inference.py: _64 (shape), _80, _81
    controls = [
        ('FOR x IN {1, 2} UNION x',
         ql_for('x', ql_ints(1, 2), ql_ref('x')),
         'UNIQUE'),
        ('FOR x IN {1, 1} UNION x',
         ql_for('x', ql_ints(1, 1), ql_ref('x')),
         'DUPLICATE'),
        ('FOR x IN {1, 2} UNION (FOR y IN {3, 4} UNION y)'
         '      [mult_inference_81]',
         ql_for('x', ql_ints(1, 2),
                ql_for('y', ql_ints(3, 4), ql_ref('y'))),
         'DUPLICATE'),
        ('FOR x IN {1, 2} UNION (FOR y IN {3, 4} UNION x)'
         '      [mult_inference_80]',
         ql_for('x', ql_ints(1, 2),
                ql_for('y', ql_ints(3, 4), ql_ref('x'))),
         'DUPLICATE'),
    ]
    for text, ql, expected in controls:
        mult, actual, dups = check(text, ql)
        if mult.own.name != expected:
            bad_controls.append(
                f'{text}: expected {expected}, inferred {mult.own.name}')
        if mult.is_unique() and dups:
            bad_controls.append(f'{text}: UNIQUE but has duplicates')
        if expected == 'DUPLICATE' and not dups:
            bad_controls.append(
                f'{text}: control is expected to evaluate to duplicates')

    if bad_controls:
        print('HARNESS ERROR: sanity controls misbehave:')
        for b in bad_controls:
            print('  -', b)
        return 2

    print()
    print('witness:')
    text = ('FOR x IN {1, 2} UNION (FOR y IN {5, 6} UNION '
            '(FOR z IN {8, 9} UNION z))')
    ql = ql_for('x', ql_ints(1, 2),
                ql_for('y', ql_ints(5, 6),
                       ql_for('z', ql_ints(8, 9), ql_ref('z'))))
    mult, actual, dups = check(text, ql, show_tree=True)

    print()
    if mult.is_unique() and dups:
        print('DEFECT REPRODUCED: the compiler classifies the result of')
        print(f'  {text}')
        print(f'as duplicate-free (multiplicity {mult.own.name}) but it '
              f'evaluates to {actual!r}.')
        return 1
    if dups:
        print(f'no defect: inferred {mult.own.name}, the duplicates are '
              f'accounted for.')
    else:
        print('no defect: the result has no duplicates.')
    return 0


if __name__ == '__main__':
    try:
        rc = main()
    except SystemExit:
        raise
    except BaseException:
        traceback.print_exc()
        print('HARNESS ERROR')
        rc = 2
    sys.exit(rc)
