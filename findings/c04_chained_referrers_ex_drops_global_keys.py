"""Witness for a C04 defect: ChainedSchema.get_referrers_ex (edb/schema/schema.py) builds its result from the keys of the base and top layers only
(`for k in itertools.chain(base, top)`), so a (referrer class, field) key that exists ONLY in the global layer is dropped -- the lookup by referrer then
disagrees with the objects' own data and with ChainedSchema.get_referrers, which unions all three layers.

History (real schema objects, no parser needed): global schema with role `alice` and role `bob` whose `bases` contains alice; empty base and top layers.
    chained.get_referrers(alice)     -> {bob}
    chained.get_referrers_ex(alice)  -> {}            (expected {(Role, 'bases'): {bob}, ...})
run:  cd /repo && PYTHONPATH=/verif/stubs:/repo:/verif /venv/bin/python /verif/findings/c04_chained_referrers_ex_drops_global_keys.py
exit: 1 the defect reproduces, 0 it does not, 2 harness error
"""
import os, sys, traceback

def main():
    repo = os.environ.get('VERIF_REPO')
    if repo: sys.path.insert(0, repo)
    try:
        from edb.schema import schema as s_schema, roles as s_roles, name as sn, objects as so
        schema_g = s_schema.EMPTY_SCHEMA
        schema_g, alice = s_roles.Role.create_in_schema(schema_g, stable_ids=True, name=sn.UnqualName('alice'), bases=so.ObjectList.create(schema_g, []), ancestors=so.ObjectList.create(schema_g, []))
        schema_g, bob = s_roles.Role.create_in_schema(schema_g, stable_ids=True, name=sn.UnqualName('bob'), bases=so.ObjectList.create(schema_g, [alice]), ancestors=so.ObjectList.create(schema_g, [alice]))
        chained = s_schema.ChainedSchema(s_schema.EMPTY_SCHEMA, s_schema.EMPTY_SCHEMA, schema_g)
        flat = schema_g.get_referrers_ex(alice)
        ex = chained.get_referrers_ex(alice)
        plain = chained.get_referrers(alice)
    except Exception:
        traceback.print_exc(); print('HARNESS ERROR'); return 2
    if not plain or not flat:
        print('HARNESS ERROR: the global layer itself records no referrer of alice: %r / %r' % (plain, flat)); return 2
    want = {k: set(v) for k, v in flat.items() if v}
    got = {k: set(v) for k, v in ex.items() if v}
    print('global layer alone : get_referrers_ex(alice) = %s' % {(k[0].__name__, k[1]): sorted(o.get_name(schema_g).name for o in v) for k, v in want.items()})
    print('ChainedSchema      : get_referrers(alice)    = %s' % sorted(o.get_name(chained).name for o in plain))
    print('ChainedSchema      : get_referrers_ex(alice) = %s' % {(k[0].__name__, k[1]): sorted(o.get_name(schema_g).name for o in v) for k, v in got.items()})
    if got != want:
        print('C04 VIOLATED: the lookup by referrer on the chained schema drops %d key(s) that only the global layer has' % len(set(want) - set(got))); return 1
    print('ok: the chained lookup is the union of its layers'); return 0

if __name__ == '__main__':
    sys.exit(main())
