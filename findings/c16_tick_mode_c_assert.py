#!/usr/bin/env python
"""C16 witness: the rebalancing tick dies on `assert capacity_left > 0` (Pool._tick, Mode C).

    cd /repo && PYTHONPATH=/verif/stubs:/repo:/verif /venv/bin/python /verif/findings/c16_tick_mode_c_assert.py

Mode C first reserves one connection for every database whose proportional share of the pool is at most one (`0 < k <= 1`) and asserts that something is left.
Whether the pool is in Mode D ("more databases need a connection than there are connections") is decided by counting the databases with waiters that are NOT
suppressed; a suppressed database (its idle connections were pruned, no new request since) that still holds a connection keeps a positive calibrated demand but
is not counted.  With max_capacity = 4 and five databases of similar small demand, two of them suppressed, the pool stays in Mode C, all five get a reservation,
capacity_left becomes -1 and the tick raises AssertionError before it rebalances -- while requests for two other databases are queued.  The tick re-arms itself
first, so the next tick tries again; the queued requests are served only when holders happen to release.
The history below is the explorer's random scenario 2290 (thorough tier), replayed on the real Pool under the virtual-time loop.
exit 1: the assertion fires (finding reproduced); exit 0: it does not.
"""
import sys, os
sys.path.insert(0, os.path.join(os.path.dirname(os.path.abspath(__file__)), '..', 'contracts', 'C15'))
import scenario as S
SPEC = dict(maxcap=4, clients=[(0.2, 'db5', 0.001, False), (0.0, 'db1', 0.004, True), (0.012, 'db5', 0.004, False), (0.05, 'db1', 0.001, False), (0.2, 'db1', 0.03, False),
                               (0.001, 'db3', 0.03, False), (0.012, 'db5', 0.1, False), (0.2, 'db3', 0.1, False), (0.0, 'db0', 0.1, False), (0.012, 'db2', 0.03, True),
                               (0.2, 'db3', 0.1, False), (0.001, 'db4', 0.03, False)],
            prunes=[(0.03, 'db4'), (0.03, 'db0')], slow=[0.001, 0.02], fail_rate=0.0, disc_fail_rate=0.0, gc=1.0, horizon=600.0)
w, stats, spec = S.run_one(2290, SPEC)
print('clients', stats, 'failure', w.failure and w.failure['problem'][:200], 'known', getattr(w, 'known_hits', {}))
if getattr(w, 'known_hits', {}).get('C16-KF1-tick-mode-c-assert'):
    print('C16 finding reproduced: Pool._tick raised at `assert capacity_left > 0` while requests were queued'); sys.exit(1)
print('OK: the Mode C assertion did not fire'); sys.exit(0)
