#!/usr/bin/env python
"""C18 witness: a numeric-looking identifier with a non-ASCII decimal digit is printed bare and the lexer rejects it.

    cd /repo && PYTHONPATH=/verif/stubs:/repo:/verif /venv/bin/python /verif/findings/c18_numeric_ident_unicode_digits.py [path-to-rustlex]

edb/edgeql/quote.py: `_re_ident_or_num` accepted `([1-9]\\d* | 0)` as a "purely integer identifier"; in Python `\\d` matches every Unicode decimal digit, so
quote_ident('1' + ARABIC-INDIC DIGIT THREE, allow_num=True) -- what codegen.ident_to_str does for path steps and shape elements -- returned the name unquoted.
The EdgeQL lexer reads only ASCII digits as an integer: the text is rejected ("unexpected character").
With the lexer binary built by ./check C18 (out/rustlex/rustlex) the produced text is fed to the REAL lexer; without it the script only shows what is produced.
exit 0: every such name comes back quoted; exit 1: one is printed bare.
"""
import sys, os, json, binascii, subprocess
from edb.edgeql import quote as eq
names = ['1٣', '1٣٤', '9१', '10٠']
rlx = sys.argv[1] if len(sys.argv) > 1 else '/verif/out/rustlex/rustlex'
bad = []
for n in names:
    out = eq.quote_ident(n, allow_num=True)
    verdict = ''
    if os.path.exists(rlx):
        p = subprocess.run([rlx], input=binascii.hexlify(out.encode()).decode() + '\n', capture_output=True, text=True)
        r = json.loads(p.stdout.split('\n')[0]); verdict = ' lexer: ' + (r.get('error') or str([(t['kind'], t['text']) for t in r['tokens']]))[:100]
    print('%s -> %s%s' % (ascii(n), ascii(out), verdict))
    if not out.startswith('`'): bad.append(n)
if bad: print('C18 VIOLATED: printed unquoted:', [ascii(b) for b in bad]); sys.exit(1)
print('OK'); sys.exit(0)
