"""Witnesses for the five C18 defects found by the checks (all repaired by 'fix:' commits in /repo).
Each case runs the REAL Python producer and reads the text back with the REAL Rust lexer (rustlex).
usage: PYTHONPATH=/verif/stubs:/repo /venv/bin/python c18_quoting_witnesses.py [rustlex-binary]   exit 1 = some case fails on this tree
"""
import sys, json, binascii, subprocess
from edb.edgeql import quote, codegen, ast as qlast
RL = sys.argv[1] if len(sys.argv) > 1 else '/verif/out/rustlex/rustlex'
def lex(t):
    p = subprocess.run([RL], input=binascii.hexlify(t.encode()).decode() + '\n', capture_output=True, text=True)
    return json.loads(p.stdout.split('\n')[0])
def const(v):
    g = codegen.EdgeQLSourceGenerator(); g.visit_Constant(qlast.Constant(value=v, kind=qlast.ConstantKind.STRING)); return ''.join(g.result)
def bconst(b):
    g = codegen.EdgeQLSourceGenerator(); g.visit_BytesConstant(qlast.BytesConstant(value=b)); return ''.join(g.result)
CASES = [
    ('dollar_quote_literal, text ending in $', lambda: quote.dollar_quote_literal('abc$'), ('Str', 'abc$')),
    ('visit_Constant $$ form, text ending in $', lambda: const('\'"$'), ('Str', '\'"$')),
    ('quote_literal, bidirectional control', lambda: quote.quote_literal('a‮b'), ('Str', 'a‮b')),
    ('visit_Constant, C1 control via repr()', lambda: const('\x80'), ('Str', '\x80')),
    ('quote_ident, numeric non-decimal first character', lambda: quote.quote_ident('\xb2x'), ('Ident', '\xb2x')),
    ('visit_BytesConstant, backslash byte', lambda: bconst(b'\\'), ('BinStr', '5c')),
]
bad = 0
for name, prod, (kind, val) in CASES:
    text = prod(); r = lex(text); ts = r.get('tokens', [])
    ok = 'error' not in r and len(ts) == 1 and ts[0]['kind'] == kind and ((ts[0]['value'] or {}).get('str') == val or (ts[0]['value'] or {}).get('bytes') == val)
    print('%-55s %-22s %s' % (name, ascii(text), 'ok' if ok else 'C18 VIOLATED: read back as %s' % (r.get('error') or [(t['kind'], t['value']) for t in ts])))
    bad |= (not ok)
sys.exit(1 if bad else 0)
