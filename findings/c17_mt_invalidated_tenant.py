"""Witness for a C17 defect in the MULTI-TENANT compiler pool: a tenant that is marked for invalidation on a worker
(MultiTenantPool.drop_tenant, or eviction by maybe_invalidate_last whose request then failed its state sync) stays in
MultiTenantWorker._cache until the next acknowledged call.  A request for that tenant was therefore diffed against the stale
belief and only the changed parts were transmitted -- together with the invalidation list, which makes the worker process
drop the tenant first and then "fully" sync it from the partial transfer: the request is compiled with user_schema None.

Histories found by /verif/contracts/C17/scenario_mt.py, replayed through the same REAL code:
  drop:      request(tenant 0) ; drop_tenant(0) ; request(tenant 0, other global schema / configs)      -> user schema None
  eviction:  request(t0) ; request(t1) ; request(t2, unloadable global schema -> FailedStateSync) ; request(t0, changed) -> None
run:  cd /repo && PYTHONPATH=/verif/stubs:/repo:/verif /venv/bin/python /verif/findings/c17_mt_invalidated_tenant.py
exit: 1 the defect reproduces, 0 it does not, 2 harness error
"""
import os, sys, traceback

def main():
    repo = os.environ.get('VERIF_REPO')
    if repo: sys.path.insert(0, repo)
    here = os.path.dirname(os.path.dirname(os.path.abspath(__file__)))
    if here not in sys.path: sys.path.append(here)
    try:
        from contracts.C17 import scenario_mt as mt
    except Exception:
        traceback.print_exc(); print('HARNESS ERROR: cannot import the explorer / the repo under test'); return 2
    histories = {
        'drop': [(0, 0, 0, 0, 0, 0, 0, 0, None), ('drop', 0), (0, 0, 0, 0, 1, 1, 1, 1, None)],
        'eviction': [(0, 0, 0, 0, 0, 0, 0, 0, None), (0, 1, 0, 0, 0, 0, 0, 0, None), (0, 2, 0, 0, 0, 0, 0, 0, 'gsp'), (0, 0, 0, 0, 1, 1, 1, 1, None)],
    }
    bad = []
    try:
        for name, h in histories.items():
            f = mt.run_history(h, empties=False)
            if f is None:
                if mt.run_history.nonfaulty_failed is not None:
                    print('C17 (availability only): fault-free request %s of the %s history failed: %s' % (mt.run_history.nonfaulty_failed[0], name, mt.run_history.nonfaulty_failed[1]))
                else: print('ok: %s history: every request compiled with the supplied state' % name)
            else: bad.append((name, f))
    except Exception:
        traceback.print_exc(); print('HARNESS ERROR: replay raised'); return 2
    for name, f in bad:
        print('C17 VIOLATED (multi-tenant pool, invalidated tenant presented again; %s history): request %d differs in %s' % (name, f['step'], f['differs']))
        print('    supplied       %s' % f['supplied']); print('    compiled with  %s' % f['compiled_with'])
    return 1 if bad else 0

if __name__ == '__main__':
    sys.exit(main())
