"""Witnesses for the two C14 defects found while putting sertypes' content-derived ids under contract
(both repaired by 'fix:' commits in /repo).  Real schema objects, real sertypes.describe.
  colon    element names were joined with ':' unescaped: names ['a:b', 'c'] and ['a', 'b:c'] hashed to the same id
  sources  the pointer source types written into protocol >= 2.0 shape descriptors were not hashed into the shape id:
           Base { [is A].x } and Base { [is B].x } got one id for two different descriptors
usage: PYTHONPATH=/verif/stubs:/repo /venv/bin/python c14_id_collisions.py [colon|sources]    exit 1 = collision on this tree
"""
import sys
from edb.server.compiler import sertypes
from edb.schema import modules as s_mod, name as sn, objects as so, scalars as s_scalars, schema as s_schema, types as s_types
from edb.schema import objtypes as s_objtypes, properties as s_props
from edb.edgeql import qltypes

def base():
    schema = s_schema.EMPTY_SCHEMA
    for m in ('std', 'default'):
        schema, _ = s_mod.Module.create_in_schema(schema, stable_ids=True, name=sn.UnqualName(m))
    schema, tstr = s_scalars.ScalarType.create_in_schema(schema, stable_ids=True, name=sn.QualName('std', 'str'),
        bases=so.ObjectList.create(schema, []), ancestors=so.ObjectList.create(schema, []))
    return schema, tstr
def mko(schema, name, bases=()):
    return s_objtypes.ObjectType.create_in_schema(schema, stable_ids=True, name=sn.QualName('default', name),
        bases=so.ObjectList.create(schema, list(bases)), ancestors=so.ObjectList.create(schema, list(bases)))
def mkp(schema, src, nm, tgt):
    pname = sn.QualName('default', sn.get_specialized_name(sn.QualName('default', nm), str(src.get_name(schema))))
    return s_props.Property.create_in_schema(schema, stable_ids=True, name=pname, source=src, target=tgt,
        bases=so.ObjectList.create(schema, []), ancestors=so.ObjectList.create(schema, []),
        required=True, cardinality=qltypes.SchemaCardinality.One)

def colon():
    bad = 0
    schema, tstr = base()
    schema, t1 = s_types.Tuple.create(schema, element_types={'a:b': tstr, 'c': tstr}, named=True)
    schema, t2 = s_types.Tuple.create(schema, element_types={'a': tstr, 'b:c': tstr}, named=True)
    schema, O = mko(schema, 'O')
    schema, p1 = mkp(schema, O, 'a:b', tstr); schema, p2 = mkp(schema, O, 'c', tstr)
    schema, p3 = mkp(schema, O, 'a', tstr); schema, p4 = mkp(schema, O, 'b:c', tstr)
    for pv in ((1, 0), (2, 0), (3, 0)):
        d1, i1 = sertypes.describe(schema, t1, protocol_version=pv); d2, i2 = sertypes.describe(schema, t2, protocol_version=pv)
        if i1 == i2 and d1 != d2:
            print('C14 VIOLATED: protocol %s: named tuples (`a:b`, c) and (a, `b:c`) share descriptor id %s with different descriptors' % (pv, i1)); bad = 1
        d1, i1 = sertypes.describe(schema, O, view_shapes={O: [p1, p2]}, protocol_version=pv)
        d2, i2 = sertypes.describe(schema, O, view_shapes={O: [p3, p4]}, protocol_version=pv)
        if i1 == i2 and d1 != d2:
            print('C14 VIOLATED: protocol %s: shapes O {`a:b`, c} and O {a, `b:c`} share descriptor id %s with different descriptors' % (pv, i1)); bad = 1
        a = sertypes.describe_params(schema=schema, params=[('a:b', tstr, True), ('c', tstr, True)], protocol_version=pv)
        b = sertypes.describe_params(schema=schema, params=[('a', tstr, True), ('b:c', tstr, True)], protocol_version=pv)
        if a[1] == b[1] and a[0] != b[0]:
            print('C14 VIOLATED: protocol %s: parameter shapes share descriptor id %s with different descriptors' % (pv, a[1])); bad = 1
    return bad

def sources():
    bad = 0
    schema, tstr = base()
    schema, Base = mko(schema, 'Base'); schema, A = mko(schema, 'A', [Base]); schema, B = mko(schema, 'B', [Base])
    schema, ax = mkp(schema, A, 'x', tstr); schema, bx = mkp(schema, B, 'x', tstr)
    for pv in ((1, 0), (2, 0), (3, 0)):
        d1, i1 = sertypes.describe(schema, Base, view_shapes={Base: [ax]}, protocol_version=pv)
        d2, i2 = sertypes.describe(schema, Base, view_shapes={Base: [bx]}, protocol_version=pv)
        if i1 == i2 and d1 != d2:
            print('C14 VIOLATED: protocol %s: shapes Base {[is A].x} and Base {[is B].x} share descriptor id %s with different descriptors (source_type differs)' % (pv, i1)); bad = 1
    return bad

if __name__ == '__main__':
    which = sys.argv[1:] or ['colon', 'sources']
    rc = 0
    for w_ in which: rc |= {'colon': colon, 'sources': sources}[w_]()
    if not rc: print('no id collision')
    sys.exit(rc)
