"""Witness for the second C16 defect found by the C15/C16 scheduler explorer (repaired by a 'fix:' commit in /repo).

max_capacity = 1, databases db0 and db1, more active databases than connections (Mode D).  On release the pool hands the only
connection to db1 because db1 is under its round-robin quota ('redist-conn') although db1 has no request left, while db0 --
the block that released it -- still has a queued request.  The connection then sits idle in db1; in Mode D only release()
moves connections, idle connections were reclaimed only on the tick that *entered* Mode D, and the GC is disabled while
starving: the db0 request waited forever.  Replays the explorer's scenario 100053 on the REAL pool (virtual time).
usage: PYTHONPATH=/verif/stubs:/repo /venv/bin/python c16_idle_conn_not_reclaimed.py     exit 1 = an acquire never completes
"""
import sys, os
sys.path.insert(0, os.path.join(os.path.dirname(os.path.abspath(__file__)), '..', 'contracts', 'C15'))
import scenario as S
SPEC = dict(maxcap=1, clients=[(0.0, 'db1', 0.0, False), (0.0, 'db0', 0.004, False), (0.05, 'db0', 0.001, False), (0.0, 'db0', 0.03, False)],
            slow=[0.001, 0.02], fail_rate=0.0, gc=0.01, horizon=3600.0)
bad = 0
for seed in range(40):      # the connect / disconnect latencies are drawn from `slow`: try a few draws
    w, stats, spec = S.run_one(seed, dict(SPEC))
    if w.failure and w.failure['kind'] == 'C16 liveness':
        print('C16 VIOLATED (latency draw %d): %s' % (seed, w.failure['problem'])); bad = 1; break
    if w.failure: print('other failure:', w.failure['kind'], w.failure['problem']); bad = 1; break
if not bad: print('every acquire completed in all 40 latency draws')
sys.exit(bad)
