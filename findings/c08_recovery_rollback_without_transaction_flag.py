"""Witness for a C08 defect: the ROLLBACK / ROLLBACK TO SAVEPOINT unit that Compiler._try_compile_rollback builds for a connection whose transaction is in
the error state carries no capability at all -- the property demands TRANSACTION for transaction-control commands (the same statements compiled on the normal
path, through _compile_dispatch_ql, do get it).

Real code: edb.server.compiler.compiler.Compiler._try_compile_rollback, dbstate.QueryUnit, dbstate.QueryUnitGroup.append.
Substituted (stated): edgeql.parse_block -- the native parser is not built in this sandbox -- returns the qlast node the parser produces for the text.
run:  cd /repo && PYTHONPATH=/verif/stubs:/repo:/verif /venv/bin/python /verif/findings/c08_recovery_rollback_without_transaction_flag.py
exit: 1 the defect reproduces, 0 it does not, 2 harness error
"""
import os, sys, traceback

def main():
    repo = os.environ.get('VERIF_REPO')
    if repo: sys.path.insert(0, repo)
    try:
        from edb.edgeql import ast as qlast
        from edb.server.compiler import compiler as C, enums
        texts = {b'rollback': [qlast.RollbackTransaction()], b'rollback to savepoint s1': [qlast.RollbackToSavepoint(name='s1')]}
        C.edgeql.parse_block = lambda source: texts[source.encode() if isinstance(source, str) else source]
        bad = []
        for text in texts:
            group, _ = C.Compiler._try_compile_rollback(text)
            units = list(group)
            caps = enums.Capability(group.capabilities)
            print('%-28r unit capabilities = %r, group capabilities = %r' % (text.decode(), enums.Capability(units[0].capabilities), caps))
            if not (caps & enums.Capability.TRANSACTION): bad.append(text.decode())
    except Exception:
        traceback.print_exc(); print('HARNESS ERROR'); return 2
    if bad:
        print('C08 VIOLATED: transaction-control statement(s) %s compiled on the recovery path declare no TRANSACTION capability' % bad); return 1
    print('ok: the recovery path declares TRANSACTION'); return 0

if __name__ == '__main__':
    sys.exit(main())
