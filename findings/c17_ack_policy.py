"""Witnesses for the two OPEN C17 findings at the RPC boundary (recorded, not repaired: a repair needs the worker to
report whether its state sync completed, i.e. a protocol change).

Wires together REAL code only: pool.AbstractPool.compile / _compute_compile_preargs / BaseWorker.call on the server
side, the REAL worker_proc.worker request loop, and the REAL worker.py handlers; only the socket is replaced by an
in-process hand-over and COMPILER by a recorder.

KF1  a request that cannot be decoded in the worker (pickle.loads(req) fails in worker_proc) is answered with
     status 1 and a non-FailedStateSync exception although __sync__ never ran; BaseWorker.call acknowledges the
     transfer, so the server believes the worker holds the new schema.  The next request transmits nothing and is
     compiled against the old schema.
KF2  a compile whose *result* cannot be pickled is answered with status 2 after __sync__ completed; call() does not
     acknowledge, the server keeps believing the old schema is on the worker; a later request that presents the old
     schema again transmits nothing and is compiled against the new one.

usage: PYTHONPATH=/verif/stubs:/repo /venv/bin/python c17_ack_policy.py [KF1|KF2]   exit 1 = violated on this tree
"""
import asyncio, pickle, sys, types, immutables
from edb.server.compiler_pool import pool, state, worker, worker_proc, amsg

class Recorder:
    def __init__(self): self.calls = []; self.result = ('units', None)
    def compile_serialized_request(self, user_schema, global_schema, refl, dbc, sysc, *a, **k):
        self.calls.append(user_schema); return self.result

class InProcCon:
    """replaces the unix socket: one request -> one iteration of the REAL worker_proc.worker loop"""
    def is_closed(self): return False
    async def request(self, msg):
        box = {}
        class FakeWC:
            def __init__(s, *a): pass
            def iter_request(s): yield (1, msg)
            def reply(s, req_id, data): box['data'] = data
            def abort(s): pass
        orig = amsg.WorkerConnection; amsg.WorkerConnection = FakeWC
        try: worker_proc.worker('sock', 0, worker.get_handler)
        finally: amsg.WorkerConnection = orig
        return box['data']

class Unloadable:            # pickles fine on the server, fails to load in the worker (e.g. class/version mismatch)
    def __reduce__(self): return (_boom, ())
def _boom(): raise ImportError('cannot import name in worker')

class Unpicklable:           # a compile result that cannot be sent back
    def __reduce__(self): raise TypeError('cannot pickle result')

def setup():
    worker.COMPILER = Recorder(); worker.INITED = True
    S1 = 'schema-1'; usp1 = pickle.dumps(S1); gsp = pickle.dumps('G'); rc = immutables.Map({'a': 1}); dc = immutables.Map({'b': 1}); sc = immutables.Map({'c': 1})
    worker.DBS = immutables.Map({'main': state.DatabaseState('main', S1, rc, dc)}); worker.GLOBAL_SCHEMA = 'G'; worker.INSTANCE_CONFIG = sc
    w = pool.BaseWorker(immutables.Map({'main': state.PickledDatabaseState(usp1, rc, dc)}), None, None, None, None, gsp, sc)
    w._con = InProcCon()
    p = pool.AbstractPool.__new__(pool.AbstractPool)
    async def acq(**kw): return w
    p._acquire_worker = acq; p._release_worker = lambda wk, **kw: None
    return p, w, (usp1, gsp, rc, dc, sc)

def run(p, dbname, usp, gsp, rc, dc, sc, *args):
    try: asyncio.run(p.compile(dbname, usp, gsp, rc, dc, sc, *args)); return None
    except Exception as e: return e

def kf1():
    p, w, (usp1, gsp, rc, dc, sc) = setup()
    usp2 = pickle.dumps('schema-2')
    e = run(p, 'main', usp2, gsp, rc, dc, sc, Unloadable())           # request cannot be decoded in the worker
    assert e is not None and not isinstance(e, state.FailedStateSync), e
    run(p, 'main', usp2, gsp, rc, dc, sc, 'select 1')                 # same state again: nothing is transmitted
    used = worker.COMPILER.calls[-1]
    if used != 'schema-2':
        print('C17 VIOLATED (KF1): request supplied schema-2 but was compiled against %r; server believes worker holds %r'
              % (used, pickle.loads(w._dbs['main'].user_schema_pickle))); return 1
    return 0

def kf2():
    p, w, (usp1, gsp, rc, dc, sc) = setup()
    usp2 = pickle.dumps('schema-2')
    worker.COMPILER.result = (Unpicklable(), None)
    e = run(p, 'main', usp2, gsp, rc, dc, sc, 'select 1')             # sync completes, result cannot be pickled -> status 2
    assert e is not None, 'expected an error'
    worker.COMPILER.result = ('units', None)
    run(p, 'main', usp1, gsp, rc, dc, sc, 'select 2')                 # an older request still carrying schema-1 (believed present)
    used = worker.COMPILER.calls[-1]
    if used != 'schema-1':
        print('C17 VIOLATED (KF2): request supplied schema-1 (believed on the worker) but was compiled against %r' % used); return 1
    return 0

if __name__ == '__main__':
    which = sys.argv[1:] or ['KF1', 'KF2']
    rc = 0
    for k in which: rc |= {'KF1': kf1, 'KF2': kf2}[k]()
    sys.exit(rc)
