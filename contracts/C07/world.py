"""C07 sidecar contracts (fragment): how the access-policy filter is put together and kept pending.

Within reach of per-function contracts and decided here:
  F1  edgeql/compiler/policies.py get_rewrite_filter: for an arbitrary object (row) -- `holds(e)` is the truth value of a boolean
      EdgeQL expression e on that row, `polsem(p)` the truth value of policy p's compiled condition -- the filter it returns satisfies
          holds(filter)  ==  ( (some ALLOW policy of the requested access kind holds) or (function override) )  and  not (some DENY policy of that kind holds)
      i.e. allow-any / deny-none, for every number of policies (loop invariant);  no filter is returned only when the type has no policies.
  F2  edgeql/compiler/astutils.py extend_binop: the n-ary AND / OR chain has the semantics of the conjunction / disjunction of its operands.
  F3  pgsql/compiler/context.py CompilerContextLevel.__init__: in every context-switch mode the set of type rewrites whose CTE is being
      compiled (`pending_type_rewrite_ctes`) contains the enclosing level's set (whole-class AST obligation).
  F4-F6 see below (has_own_policies, try_type_rewrite in three views, the compiled-alias cache).
  F7  pgsql/compiler/relctx.py range_for_material_objtype: a type with a registered rewrite gets a range variable over the relation compiled from that rewrite
      (compiled now or taken from the CTE cache, whose keying is part of the invariant), unless the caller says ignore_rewrites / for_mutation or that very rewrite
      is being compiled; + an inventory of the flags passed at every call site of the range-variable builders.
  F8  edgeql/compiler/setgen.py new_set (the one constructor of IR sets): a set over an object type that does not say ignore_rewrites has its rewrite key registered
      when new_set returns; the flag is set only on request or by should_ignore_rewrite.
  F9  policies.should_ignore_rewrite: only while access policies are being compiled.
NOT covered (no contract within reach decides it): that every IR set is built by new_set (~40 callers; irast.Set is also constructed directly in a few places), that the
SQL compiler reaches range_for_material_objtype for every read of a type's table (relgen's dispatch), and the semantics of the compiled rewrite itself.
"""
import ast, os
from pyvc.engine import World
from pyvc import repo

POL = 'edb/edgeql/compiler/policies.py'
AST = 'edb/edgeql/compiler/astutils.py'
QLT = 'edb/edgeql/qltypes.py'
PGCTX = 'edb/pgsql/compiler/context.py'

def build():
    w = World('C07')
    w.refclass('Obj', {}, universal=True)
    w.enum('AccessKind', QLT, 'AccessKind'); w.enum('Action', QLT, 'AccessPolicyAction')
    w.refclass('Pol', {}); w.refclass('Opts', {'func_params': 'Opt[Obj]'}); w.refclass('TypeT', {}, universal=True)
    # env.type_rewrites is a dict held BY REFERENCE: try_type_rewrite keeps an alias of it while the code it calls may rebind the attribute
    w.refdict('RWD', 'Map[Tuple[TypeT,bool],Opt[Obj]]')
    w.refclass('Env', {'schema': 'Obj', 'options': 'Opts', 'type_rewrites': 'RWD'})
    w.refclass('Ctx', {'env': 'Env', 'anchors': 'Obj', 'partial_path_prefix': 'Obj', 'path_scope': 'Obj', 'expr_exposed': 'Obj'})
    w.ufunc('holds', ['Obj'], 'bool'); w.ufunc('polsem', ['Pol'], 'bool'); w.ufunc('irsem', ['Obj'], 'bool')
    w.ufunc('kinds', ['Pol'], 'Set[AccessKind]'); w.ufunc('action', ['Pol'], 'Action')
    w.trusted.append('semantics of expression constructors (outside reach): BinOp(l, r, AND/OR) is the conjunction / disjunction, UnaryOp(NOT, x) the negation, Constant.boolean(b) is b; '
                     'compile_pol + create_anchor yield an expression whose truth value is the policy condition; the "bogus" `.id ?= <uuid>{}` disjunct is false on every existing object')
    w.ext_funcs['qlast.BinOp'] = dict(params={'left': 'Obj', 'right': 'Obj', 'op': 'str'}, returns='Obj',
        ensures=['implies(op == "OR", holds(result) == (holds(left) or holds(right)))', 'implies(op == "AND", holds(result) == (holds(left) and holds(right)))',
                 'implies(op == "?=", not holds(result))'])
    w.ext_funcs['qlast.UnaryOp'] = dict(params={'op': 'str', 'operand': 'Obj'}, returns='Obj', ensures=['implies(op == "NOT", holds(result) == (not holds(operand)))'])
    w.ext_funcs['qlast.Constant.boolean'] = dict(params={'b': 'bool'}, returns='Obj', ensures=['holds(result) == b'])
    for nm in ('qlast.Path', 'qlast.Ptr', 'qlast.TypeCast', 'qlast.TypeName', 'qlast.ObjectRef', 'qlast.Set'):
        w.ext_funcs[nm] = dict(params={}, returns='Obj')
    # F2
    w.contract(AST, 'extend_binop', params={'binop': 'Opt[Obj]', 'exprs': 'Seq[Obj]', 'op': 'str'}, returns='Obj',
        requires=['is_none(binop) == False or len(exprs) >= 0', 'implies(is_none(binop), len(exprs) >= 1)'],
        ensures=['implies(op == "OR", holds(result) == ((not is_none(binop) and holds(some(binop))) or exists(0, len(exprs), lambda k: holds(exprs[k]))))',
                 'implies(op == "AND", holds(result) == ((is_none(binop) or holds(some(binop))) and forall(0, len(exprs), lambda k: holds(exprs[k]))))'],
        loops={0: dict(fingerprint='for expr in exprlist', index='i', invariant=[
            'len(exprlist) == len(exprs) - (1 if is_none(binop) else 0)',
            'forall(0, len(exprlist), lambda k: exprlist[k] == exprs[k + (1 if is_none(binop) else 0)])',
            'implies(op == "OR", holds(result) == ((not is_none(binop) and holds(some(binop))) or exists(0, i + (1 if is_none(binop) else 0), lambda k: holds(exprs[k]))))',
            'implies(op == "AND", holds(result) == ((is_none(binop) or holds(some(binop))) and forall(0, i + (1 if is_none(binop) else 0), lambda k: holds(exprs[k]))))'])},
        hints=dict(var_types={'exprlist': 'Seq[Obj]', 'result': 'Obj'}))
    # F1
    w.ext_funcs['get_access_policies'] = dict(params={'stype': 'Obj', 'ctx': 'Ctx'}, returns='Seq[Pol]')
    w.ext_funcs['compile_pol'] = dict(params={'pol': 'Pol', 'ctx': 'Ctx'}, returns='Obj', ensures=['irsem(result) == polsem(pol)'])
    w.ext_methods['Ctx.create_anchor'] = dict(params={'x': 'Obj'}, optional=('hint',), returns='Obj', ensures=['holds(result) == irsem(x)'])
    w.ext_methods['Ctx.create_anchor']['params'] = {'x': 'Obj', 'hint': 'str'}
    w.ext_methods['Obj.copy'] = dict(params={}, returns='Obj')
    w.ext_methods['Pol.get_access_kinds'] = dict(params={'schema': 'Obj'}, returns='Set[AccessKind]', ensures=['result == kinds(self)'])
    w.ext_methods['Pol.get_action'] = dict(params={'schema': 'Obj'}, returns='Action', ensures=['result == action(self)'])
    w.ext_funcs['get_extra_function_rewrite_filter'] = dict(params={'ctx': 'Ctx'}, returns='Obj', ensures=['result == func_filter(ctx)'])
    w.ufunc('func_filter', ['Ctx'], 'Obj')
    # "some ALLOW / DENY policy of the requested kind among the first k holds": recursive spec functions introduced by their defining equations
    w.ufunc('anyA', ['Seq[Pol]', 'AccessKind', 'int'], 'bool'); w.ufunc('anyD', ['Seq[Pol]', 'AccessKind', 'int'], 'bool')
    w.define('anyA_def(ps, m, k)', 'anyA(ps, m, 0) == False and implies(k >= 0, anyA(ps, m, k + 1) == (anyA(ps, m, k) or (m in kinds(ps[k]) and action(ps[k]) == Action.Allow and polsem(ps[k]))))')
    w.define('anyD_def(ps, m, k)', 'anyD(ps, m, 0) == False and implies(k >= 0, anyD(ps, m, k + 1) == (anyD(ps, m, k) or (m in kinds(ps[k]) and action(ps[k]) != Action.Allow and polsem(ps[k]))))')
    w.definitional |= {'anyA_def', 'anyD_def'}
    w.trusted.append('anyA / anyD: recursive spec functions (disjunction over a prefix of the policy list) introduced by their defining equations')
    w.contract(POL, 'get_rewrite_filter', params={'stype': 'Obj', 'mode': 'AccessKind', 'ctx': 'Ctx'}, ghost={'gA': 'bool', 'gD': 'bool'}, returns='Opt[Obj]', modifies=['Ctx.anchors'],
        requires=['not gA', 'not gD'],
        ensures=['is_none(result) == (len(pols) == 0)',
                 # allow-any and deny-none, on an arbitrary row
                 'implies(not is_none(result), holds(some(result)) == ((anyA(pols, mode, len(pols)) or (not is_none(ctx.env.options.func_params) and holds(func_filter(ctx)))) and not anyD(pols, mode, len(pols))))'],
        ghost_after={'allow.append(expr)': [('gA', 'gA or holds(expr)')], 'deny.append(expr)': [('gD', 'gD or holds(expr)')]},
        loops={0: dict(fingerprint='for pol in pols', index='i', lemmas=['anyA_def(pols, mode, i)', 'anyD_def(pols, mode, i)'], invariant=[
            'gA == anyA(pols, mode, i)', 'gD == anyD(pols, mode, i)',
            'gA == exists(0, len(allow), lambda k: holds(allow[k]))', 'gD == exists(0, len(deny), lambda k: holds(deny[k]))'])},
        hints=dict(ghost_out=['gA', 'gD'], var_types={'allow': 'Seq[Obj]', 'deny': 'Seq[Obj]', 'pols': 'Seq[Pol]'}))

    # F4  has_own_policies: does the type or any descendant carry a policy that is not inherited from `skip_from`?  (it decides whether a read of an
    #     ancestor goes through the plain inheritance view or is expanded so that the descendant's policy filter is applied)
    # spec: HOP(t, skip) is the recursive predicate  LOCAL(t, skip) or some child c of t has HOP(c, t),  LOCAL(t, skip) = some policy p of t none of
    #       whose bases has subject `skip`.  The recursion of the real function is the induction: its contract is assumed at the recursive calls.
    w.refclass('PolColl', {})
    w.ufunc('POLS', ['TypeT'], 'Seq[Pol]'); w.ufunc('CH', ['TypeT'], 'Seq[TypeT]'); w.ufunc('BASES', ['Pol'], 'Seq[Pol]'); w.ufunc('SUBJ', ['Pol'], 'Opt[TypeT]')
    w.ufunc('COLL', ['PolColl'], 'Seq[Pol]'); w.ufunc('HOP', ['TypeT', 'Opt[TypeT]'], 'bool')
    w.trusted.append('schema accessors of has_own_policies are uninterpreted functions of the (fixed) schema: POLS(t) = get_access_policies(t), CH(t) = t.children(), BASES(p), SUBJ(p)')
    w.ufunc('LOCALP', ['Pol', 'Opt[TypeT]'], 'bool')
    w.define('LOCALP_def(p, skip)', 'LOCALP(p, skip) == forall(0, len(BASES(p)), lambda b: skip != SUBJ(seq_get(BASES(p), b)))')
    w.define('HOP_def(t, skip)', 'HOP(t, skip) == (exists(0, len(POLS(t)), lambda k: LOCALP(seq_get(POLS(t), k), skip)) or exists(0, len(CH(t)), lambda c: HOP(seq_get(CH(t), c), t)))')
    w.definitional |= {'HOP_def', 'LOCALP_def'}
    HOPX = dict(hints=None)
    w.contract(POL, 'has_own_policies', params={'stype': 'TypeT', 'skip_from': 'Opt[TypeT]', 'ctx': 'Ctx'}, returns='bool', pure=True,
        ensures=['result == HOP(stype, skip_from)'],
        loops={0: dict(fingerprint='for pol in get_access_policies(stype, ctx=ctx)', index='i', lemmas=['LOCALP_def(seq_get(POLS(stype), i), skip_from)'],
                       invariant=['forall(0, i, lambda k: not LOCALP(seq_get(POLS(stype), k), skip_from))'])},
        hints={'lemmas': ['HOP_def(stype, skip_from)'],
               'ext_funcs': {'get_access_policies': dict(params={'stype': 'TypeT', 'ctx': 'Ctx'}, returns='Seq[Pol]', ensures=['result == POLS(stype)'])}})
    w.ext_methods['TypeT.children'] = dict(params={'schema': 'Obj'}, returns='Seq[TypeT]', ensures=['result == CH(self)'])
    w.ext_methods['Pol.get_bases'] = dict(params={'schema': 'Obj'}, returns='PolColl', ensures=['COLL(result) == BASES(self)'])
    w.ext_methods['PolColl.objects'] = dict(params={'schema': 'Obj'}, returns='Seq[Pol]', ensures=['result == COLL(self)'])
    w.ext_methods['Pol.get_subject'] = dict(params={'schema': 'Obj'}, returns='Opt[TypeT]', ensures=['result == SUBJ(self)'])

    # F5  try_type_rewrite (object types that are not unions / intersections): when it returns, the type's key is registered in the environment's
    #     table of rewrites -- the table the rest of the compiler consults (`ctx.env.type_rewrites` as it is THEN) -- and it holds a real rewrite
    #     whenever the type has policies of its own or a descendant has (HOP).  Everything the function calls into the expression compiler is outside
    #     reach; the assumed contract of those calls is only: they may add entries, and they may REBIND env.type_rewrites to another dict that still has
    #     every key that was registered when they were called (what typegen's `typeof` branch does when it restores its snapshot).
    w.ufunc('ISCOMP', ['TypeT'], 'bool'); w.ufunc('ISABS', ['TypeT'], 'bool')
    w.ext_methods['TypeT.is_compound_type'] = dict(params={'schema': 'Obj'}, returns='bool', ensures=['result == ISCOMP(self)'])
    w.ext_methods['TypeT.get_abstract'] = dict(params={'schema': 'Obj'}, returns='bool', ensures=['result == ISABS(self)'])
    KEYS_KEPT = 'forall(TypeT, bool, lambda t, b: implies(old((t, b) in ctx.env.type_rewrites), (t, b) in ctx.env.type_rewrites))'
    COMPILE = dict(modifies=['Env.type_rewrites', 'RWD.m', '$alloc', 'Ctx.anchors'], ensures=[KEYS_KEPT], raises={'QueryError': {}})
    def comp(params, returns='Obj', **kw):
        d = dict(COMPILE); d['params'] = params; d['returns'] = returns; d.update(kw); return d
    w.trusted.append('calls into the expression compiler from try_type_rewrite (class_set, scoped_set, compile_where_clause, expression_set, ensure_stmt, dispatch.compile, create_anchor, '
                     'get_rewrite_filter) are assumed only to keep every registered key of the environment\'s rewrite table (possibly in a new dict object) and to raise QueryError at most')
    w.refclass('StmtT', {'where': 'Obj'})
    # the base set of the rewrite filed under (stype, skip_subtypes=True) must not range over the subtypes (it is read where only the type itself is meant: the
    # subtypes with policies of their own get their own rewrites); same when the children are handled separately.  A proof obligation at the call site.
    BASE_REQ = dict(bind={'K_skipreq': 'skip_subtypes', 'K_chp': 'children_have_policies'}, requires=['implies(K_skipreq or K_chp, skip_subtypes)'])
    XF = {'setgen.class_set': comp({'stype': 'TypeT', 'skip_subtypes': 'bool', 'ctx': 'Ctx'}, **BASE_REQ),
          'setgen.scoped_set': comp({'stmt': 'StmtT', 'ctx': 'Ctx'}),
          'clauses.compile_where_clause': comp({'where': 'Opt[Obj]', 'ctx': 'Ctx'}),
          'get_rewrite_filter': comp({'stype': 'TypeT', 'mode': 'AccessKind', 'ctx': 'Ctx'}, returns='Opt[Obj]'),
          'dispatch.compile': comp({'expr': 'Obj', 'ctx': 'Ctx'}),
          'irast.SelectStmt': dict(params={'result': 'Obj'}, returns='StmtT'),
          'get_access_policies': dict(params={'stype': 'TypeT', 'ctx': 'Ctx'}, returns='Seq[Pol]', ensures=['result == POLS(stype)'])}
    SAME_ENV = ['result.env == self.env']
    w.ext_methods['Ctx.detached'] = dict(params={}, returns='Ctx', context_manager=True, modifies=['$alloc'], ensures=SAME_ENV)
    w.ext_methods['Ctx.new'] = dict(params={}, returns='Ctx', context_manager=True, modifies=['$alloc'], ensures=SAME_ENV)
    RW = 'ctx.env.type_rewrites'
    w.contract(POL, 'try_type_rewrite', params={'stype': 'TypeT', 'skip_subtypes': 'bool', 'ctx': 'Ctx'}, returns='none',
        requires=['not ISCOMP(stype)'],
        modifies=['Env.type_rewrites', 'RWD.m', '$alloc', 'Ctx.anchors', 'Ctx.partial_path_prefix', 'Ctx.path_scope', 'Ctx.expr_exposed', 'StmtT.where'],
        ensures=['(stype, skip_subtypes) in %s' % RW,
                 # the type itself has policies (or, unless subtypes are skipped, a descendant has): a real rewrite is registered where the compiler will look
                 'implies(len(POLS(stype)) > 0 and not ISABS(stype), not is_none(%s[(stype, skip_subtypes)]))' % RW,
                 KEYS_KEPT],
        raises={'QueryError': {}},
        abstract={'if children_have_policies:#0': dict(assigns={'children_overlap': 'bool', 'descs': 'Seq[TypeT]'}),
                  'subctx.path_scope = subctx.env.path_scope.root.attach_fence()': dict(),
                  "subctx.anchors['__subject__'] = base_set": dict(),
                  'if children_have_policies and (not skip_subtypes):': dict(assigns={'sets': 'Seq[Obj]'}, modifies=['Env.type_rewrites', 'RWD.m', '$alloc', 'Ctx.anchors'],
                        ensures=['len(sets) >= len(old(sets))', KEYS_KEPT]),
                  'if len(sets) > 1:': dict(assigns={'rewritten_set': 'Opt[Obj]'}, modifies=['Env.type_rewrites', 'RWD.m', '$alloc', 'Ctx.anchors'],
                        ensures=['is_none(rewritten_set) == (len(sets) == 0)', KEYS_KEPT])},
        hints={'ext_funcs': XF, 'var_types': {'sets': 'Seq[Obj]'}})

    # second view: the same body against a quantifier-free version of the assumed compile contract (only the function's own key is tracked), so that the
    # obligation "the finished rewrite is registered in the live table" is decidable both ways (a definite counter-model instead of a solver timeout)
    OWN_KEPT = 'implies(old((K_t, K_b) in ctx.env.type_rewrites), (K_t, K_b) in ctx.env.type_rewrites)'
    BIND = {'K_t': 'stype', 'K_b': 'skip_subtypes'}
    def gcomp(params, returns='Obj', **kw):
        d = dict(COMPILE); d['ensures'] = [OWN_KEPT]; d['bind'] = BIND; d['params'] = params; d['returns'] = returns; d.update(kw); return d
    XG = dict(XF)
    XG.update({'setgen.class_set': gcomp({'stype': 'TypeT', 'skip_subtypes': 'bool', 'ctx': 'Ctx'}, bind=dict(BIND, **BASE_REQ['bind']), requires=BASE_REQ['requires']), 'setgen.scoped_set': gcomp({'stmt': 'StmtT', 'ctx': 'Ctx'}),
               'clauses.compile_where_clause': gcomp({'where': 'Opt[Obj]', 'ctx': 'Ctx'}), 'dispatch.compile': gcomp({'expr': 'Obj', 'ctx': 'Ctx'}),
               'get_rewrite_filter': gcomp({'stype': 'TypeT', 'mode': 'AccessKind', 'ctx': 'Ctx'}, returns='Opt[Obj]')})
    OWN_BLOCK = 'implies(old((stype, skip_subtypes) in ctx.env.type_rewrites), (stype, skip_subtypes) in ctx.env.type_rewrites)'
    w.contract(POL, 'try_type_rewrite', view='live', params={'stype': 'TypeT', 'skip_subtypes': 'bool', 'ctx': 'Ctx'}, returns='none',
        requires=['not ISCOMP(stype)'],
        modifies=['Env.type_rewrites', 'RWD.m', '$alloc', 'Ctx.anchors', 'Ctx.partial_path_prefix', 'Ctx.path_scope', 'Ctx.expr_exposed', 'StmtT.where'],
        ensures=['(stype, skip_subtypes) in %s' % RW,
                 'implies(len(POLS(stype)) > 0 and not ISABS(stype), not is_none(%s[(stype, skip_subtypes)]))' % RW],
        raises={'QueryError': {}},
        abstract={'if children_have_policies:#0': dict(assigns={'children_overlap': 'bool', 'descs': 'Seq[TypeT]'}),
                  'subctx.path_scope = subctx.env.path_scope.root.attach_fence()': dict(),
                  "subctx.anchors['__subject__'] = base_set": dict(),
                  'if children_have_policies and (not skip_subtypes):': dict(assigns={'sets': 'Seq[Obj]'}, modifies=['Env.type_rewrites', 'RWD.m', '$alloc', 'Ctx.anchors'],
                        ensures=['len(sets) >= len(old(sets))', OWN_BLOCK]),
                  'if len(sets) > 1:': dict(assigns={'rewritten_set': 'Opt[Obj]'}, modifies=['Env.type_rewrites', 'RWD.m', '$alloc', 'Ctx.anchors'],
                        ensures=['is_none(rewritten_set) == (len(sets) == 0)', OWN_BLOCK])},
        hints={'ext_funcs': XG, 'var_types': {'sets': 'Seq[Obj]'}})

    # F5c  try_type_rewrite, union / intersection types: every component gets its rewrite registered (a read through the compound type ranges over the
    #      components' rewrites), and the compound key itself is registered
    w.refclass('TColl', {}); w.ufunc('UNI', ['TypeT'], 'Seq[TypeT]'); w.ufunc('INTER', ['TypeT'], 'Seq[TypeT]'); w.ufunc('TCOLL', ['TColl'], 'Seq[TypeT]')
    w.ext_methods['TypeT.get_union_of'] = dict(params={'schema': 'Obj'}, returns='TColl', ensures=['TCOLL(result) == UNI(self)'])
    w.ext_methods['TypeT.get_intersection_of'] = dict(params={'schema': 'Obj'}, returns='TColl', ensures=['TCOLL(result) == INTER(self)'])
    w.ext_methods['TColl.objects'] = dict(params={'schema': 'Obj'}, returns='Seq[TypeT]', returns_expr='TCOLL(self)')
    COMPS_PLAIN = 'forall(0, len(UNI(stype)), lambda k: not ISCOMP(seq_get(UNI(stype), k))) and forall(0, len(INTER(stype)), lambda k: not ISCOMP(seq_get(INTER(stype), k)))'
    ALLREG = lambda hi: 'forall(0, %s, lambda k: (seq_get(objs, k), skip_subtypes) in ctx.env.type_rewrites)' % hi
    w.contract(POL, 'try_type_rewrite', view='compound', params={'stype': 'TypeT', 'skip_subtypes': 'bool', 'ctx': 'Ctx'}, returns='none',
        requires=['ISCOMP(stype)', COMPS_PLAIN],
        modifies=['Env.type_rewrites', 'RWD.m', '$alloc', 'Ctx.anchors', 'Ctx.partial_path_prefix', 'Ctx.path_scope', 'Ctx.expr_exposed', 'StmtT.where'],
        ensures=['(stype, skip_subtypes) in ctx.env.type_rewrites',
                 # `objs` (a local) is the list of components: union members followed by intersection members -- every one of them is registered
                 ALLREG('len(objs)'), 'len(objs) == len(UNI(stype)) + len(INTER(stype))',
                 'forall(0, len(UNI(stype)), lambda k: seq_get(objs, k) == seq_get(UNI(stype), k))',
                 'forall(0, len(INTER(stype)), lambda k: seq_get(objs, len(UNI(stype)) + k) == seq_get(INTER(stype), k))'],
        raises={'QueryError': {}},
        loops={0: dict(fingerprint='for obj in objs', index='i', invariant=['(stype, skip_subtypes) in ctx.env.type_rewrites', ALLREG('i'),
                       'len(objs) == len(UNI(stype)) + len(INTER(stype))',
                       'forall(0, len(UNI(stype)), lambda k: seq_get(objs, k) == seq_get(UNI(stype), k))',
                       'forall(0, len(INTER(stype)), lambda k: seq_get(objs, len(UNI(stype)) + k) == seq_get(INTER(stype), k))'])},
        hints={'var_types': {'objs': 'Seq[TypeT]'}, 'callee_views': {'try_type_rewrite': None}})

    # F6  stmtctx._declare_view_from_schema: the compiled body of a schema alias / global is cached per (alias, SECURITY CONTEXT).  The copy compiled while access
    #     policies are being compiled (rewrites deliberately off) must never be handed to the query body, and vice versa:
    #     every cache entry was compiled under the security context it is filed under (CU = "compiled under"), and what is returned was compiled under the caller's.
    STM = 'edb/edgeql/compiler/stmtctx.py'
    w.refclass('VSet', {'path_id': 'Obj', 'is_schema_alias': 'bool'})
    w.ufunc('SEC', ['Ctx'], 'Obj'); w.ufunc('CU', ['VSet'], 'Obj')
    w.classes['Env']['schema_view_cache'] = 'Map[Tuple[TypeT,Obj],Tuple[TypeT,VSet]]'
    w.classes['Ctx'].update({'current_schema_views': 'Seq[TypeT]', 'aliased_views': 'Map[Obj,Opt[Obj]]'})
    w.ext_methods['Ctx.get_security_context'] = dict(params={}, returns='Obj', returns_expr='SEC(self)')
    w.ext_methods['Ctx.schema_factoring'] = dict(params={}, returns='none')
    w.ext_methods['TypeT.get_expr'] = dict(params={'schema': 'Obj'}, returns='Opt[Obj]')
    w.ext_methods['TypeT.get_name'] = dict(params={'schema': 'Obj'}, returns='Obj')
    w.ext_methods['Obj.parse'] = dict(params={}, returns='Obj')
    w.ext_methods['Obj.replace_namespace'] = dict(params={'ns': 'Obj'}, returns='Obj')
    w.trusted.append('stmtctx: a context derived with detached() / new() has the security context of the context it was derived from; declare_view compiles under the security context of the context it is given')
    XV = {'declare_view': dict(params={'expr': 'Obj', 'alias': 'Obj', 'binding_kind': 'Obj', 'fully_detached': 'bool', 'ctx': 'Ctx'}, returns='VSet', modifies=['$alloc', 'Ctx.aliased_views'],
                               ensures=['CU(result) == SEC(ctx)', 'not allocated_before(result)'] if False else ['CU(result) == SEC(ctx)'], raises={'QueryError': {}}),
          'setgen.get_set_type': dict(params={'ir_set': 'Obj', 'ctx': 'Ctx'}, returns='TypeT')}
    w.opaque_exprs['irast.BindingKind.Schema'] = 'Obj'; w.opaque_exprs['context.Exposure.UNEXPOSED'] = 'Obj'
    w.ext_methods['Ctx.detached']['ensures'] = SAME_ENV + ['SEC(result) == SEC(self)']
    w.ext_methods['Ctx.new']['ensures'] = SAME_ENV + ['SEC(result) == SEC(self)']
    CINV = 'forall(TypeT, Obj, lambda v, sc: implies((v, sc) in ctx.env.schema_view_cache, CU(ctx.env.schema_view_cache[(v, sc)][1]) == sc))'
    w.contract(STM, '_declare_view_from_schema', params={'viewcls': 'TypeT', 'ctx': 'Ctx'}, returns='Tuple[TypeT,VSet]',
        requires=[CINV], modifies=['Env.schema_view_cache', 'Ctx.current_schema_views', 'Ctx.expr_exposed', 'Ctx.aliased_views', 'VSet.path_id', 'VSet.is_schema_alias', '$alloc'],
        ensures=['CU(result[1]) == SEC(ctx)', CINV],
        raises={'QueryError': {}, 'AssertionError': {}, 'KeyError': {}})
    w.contracts['%s:_declare_view_from_schema' % STM].hints['ext_funcs'] = XV

    # F7  pgsql/compiler/relctx.py range_for_material_objtype -- the place where the SQL compiler puts the policy-filtered rewrite in place of a type's table.
    #     History predicates (write-once, uninterpreted): RWOF(rel) = the IR set a relation (or the query of a CTE) was compiled from; OVER(rvar) = what a range
    #     variable ranges over; INCL(rel) = the range variable included into a freshly made sub-relation.
    #     Clause: unless the caller says ignore_rewrites / for_mutation or the rewrite of this very key is being compiled, a type with a registered rewrite gets a
    #     range variable over (a wrapper of) the relation compiled from THAT rewrite -- whether it is compiled now or taken from the per-statement CTE cache
    #     (invariant: an entry filed under (type id, include_descendants, dml sources) was compiled from the rewrite registered under (type id, include_descendants)).
    REL = 'edb/pgsql/compiler/relctx.py'
    w.refclass('RSet', {'path_id': 'Obj'})
    w.refclass('TRf', {'real_material_type': 'TRf', 'name_hint': 'Obj', 'id': 'Obj', 'is_view': 'bool'})
    w.refclass('PId', {}); w.ext_methods['PId.is_objtype_path'] = dict(params={}, returns='bool')
    w.refdict('CTED', 'Map[Tuple[Obj,bool,Opt[Obj]],Obj]')
    w.refclass('Als', {}); w.ext_methods['Als.get'] = dict(params={'hint': 'str'}, returns='str')
    w.refclass('PEnv', {'type_rewrites': 'Map[Tuple[Obj,bool],Opt[RSet]]', 'is_explain': 'bool', 'aliases': 'Als', 'external_rvars': 'Map[Tuple[PId,Obj],Obj]'})
    w.refclass('PCtx', {'env': 'PEnv', 'trigger_mode': 'bool', 'pending_type_rewrite_ctes': 'Set[Tuple[Obj,bool]]', 'type_rewrite_ctes': 'CTED', 'ordered_type_ctes': 'Seq[Obj]',
                        'rel': 'Obj', 'pending_query': 'Obj', 'rel_overlays': 'Obj'})
    w.ufunc('RWOF', ['Obj'], 'Opt[RSet]'); w.ufunc('OVER', ['Obj'], 'Obj'); w.ufunc('INCL', ['Obj'], 'Obj')
    w.opaque_exprs['pgce.PathAspect.SOURCE'] = 'Obj'
    w.trusted.append('relctx (assumed contracts of code outside reach): dispatch.visit(ir_set, ctx) compiles ir_set into ctx.rel and keeps the CTE-cache invariant; CommonTableExpr(query=q) '
                     'stands for q; rvar_for_rel(rel) ranges over rel; include_rvar(rel, rvar) puts rvar into rel; newrel() / subrel() give a fresh level sharing env and the CTE cache, '
                     'with its own copy of the pending set')
    w.alias('DK', 'Opt[Obj]')
    CINV7 = lambda c: ('forall(Obj, bool, DK, lambda ti, inc, dk: implies((ti, inc, dk) in %s.type_rewrite_ctes and (ti, inc) in %s.env.type_rewrites '
                       'and not is_none(%s.env.type_rewrites[(ti, inc)]), RWOF(%s.type_rewrite_ctes[(ti, inc, dk)]) == %s.env.type_rewrites[(ti, inc)]))' % (c, c, c, c, c))
    LEVEL = ['not old(allocated(result))', 'result.env == self.env', 'result.type_rewrite_ctes == self.type_rewrite_ctes', 'result.trigger_mode == self.trigger_mode',
             'result.pending_type_rewrite_ctes == self.pending_type_rewrite_ctes', 'not old(allocated(result.rel))']
    X7 = {'_needs_cte': dict(params={'t': 'TRf'}, returns='bool'),
          'irast.Set': dict(params={'path_id': 'Obj', 'typeref': 'TRf', 'expr': 'Obj'}, returns='RSet', modifies=['$alloc'], ensures=['not old(allocated(result))']),
          'irast.PathId.from_typeref': dict(params={'t': 'TRf', 'namespace': 'Set[str]'}, returns='Obj'),
          'irast.TypeRoot': dict(params={'typeref': 'TRf'}, returns='Obj'),
          'context.RelOverlays': dict(params={}, returns='Obj'),
          # the rewrite is compiled under a level whose pending set is the enclosing one plus exactly this key (so that only rewrites actually being compiled are skipped inside)
          'dispatch.visit': dict(params={'ir': 'RSet', 'ctx': 'PCtx'}, returns='none', requires=[CINV7('ctx'), 'ctx.pending_type_rewrite_ctes == set_add(K_pend, K_key)'],
                                 bind={'K_pend': 'ctx.pending_type_rewrite_ctes', 'K_key': 'rw_key'},
                                 modifies=['CTED.m', 'PCtx.ordered_type_ctes', '$alloc'], ensures=[CINV7('ctx'), 'RWOF(ctx.rel) == ir']),
          'pgast.CommonTableExpr': dict(params={'name': 'str', 'query': 'Obj', 'materialized': 'bool'}, returns='Obj', modifies=['$alloc'],
                                        ensures=['not old(allocated(result))', 'RWOF(result) == RWOF(query)']),
          'rvar_for_rel': dict(params={'rel': 'Obj', 'typeref': 'TRf', 'alias': 'str', 'lateral': 'bool', 'ctx': 'PCtx'}, optional=('alias', 'lateral'), returns='Obj', modifies=['$alloc'],
                               ensures=['OVER(result) == rel']),
          'pathctx.put_path_id_map': dict(params={'rel': 'Obj', 'a': 'Obj', 'b': 'Obj'}, returns='none'),
          'include_rvar': dict(params={'rel': 'Obj', 'rvar': 'Obj', 'path_id': 'Obj', 'pull_namespace': 'bool', 'ctx': 'PCtx'}, returns='none', ensures=['INCL(rel) == rvar']),
          '_get_typeref_descendants': dict(params={'t': 'TRf', 'include_descendants': 'bool', 'for_mutation': 'bool'}, returns='Seq[TRf]'),
          'get_type_rel_overlays': dict(params={'t': 'TRf', 'dml_source': 'Seq[Obj]', 'ctx': 'PCtx'}, returns='Seq[Obj]')}
    w.ext_methods['PCtx.newrel'] = dict(params={}, returns='PCtx', context_manager=True, modifies=['$alloc'], ensures=LEVEL)
    w.ext_methods['PCtx.subrel'] = dict(params={}, returns='PCtx', context_manager=True, modifies=['$alloc'], ensures=LEVEL)
    TT = '(typeref if is_global else typeref.real_material_type)'
    MUST = ('(not ignore_rewrites or is_global) and not for_mutation and (%s.id, include_descendants) in ctx.env.type_rewrites and not is_none(ctx.env.type_rewrites[(%s.id, include_descendants)]) '
            'and (%s.id, include_descendants) not in ctx.pending_type_rewrite_ctes' % (TT, TT, TT))
    w.contract(REL, 'range_for_material_objtype',
        params={'typeref': 'TRf', 'path_id': 'PId', 'for_mutation': 'bool', 'lateral': 'bool', 'include_overlays': 'bool', 'include_descendants': 'bool', 'ignore_rewrites': 'bool',
                'is_global': 'bool', 'dml_source': 'Seq[Obj]', 'ctx': 'PCtx'}, returns='Obj',
        ghost={'g_base': 'Obj'}, requires=[CINV7('ctx')],
        modifies=['CTED.m', 'PCtx.ordered_type_ctes', 'PCtx.pending_type_rewrite_ctes', 'PCtx.pending_query', 'PCtx.rel_overlays', '$alloc'],
        ensures=[CINV7('ctx'),
                 'implies(%s, RWOF(OVER(INCL(OVER(g_base)))) == ctx.env.type_rewrites[(%s.id, include_descendants)])' % (MUST, TT)],
        raises={'ValueError': {}, 'AssertionError': {}},
        ghost_after={'overlays = get_type_rel_overlays(typeref, dml_source=dml_source, ctx=ctx)': [('g_base', 'rvar')]},
        abstract={'dml_source_key = frozenset(dml_source) if ctx.trigger_mode and dml_source else None': dict(assigns={'dml_source_key': 'Opt[Obj]'}, modifies=[]),     # (the frozenset, kept opaque)
                  "if ctx.env.is_explain or len(typeref_descendants) <= 1:": dict(assigns={'rvar': 'Obj'}, modifies=['$alloc']),
                  'if overlays and include_overlays:': dict(assigns={'rvar': 'Obj'}, modifies=['$alloc'])},
        hints={'ghost_out': ['g_base'], 'ext_funcs': X7})

    # F7b  the same function where no rewrite applies (view `raw`: ignore_rewrites, not a global): the range variable ranges over the tables of exactly
    #      _get_typeref_descendants(type, include_descendants, for_mutation) -- a read that skips subtypes never picks up the shared inheritance CTE, which holds the type
    #      AND all its descendants (cache invariant: the CTE filed under a type id ranges over all descendants of that type).  TY(x) = the types a relation / range variable
    #      ranges over (write-once history predicate, like RWOF).
    w.ufunc('TY', ['Obj'], 'Seq[TRf]'); w.ufunc('DESC', ['TRf', 'bool', 'bool'], 'Seq[TRf]'); w.ufunc('ALLD', ['Obj'], 'Seq[TRf]')
    w.refdict('ICTED', 'Map[Obj,Obj]'); w.classes['PCtx']['type_inheritance_ctes'] = 'ICTED'
    w.trusted.append('relctx raw branch (assumed contracts): _selects_for_typeref_descendants gives one select per listed type; the UNION built from them, a CTE over it, a range variable over that '
                     'and a sub-relation including that range over exactly those types; _get_typeref_descendants(t, inc, mut) is [t] unless (inc and not mut), and then all descendants of t')
    ICINV = lambda c: 'forall(Obj, lambda ti: implies(ti in %s.type_inheritance_ctes, TY(%s.type_inheritance_ctes[ti]) == ALLD(ti)))' % (c, c)
    XR7 = dict(X7)
    XR7.update({
        '_get_typeref_descendants': dict(params={'t': 'TRf', 'include_descendants': 'bool', 'for_mutation': 'bool'}, returns='Seq[TRf]', returns_expr='DESC(t, include_descendants, for_mutation)',
                                         ensures=['implies(not (include_descendants and not for_mutation), len(result) == 1)', 'implies(include_descendants and not for_mutation, result == ALLD(t.id))']),
        '_selects_for_typeref_descendants': dict(params={'descs': 'Seq[TRf]', 'path_id': 'Obj', 'ctx': 'PCtx'}, returns='Obj', modifies=['$alloc'], ensures=['TY(result) == descs']),
        'range_from_queryset': dict(params={'ops': 'Obj', 'name': 'Obj', 'lateral': 'bool', 'path_id': 'Obj', 'typeref': 'TRf', 'tag': 'str', 'ctx': 'PCtx'}, returns='Obj', modifies=['$alloc'],
                                    ensures=['TY(result) == TY(ops)']),
        'pgast.CommonTableExpr': dict(params={'name': 'str', 'query': 'Obj', 'materialized': 'bool'}, returns='Obj', modifies=['$alloc'], ensures=['not old(allocated(result))', 'TY(result) == TY(query)']),
        'rvar_for_rel': dict(params={'rel': 'Obj', 'typeref': 'TRf', 'alias': 'str', 'lateral': 'bool', 'ctx': 'PCtx'}, optional=('alias', 'lateral'), returns='Obj', modifies=['$alloc'],
                             ensures=['TY(result) == TY(rel)']),
        'include_rvar': dict(params={'rel': 'Obj', 'rvar': 'Obj', 'path_id': 'Obj', 'pull_namespace': 'bool', 'ctx': 'PCtx'}, returns='none', ensures=['TY(rel) == TY(rvar)']),
        'irast.PathId.from_typeref': dict(params={'t': 'TRf', 'namespace': 'Set[str]'}, returns='Obj')})
    w.contract(REL, 'range_for_material_objtype', view='raw',
        params={'typeref': 'TRf', 'path_id': 'PId', 'for_mutation': 'bool', 'lateral': 'bool', 'include_overlays': 'bool', 'include_descendants': 'bool', 'ignore_rewrites': 'bool',
                'is_global': 'bool', 'dml_source': 'Seq[Obj]', 'ctx': 'PCtx'}, returns='Obj',
        ghost={'g_base': 'Obj'}, requires=['ignore_rewrites and not is_global', ICINV('ctx')],
        modifies=['ICTED.m', 'PCtx.ordered_type_ctes', '$alloc'],
        ensures=[ICINV('ctx'), 'TY(g_base) == DESC(typeref.real_material_type, include_descendants, for_mutation)'],
        raises={'ValueError': {}, 'AssertionError': {}},
        ghost_after={'overlays = get_type_rel_overlays(typeref, dml_source=dml_source, ctx=ctx)': [('g_base', 'rvar')]},
        abstract={'dml_source_key = frozenset(dml_source) if ctx.trigger_mode and dml_source else None': dict(assigns={'dml_source_key': 'Opt[Obj]'}, modifies=[]),
                  'ops = [(context.OverlayOp.UNION, select) for select in inheritance_selects]': dict(assigns={'ops': 'Obj'}, ensures=['TY(ops) == TY(inheritance_selects)']),
                  'type_qry: pgast.SelectStmt = inheritance_selects[0]': dict(assigns={'type_qry': 'Obj'}),
                  'for rarg in inheritance_selects[1:]:': dict(assigns={'type_qry': 'Obj'}, modifies=['$alloc'], ensures=['TY(type_qry) == TY(inheritance_selects)']),
                  'if overlays and include_overlays:': dict(assigns={'rvar': 'Obj'}, modifies=['$alloc'])},
        hints={'ghost_out': ['g_base'], 'ext_funcs': XR7})

    # F8  setgen.new_set -- "absolutely all ir.Set instances must be created using this constructor": when it returns a set over an object type that does not say
    #     ignore_rewrites (and query rewrites are on), the key (type, skip_subtypes) is registered in the environment's table of rewrites (by try_type_rewrite now, or earlier);
    #     and the set says ignore_rewrites only if the caller asked for it or should_ignore_rewrite said so while access policies are being compiled.
    #     `**kwargs` is modelled as a keyword bag with the one key the function looks at (other keywords are handed to the IR class untouched: not modelled).
    SG = 'edb/edgeql/compiler/setgen.py'
    w.refclass('ISet', {'ignore_rewrites': 'bool', 'typeref': 'Obj', 'expr': 'Obj'}); w.refclass('IrCls', {})
    w.ufunc('SIR', ['TypeT', 'Ctx'], 'bool'); w.classes['Obj']['skip_subtypes'] = 'bool'
    w.classes['Ctx']['suppress_rewrites'] = 'Set[TypeT]'; w.classes['Opts']['apply_query_rewrites'] = 'bool'; w.classes['Env']['set_types'] = 'Map[ISet,TypeT]'
    w.trusted.append('setgen.new_set: the IR class called with (typeref, expr, **kwargs) builds a fresh set whose ignore_rewrites is the keyword of that name (default False); '
                     'keywords other than ignore_rewrites are not modelled')
    def _ircls_call(ex, recv, args, kwargs, node):
        from pyvc.engine import V
        from pyvc.vtypes import TBool
        import z3
        r = ex.alloc(w.ty('ISet'))
        ig = kwargs.get('ignore_rewrites')
        ex.heap_write(r, 'ignore_rewrites', ex.val(ig) if ig is not None else V(TBool, z3.BoolVal(False)))
        ex.heap_write(r, 'typeref', ex.val(kwargs['typeref'])); ex.heap_write(r, 'expr', ex.val(kwargs['expr']))
        return r
    w.py_methods[('IrCls', '__call__')] = _ircls_call
    X8 = {'policies.should_ignore_rewrite': dict(params={'stype': 'TypeT', 'ctx': 'Ctx'}, returns='bool', returns_expr='SIR(stype, ctx)'),
          'typegen.type_to_typeref': dict(params={'stype': 'TypeT', 'env': 'Env'}, returns='Obj')}
    SKIP = '(isinstance(expr, irast.TypeRoot) and expr.skip_subtypes)'
    NS = dict(params={'stype': 'TypeT', 'expr': 'Obj', 'ctx': 'Ctx', 'ircls': 'IrCls'}, returns='ISet',
        modifies=['Env.type_rewrites', 'RWD.m', 'Env.set_types', '$alloc', 'Ctx.anchors', 'Ctx.partial_path_prefix', 'Ctx.path_scope', 'Ctx.expr_exposed', 'StmtT.where',
                  'ISet.ignore_rewrites', 'ISet.typeref', 'ISet.expr'],
        ensures=['implies(not result.ignore_rewrites and isinstance(stype, s_objtypes.ObjectType) and ctx.env.options.apply_query_rewrites, (stype, %s) in ctx.env.type_rewrites)' % SKIP,
                 'implies(result.ignore_rewrites, kwargs.get("ignore_rewrites", False) or (len(ctx.suppress_rewrites) > 0 and SIR(stype, ctx)))',
                 'implies(kwargs.get("ignore_rewrites", False), result.ignore_rewrites)',
                 'not old(allocated(result))', 'ctx.env.set_types[result] == stype'],
        raises={'QueryError': {}})
    HN = {'ext_funcs': X8, 'kwargs_bag': {'kwargs': {'ignore_rewrites': 'bool'}},
          }
    w.contract(SG, 'new_set', requires=['not ISCOMP(stype)'], hints=dict(HN), **NS)
    w.contract(SG, 'new_set', view='compound', requires=['ISCOMP(stype)', COMPS_PLAIN], hints=dict(HN, callee_views={'try_type_rewrite': 'compound'}), **NS)

    # F9  policies.should_ignore_rewrite: rewrites are only ever switched off while access policies are being compiled (ctx.suppress_rewrites non-empty), and then
    #     only for the types listed there and for object types outside the standard library
    w.classes['Obj']['module'] = 'Obj'; w.opaque_exprs['s_schema.STD_MODULES'] = 'Set[Obj]'
    w.ufunc('UQN', ['Obj'], 'Obj')
    w.ufunc('TNAME', ['TypeT', 'Obj'], 'Obj'); w.ext_methods['TypeT.get_name'] = dict(params={'schema': 'Obj'}, returns='Obj', returns_expr='TNAME(self, schema)')
    w.contract(POL, 'should_ignore_rewrite', params={'stype': 'TypeT', 'ctx': 'Ctx'}, returns='bool',
        ensures=['implies(result, len(ctx.suppress_rewrites) > 0)',
                 'implies(len(ctx.suppress_rewrites) > 0 and stype in ctx.suppress_rewrites, result)',
                 'implies(result and stype not in ctx.suppress_rewrites, isinstance(stype, s_objtypes.ObjectType))',
                 # types of the standard library keep their policies even inside a user policy: decided by the type's MODULE
                 'implies(result and stype not in ctx.suppress_rewrites, not (UQN(TNAME(stype, ctx.env.schema).module) in s_schema.STD_MODULES))'],
        hints={'ext_funcs': {'s_name.UnqualName': dict(params={'n': 'Obj'}, returns='Obj', returns_expr='UQN(n)')}})

    # F10  pgsql/compiler/pathctx.py has_type_rewrite / link_needs_type_rewrite (decides whether the `.id` shortcut through an inline link column may skip the join with the target):
    #      a link whose target's MATERIAL type has a rewrite in either flavour needs it
    PCX = 'edb/pgsql/compiler/pathctx.py'
    w.classes['TRf']['real_material_type'] = 'TRf'
    HASRW = '((typeref.real_material_type.id, True) in env.type_rewrites or (typeref.real_material_type.id, False) in env.type_rewrites)'
    w.contract(PCX, 'has_type_rewrite', params={'typeref': 'TRf', 'env': 'PEnv'}, returns='bool', ensures=['result == %s' % HASRW])
    w.ufunc('STR', ['Obj'], 'str'); w.ext_funcs['str'] = dict(params={'o': 'Obj'}, returns='str', returns_expr='STR(o)')
    w.classes['Obj']['name'] = 'str'      # (a qualified name's local part)
    # the one exemption is the type whose QUALIFIED name is schema::ObjectType (its hidden objects are not user visible); every other type with a rewrite needs it
    w.contract(PCX, 'link_needs_type_rewrite', params={'typeref': 'TRf', 'env': 'PEnv'}, returns='bool',
        ensures=['implies(result, %s)' % HASRW, 'implies(%s and STR(typeref.real_material_type.name_hint) != "schema::ObjectType", result)' % HASRW])
    return w

# ---------------------------------------------------------------------------------------------------------------------
# F3: the recursion guard `pending_type_rewrite_ctes` never leaks out of the compilation of a rewrite (whole-package AST obligations)
def extra_obligations(w, tier, seed):
    out = []
    def ob(oid, clause, ok, where, undecided=False):
        return dict(id=oid, kind='ownership', clause=clause, tag='property', paths=1, status='discharged' if ok else ('unknown' if undecided else 'failed'), backend='ast-scan', seconds=0.0,
                    model=None if ok else {'offending_source_location': where}, where=where, function='ast-scan')
    # (a) a NEWREL level gets its own copy of the set
    init, _ = repo.find_def(PGCTX, 'CompilerContextLevel.__init__')
    copies = []; newrel_branch = None
    for n in ast.walk(init):
        if isinstance(n, ast.If) and 'ContextSwitchMode.NEWREL' in ast.unparse(n.test) and 'SUBSTMT' not in ast.unparse(n.test):
            newrel_branch = n
    if newrel_branch is not None:
        for st in newrel_branch.body:
            if isinstance(st, ast.Assign) and ast.unparse(st.targets[0]) == 'self.pending_type_rewrite_ctes':
                copies.append(ast.unparse(st.value))
    ok = newrel_branch is not None and copies == ['set(prevlevel.pending_type_rewrite_ctes)']
    out.append(ob('scan/pending-rewrites/newrel-copies', 'CompilerContextLevel.__init__: a NEWREL level starts with its own copy set(prevlevel.pending_type_rewrite_ctes) '
                  '(what is pending while a rewrite is compiled does not leak into the enclosing levels)', ok,
                  '%s: NEWREL branch assigns %s' % (PGCTX, copies), undecided=(newrel_branch is None)))
    # (b) the set is only ever mutated on the context object bound by `with <ctx>.newrel() as X:` inside that block
    bad = []; sites = 0
    pkg = os.path.join(repo.REPO, 'edb/pgsql/compiler')
    for fn_ in sorted(os.listdir(pkg)):
        if not fn_.endswith('.py'): continue
        tree = ast.parse(open(os.path.join(pkg, fn_), encoding='utf-8').read())
        def walk(node, newrel_vars):
            nonlocal sites
            for ch in ast.iter_child_nodes(node):
                nv = newrel_vars
                if isinstance(ch, ast.With):
                    add = {it.optional_vars.id for it in ch.items if isinstance(it.context_expr, ast.Call) and isinstance(it.context_expr.func, ast.Attribute)
                           and it.context_expr.func.attr == 'newrel' and isinstance(it.optional_vars, ast.Name)}
                    nv = newrel_vars | add
                if isinstance(ch, ast.Call) and isinstance(ch.func, ast.Attribute) and ch.func.attr in ('add', 'update', 'discard', 'remove', 'clear', 'pop') \
                        and isinstance(ch.func.value, ast.Attribute) and ch.func.value.attr == 'pending_type_rewrite_ctes':
                    sites += 1
                    base = ch.func.value.value
                    if not (isinstance(base, ast.Name) and base.id in newrel_vars): bad.append('%s line %d' % (fn_, ch.lineno))
                if isinstance(ch, (ast.Assign, ast.AugAssign)) and fn_ != 'context.py':
                    tg = ch.targets if isinstance(ch, ast.Assign) else [ch.target]
                    if any(isinstance(t, ast.Attribute) and t.attr == 'pending_type_rewrite_ctes' for t in tg): bad.append('%s line %d (assignment)' % (fn_, ch.lineno))
                walk(ch, nv)
        walk(tree, frozenset())
    out.append(ob('scan/pending-rewrites/mutated-only-on-newrel-level', 'edb/pgsql/compiler: pending_type_rewrite_ctes is mutated only on the level object bound by `with <ctx>.newrel() as X:` (and assigned only in context.py)',
                  sites >= 1 and not bad, 'edb/pgsql/compiler: %s (mutation sites: %d)' % (bad, sites), undecided=(sites == 0)))
    # (c) the cache of compiled schema aliases is keyed by the security context, unconditionally (F6 proves what follows from that on the real body; this shape
    #     obligation gives a definite verdict when the key expression itself is rewritten into something outside the verifier's subset)
    fn, _ = repo.find_def('edb/edgeql/compiler/stmtctx.py', '_declare_view_from_schema')
    keys = [ast.unparse(n.value) for n in ast.walk(fn) if isinstance(n, ast.Assign) and len(n.targets) == 1 and ast.unparse(n.targets[0]) == 'key']
    uses = [ast.unparse(n) for n in ast.walk(fn) if isinstance(n, ast.Subscript) and ast.unparse(n.value).endswith('schema_view_cache')] + \
           [ast.unparse(n) for n in ast.walk(fn) if isinstance(n, ast.Call) and ast.unparse(n.func).endswith('schema_view_cache.get')]
    ok = keys == ['(viewcls, ctx.get_security_context())'] and bool(uses) and all(u.endswith('[key]') or u.endswith('get(key)') for u in uses)
    out.append(ob('scan/schema-view-cache/keyed-by-security-context', '_declare_view_from_schema: the alias cache is read and written under key = (viewcls, ctx.get_security_context())', ok,
                  'stmtctx.py:_declare_view_from_schema: key = %s; cache accesses %s' % (keys, uses), undecided=(not keys)))
    # (d) union / intersection types: the loop that compiles the components' rewrites visits every component (F5c proves that then all of them are registered;
    #     a loop that can be left early makes that proof time out instead of failing -- this obligation gives the definite verdict)
    fn, _ = repo.find_def('edb/edgeql/compiler/policies.py', 'try_type_rewrite')
    loops_ = [n for n in ast.walk(fn) if isinstance(n, ast.For) and ast.unparse(n.iter) == 'objs']
    early = [type(x).__name__ for l in loops_ for x in ast.walk(l) if isinstance(x, (ast.Break, ast.Return, ast.Continue))]
    out.append(ob('scan/try_type_rewrite/compound-visits-every-component', 'try_type_rewrite: the loop over the components of a union / intersection type has no break / continue / return',
                  len(loops_) == 1 and not early, 'policies.py:try_type_rewrite: loops over objs: %d, early exits: %s' % (len(loops_), early), undecided=(len(loops_) != 1)))
    # (e) F7's clause is conditional on the flags the callers pass.  Inventory over edb/pgsql/compiler: `ignore_rewrites` is, at every call of a range-variable builder,
    #     absent (= False), the caller's own parameter, or the IR set's own flag -- and literally True only in compile_trigger (a range driven by overlays only);
    #     `for_mutation` is literally True only in gen_dml_cte (the DML target itself, guarded by the write policies), otherwise absent or handed on.
    pkg = os.path.join(repo.REPO, 'edb/pgsql/compiler')
    bad = []; seen_calls = 0
    BUILDERS = ('range_for_material_objtype', 'range_for_typeref', 'new_primitive_rvar', 'new_root_rvar')
    for fn_ in sorted(os.listdir(pkg)):
        if not fn_.endswith('.py'): continue
        tree = ast.parse(open(os.path.join(pkg, fn_), encoding='utf-8').read())
        funcs = [n for n in ast.walk(tree) if isinstance(n, (ast.FunctionDef, ast.AsyncFunctionDef))]
        for n in ast.walk(tree):
            if isinstance(n, ast.Call) and ast.unparse(n.func).split('.')[-1] in BUILDERS:
                seen_calls += 1
                own = [f for f in funcs if f.lineno <= n.lineno <= (f.end_lineno or f.lineno)]
                owner = max(own, key=lambda f: f.lineno).name if own else None
                if any(k.arg is None for k in n.keywords): bad.append('%s:%d (%s): **kwargs' % (fn_, n.lineno, owner))
                kw = {k.arg: ast.unparse(k.value) for k in n.keywords if k.arg}
                ig = kw.get('ignore_rewrites'); fm = kw.get('for_mutation')
                if not (ig is None or ig in ('ignore_rewrites', 'ir_set.ignore_rewrites') or (ig == 'True' and (fn_, owner) == ('dml.py', 'compile_trigger'))):
                    bad.append('%s:%d (%s): ignore_rewrites=%s' % (fn_, n.lineno, owner, ig))
                if not (fm is None or fm == 'for_mutation' or (fm == 'True' and (fn_, owner) == ('dml.py', 'gen_dml_cte'))):
                    bad.append('%s:%d (%s): for_mutation=%s' % (fn_, n.lineno, owner, fm))
                if len(n.args) > 2: bad.append('%s:%d (%s): flags passed positionally' % (fn_, n.lineno, owner))
    out.append(ob('scan/range-builders/rewrite-flags', 'edb/pgsql/compiler: every call of range_for_material_objtype / range_for_typeref / new_primitive_rvar / new_root_rvar passes ignore_rewrites '
                  'as absent, its own parameter or the IR set flag (True only in dml.compile_trigger) and for_mutation as absent or its own parameter (True only in dml.gen_dml_cte)',
                  seen_calls >= 5 and not bad, '; '.join(bad[:5]) or '%d call sites' % seen_calls, undecided=(seen_calls < 5)))
    return out
