"""C04 sidecar contracts (fragment): the index maintenance of edb/schema/schema.py FlatSchema.

Abstract view of a FlatSchema s:   data(s) = s._id_to_data (field tuples by id),   type(s) = s._id_to_type,
RV(s)  = { (t, c, f, r) : r is recorded in s._refs_to[t][(c, f)] }      -- the reverse reference index.
Class metadata (metaclass machinery, outside reach) is abstracted by uninterpreted functions of the class:
cls_fields(c): name -> Field,  cls_objref(c) / cls_red(c): sets of Fields,  refs_of(field type, stored value): set of ids.

Decided here for all schemas, classes, field tuples:
  R1  _update_refs_to computes exactly  RV' = RV  with, for the given object and each of its object-reference fields f,
      the targets ORIG(f) \\ NEW(f) removed and NEW(f) \\ ORIG(f) added -- nothing else changes (whole-view postcondition);
  R2  update_obj / set_obj_field / unset_obj_field / add_raw / _delete hand _update_refs_to exactly the old and new reference
      sets of the fields they change, so that the representation invariant
          RI(s):  (t, c, f, r) in RV(s)  <=>  r in data(s), class(r) = c, f an object-reference field of c, t in refs_of(f, data(s)[r][f])
      is preserved (a field reset to None removes its reverse entries; a dropped object is the referrer of nothing);
  R3  persistence: every mutator only writes the fields of the FlatSchema object it creates (_replace); the receiver is unchanged.
Name indexes (_update_obj_name) and the delta layer (DeleteObject, RenameObject ...) are not covered.
"""
import ast, os
from pyvc.engine import World
from pyvc import repo

SCH = 'edb/schema/schema.py'

def conj(cs): return ' and '.join('(%s)' % c for c in cs)

def build_chained(w):
    """ChainedSchema (std schema / user schema / global schema stacked): a referrer lookup on the stack is the union of the lookups on its three layers.
       R4  ChainedSchema.get_referrers    == base | top | global
       R5  ChainedSchema.get_referrers_ex == the key-wise union over ALL keys of the three layers"""
    w.refclass('Layer', {}); w.refclass('CSch', {'_base_schema': 'Layer', '_top_schema': 'Layer', '_global_schema': 'Layer'}, SCH, 'ChainedSchema')
    w.refclass('Ty', {}, universal=True)
    w.ufunc('REFS', ['Layer', 'Obj', 'Opt[Ty]', 'Opt[str]'], 'Set[Obj]'); w.ufunc('REFX', ['Layer', 'Obj', 'Opt[Ty]'], 'Map[Tuple[Ty,str],Set[Obj]]')
    w.trusted.append('the referrer lookups of a single layer (FlatSchema.get_referrers / get_referrers_ex) are functions of (layer, object, type filter, field filter)')
    w.ext_methods['Layer.get_referrers'] = dict(params={'scls': 'Obj', 'scls_type': 'Opt[Ty]', 'field_name': 'Opt[str]'}, returns='Set[Obj]', returns_expr='REFS(self, scls, scls_type, field_name)')
    w.ext_methods['Layer.get_referrers_ex'] = dict(params={'scls': 'Obj', 'scls_type': 'Opt[Ty]'}, returns='Map[Tuple[Ty,str],Set[Obj]]', returns_expr='REFX(self, scls, scls_type)')
    L = ('self._base_schema', 'self._top_schema', 'self._global_schema')
    w.contract(SCH, 'ChainedSchema.get_referrers', params={'self': 'CSch', 'scls': 'Obj', 'scls_type': 'Opt[Ty]', 'field_name': 'Opt[str]'}, returns='Set[Obj]',
        ensures=['forall(Obj, lambda r: (r in result) == (%s))' % ' or '.join('r in REFS(%s, scls, scls_type, field_name)' % l for l in L)])
    X = lambda l: 'REFX(%s, scls, scls_type)' % l
    w.contract(SCH, 'ChainedSchema.get_referrers_ex', params={'self': 'CSch', 'scls': 'Obj', 'scls_type': 'Opt[Ty]'}, returns='Map[Tuple[Ty,str],Set[Obj]]',
        ensures=['forall(Ty, str, lambda c, f: ((c, f) in result) == (%s))' % ' or '.join('(c, f) in %s' % X(l) for l in L),
                 'forall(Ty, str, Obj, lambda c, f, r: implies((c, f) in result, (r in result[(c, f)]) == (%s)))' % ' or '.join('((c, f) in %s and r in %s[(c, f)])' % (X(l), X(l)) for l in L)])

    # R6  persistence and routing of the stack's mutators: every mutator returns a NEW ChainedSchema and writes no field of an existing one (earlier versions stay frozen:
    #     stated for `self` and for one arbitrary other stack `g_other` that existed before); the std layer (_base_schema) is handed on unchanged, never written to;
    #     a global object's change goes to the global layer only, any other change to the top layer only (the other layer is handed on by identity).
    w.refclass('CObj', {'id': 'Obj', 'is_global_object': 'bool'}, universal=True); w.ufunc('ISGLOB', ['Ty'], 'bool')
    w.ufunc('TYPEOF', ['CObj'], 'Ty')
    XI = {'issubclass': dict(params={'c': 'Ty', 'base': 'Obj'}, returns='bool', returns_expr='ISGLOB(c)'), 'type': dict(params={'o': 'CObj'}, returns='Ty', returns_expr='TYPEOF(o)')}
    w.classes['Layer']['_id_to_data'] = 'Map[Obj,Obj]'
    w.contract(SCH, 'ChainedSchema.__init__', params={'self': 'CSch', 'base_schema': 'Layer', 'top_schema': 'Layer', 'global_schema': 'Layer'}, returns='none', inline=True)
    OPS = {'add_raw': ({'id': 'Obj', 'sclass': 'Ty', 'data': 'Obj'}, 'ISGLOB(sclass)'),
           'add': ({'id': 'Obj', 'sclass': 'Ty', 'data': 'Obj'}, 'ISGLOB(sclass)'),
           'discard': ({'obj': 'CObj'}, 'isinstance(obj, so.GlobalObject)'), 'delete': ({'obj': 'CObj'}, 'isinstance(obj, so.GlobalObject)'),
           'set_obj_field': ({'obj': 'CObj', 'fieldname': 'str', 'value': 'Obj'}, 'isinstance(obj, so.GlobalObject)'),
           'unset_obj_field': ({'obj': 'CObj', 'field': 'str'}, 'isinstance(obj, so.GlobalObject)'),
           'update_obj': ({'obj': 'CObj', 'updates': 'Obj'}, 'isinstance(obj, so.GlobalObject)'),
           'delist': ({'name': 'Obj'}, 'False')}
    FROZEN = lambda o: ' and '.join('%s.%s == old(%s.%s)' % (o, f, o, f) for f in ('_base_schema', '_top_schema', '_global_schema'))
    for op, (ps, isglob) in OPS.items():
        args = ', '.join(ps)
        w.ufunc('L_' + op, ['Layer'] + list(ps.values()), 'Layer')
        w.ext_methods['Layer.' + op] = dict(params=dict(ps), returns='Layer', returns_expr='L_%s(self, %s)' % (op, args), raises={'SchemaError': {}})
        top_after = 'L_%s(self._top_schema, %s)' % (op, args)
        extra = []
        if op == 'update_obj':      # copy-on-write from the std layer: the object's data is first copied into the top layer when only the std layer has it
            COW = 'not is_none(BYID(self._base_schema, obj.id)) and not HAS(self._top_schema, obj.id)'
            extra = ['implies(not (%s) and not (%s), result._top_schema == L_update_obj(self._top_schema, obj, updates))' % (isglob, COW),
                     'implies(not (%s) and (%s), result._top_schema == L_update_obj(L_add_raw(self._top_schema, obj.id, TYPEOF(some(BYID(self._base_schema, obj.id))), '
                     'self._base_schema._id_to_data[obj.id]), obj, updates))' % (isglob, COW)]
        w.contract(SCH, 'ChainedSchema.' + op, params=dict({'self': 'CSch'}, **ps), returns='CSch', ghost={'g_other': 'CSch'},
            # type invariant of schema objects (class attribute set in Object / GlobalObject only -- AST obligation scan/is_global_object): the two ways of asking agree
            requires=(['obj.is_global_object == isinstance(obj, so.GlobalObject)'] if 'obj' in ps else []),
            modifies=['$alloc', 'CSch._base_schema', 'CSch._top_schema', 'CSch._global_schema'],
            ensures=['not old(allocated(result))', FROZEN('self'), FROZEN('g_other'),
                     'result._base_schema == self._base_schema',
                     'implies(%s, result._top_schema == self._top_schema and result._global_schema == L_%s(self._global_schema, %s))' % (isglob, op, args),
                     'implies(not (%s), result._global_schema == self._global_schema)' % isglob] +
                    (['implies(not (%s), result._top_schema == (%s))' % (isglob, top_after)] if op != 'update_obj' else extra),
            raises={'SchemaError': dict(ensures=[FROZEN('self'), FROZEN('g_other')]), 'KeyError': dict(ensures=[FROZEN('self'), FROZEN('g_other')])},
            hints={'ext_funcs': XI})
    w.ufunc('BYID', ['Layer', 'Obj'], 'Opt[CObj]'); w.ufunc('HAS', ['Layer', 'Obj'], 'bool')
    w.ext_methods['Layer.get_by_id'] = dict(params={'id': 'Obj', 'default': 'none'}, returns='Opt[CObj]', returns_expr='BYID(self, id)')
    w.ext_methods['Layer.has_object'] = dict(params={'id': 'Obj'}, returns='bool', returns_expr='HAS(self, id)')

    # R7  lookups on the stack: an object is found iff some layer has it, the top layer shadows the std layer (copy-on-write of update_obj relies on it), global objects live in
    #     the global layer; has_object agrees with get_by_id given the per-layer agreement HAS(l, id) == (BYIDT(l, id, None) is not None) (assumed of FlatSchema)
    w.ufunc('BYIDT', ['Layer', 'Obj', 'Opt[Ty]'], 'Opt[CObj]'); w.ufunc('GLOBT', ['Layer', 'Ty', 'Obj'], 'Opt[CObj]')
    XL = {'Layer.get_by_id': dict(params={'id': 'Obj', 'type': 'Opt[Ty]', 'default': 'Opt[CObj]'}, returns='Opt[CObj]',
                                  ensures=['result == (BYIDT(self, id, type) if not is_none(BYIDT(self, id, type)) else default)'], raises={'InvalidReferenceError': dict(ensures=['is_none(BYIDT(self, id, type))'])}),
          'Layer.get_global': dict(params={'objtype': 'Ty', 'name': 'Obj', 'default': 'Opt[CObj]'}, returns='Opt[CObj]',
                                   ensures=['result == (GLOBT(self, objtype, name) if not is_none(GLOBT(self, objtype, name)) else default)'], raises={'InvalidReferenceError': {}})}
    XL.update(XI); w.ext_methods['Layer.get_global'] = XL['Layer.get_global']
    B = lambda l: 'BYIDT(self.%s, obj_id, type)' % l
    w.contract(SCH, 'ChainedSchema._get_by_id', params={'self': 'CSch', 'obj_id': 'Obj', 'default': 'Opt[CObj]', 'type': 'Opt[Ty]'}, returns='Opt[CObj]',
        ensures=['implies(not is_none(%s), result == %s)' % (B('_top_schema'), B('_top_schema')),
                 'implies(is_none(%s) and not is_none(%s), result == %s)' % (B('_top_schema'), B('_base_schema'), B('_base_schema')),
                 'implies(is_none(%s) and is_none(%s) and not is_none(%s), result == %s)' % (B('_top_schema'), B('_base_schema'), B('_global_schema'), B('_global_schema')),
                 'implies(is_none(%s) and is_none(%s) and is_none(%s), result == default)' % (B('_top_schema'), B('_base_schema'), B('_global_schema'))],
        raises={'InvalidReferenceError': {}}, hints={'ext_funcs': XL})
    w.contract(SCH, 'ChainedSchema.has_object', params={'self': 'CSch', 'object_id': 'Obj'}, returns='bool',
        ensures=['result == (HAS(self._base_schema, object_id) or HAS(self._top_schema, object_id) or HAS(self._global_schema, object_id))'])
    G = lambda l: 'GLOBT(self.%s, objtype, name)' % l
    w.contract(SCH, 'ChainedSchema._get_global', params={'self': 'CSch', 'objtype': 'Ty', 'name': 'Obj', 'default': 'Opt[CObj]'}, returns='Opt[CObj]',
        ensures=['implies(ISGLOB(objtype), result == (%s if not is_none(%s) else default))' % (G('_global_schema'), G('_global_schema')),
                 'implies(not ISGLOB(objtype) and not is_none(%s), result == %s)' % (G('_top_schema'), G('_top_schema')),
                 'implies(not ISGLOB(objtype) and is_none(%s), result == (%s if not is_none(%s) else default))' % (G('_top_schema'), G('_base_schema'), G('_base_schema'))],
        raises={'InvalidReferenceError': {}}, hints={'ext_funcs': XL})

def build_index(w):
    """R8  the owner-side indexes of referenced objects (ObjectIndexBase: `pointers`, `annotations`, `constraints`, ... of an object; keys are CACHED).
       KI(c, k, schema): the cached key of every member is the key function applied to the member as it is in `schema` (so a lookup by the member's current name finds it).
         - ObjectIndexBase.create: the index it returns satisfies KI -- provided an index handed in as `data` (whose cached keys are reused) satisfies it already
           (a precondition proved at call sites); two views of the same body: data an object collection / data a plain sequence of objects
         - ObjectIndexBase.keys: fills in the cache consistently;  ObjectCollection.objects: the members, in order
         - Object.refresh_classref (the hook a rename of an owned child calls): the collection stored back has its keys RECOMPUTED from the members' names in `schema`"""
    OBJS = 'edb/schema/objects.py'
    w.any('Key'); w.any('Uid')
    w.refclass('Sch', {}); w.refclass('IObj', {'id': 'Opt[Uid]'}, universal=True)
    w.refclass('KFn', {}); w.refclass('ICls', {'_key': 'KFn', 'type': 'Obj'}, universal=True)
    w.refclass('Coll', {'_ids': 'Seq[Uid]', '_keys': 'Opt[Seq[Key]]'}, universal=True)
    w.ufunc('OBJ', ['Sch', 'Uid'], 'IObj'); w.ufunc('KEY', ['KFn', 'Sch', 'IObj'], 'Key'); w.ufunc('CLSOF', ['Coll'], 'ICls')
    w.trusted.append('object indexes: the key function of an index class is a function of (schema, object); schema.get_by_id is a function of (schema, id) and get_by_id(x.id) is x for a member x; '
                     'super().create(schema, data, _keys=keys) builds an instance over the ids of data with the given keys (assumed block in ObjectIndexBase.create)')
    w.ext_methods['KFn.__call__'] = dict(params={'schema': 'Sch', 'o': 'IObj'}, returns='Key', returns_expr='KEY(self, schema, o)')
    w.ext_methods['Sch.get_by_id'] = dict(params={'id': 'Uid'}, returns='IObj', returns_expr='OBJ(self, id)')
    w.define('KI(c, k, schema)', 'is_none(c._keys) or (len(some(c._keys)) == len(c._ids) and forall(0, len(c._ids), lambda j: some(c._keys)[j] == KEY(k, schema, OBJ(schema, c._ids[j]))))')
    w.define('KIS(c, k, schema)', 'not is_none(c._keys) and len(some(c._keys)) == len(c._ids) and forall(0, len(c._ids), lambda j: some(c._keys)[j] == KEY(k, schema, OBJ(schema, c._ids[j])))')
    XT = {'type': dict(params={'o': 'Coll'}, returns='ICls', returns_expr='CLSOF(o)')}
    FRAME = 'forall(Coll, lambda o: implies(old(allocated(o)), o._ids == old(o._ids) and o._keys == old(o._keys)))'      # existing collections are immutable values: nothing that existed before is written
    OBJS_ENS = ['len(result) == len(self._ids)', 'forall(0, len(result), lambda j: result[j] == OBJ(schema, self._ids[j]))']
    w.contract(OBJS, 'ObjectCollection.objects', params={'self': 'Coll', 'schema': 'Sch'}, returns='Seq[IObj]', ensures=OBJS_ENS)
    # calls through a collection VALUE (`data.objects(schema)`) are resolved by name to the contract verified just above (same clauses)
    w.ext_methods['Coll.objects'] = dict(params={'schema': 'Sch'}, returns='Seq[IObj]', ensures=OBJS_ENS)
    w.contract(OBJS, 'ObjectIndexBase.keys', params={'self': 'Coll', 'schema': 'Sch'}, returns='Seq[Key]', requires=['KI(self, CLSOF(self)._key, schema)'], modifies=['Coll._keys'],
        ensures=['KIS(self, CLSOF(self)._key, schema)', 'result == some(self._keys)', 'self._ids == old(self._ids)', 'implies(not is_none(old(self._keys)), self._keys == old(self._keys))'],
        hints={'ext_funcs': XT})
    # lookups through the index: by the member's key in `schema` (given KI: by its current name)
    KEYJ = 'KEY(CLSOF(self)._key, schema, OBJ(schema, self._ids[%s]))'
    w.ext_methods['Coll.keys'] = dict(params={'schema': 'Sch'}, returns='Seq[Key]', requires=['KI(self, CLSOF(self)._key, schema)'], modifies=['Coll._keys'],
                                      ensures=['KIS(self, CLSOF(self)._key, schema)', 'result == some(self._keys)', 'self._ids == old(self._ids)'])      # (clauses of the verified ObjectIndexBase.keys)
    w.contract(OBJS, 'ObjectIndexBase.items', params={'self': 'Coll', 'schema': 'Sch'}, returns='Seq[Tuple[Key,IObj]]', requires=['KI(self, CLSOF(self)._key, schema)'], modifies=['Coll._keys'],
        ensures=['len(result) == len(self._ids)', 'forall(0, len(result), lambda j: result[j][0] == %s and result[j][1] == OBJ(schema, self._ids[j]))' % (KEYJ % 'j')],
        loops={0: dict(fingerprint='for (key, item_id) in zip(self.keys(schema), self._ids)', index='i', seq='its', invariant=[
               'len(result) == i', 'KIS(self, CLSOF(self)._key, schema)', 'self._ids == old(self._ids)',
               'forall(0, i, lambda j: result[j][0] == %s and result[j][1] == OBJ(schema, self._ids[j]))' % (KEYJ % 'j')])},
        hints={'var_types': {'result': 'Seq[Tuple[Key,IObj]]'}, 'ext_funcs': XT})
    w.opaque_exprs['NoDefault'] = 'IObj'      # the `no default given` sentinel: one fixed object
    w.contract(OBJS, 'ObjectIndexBase.get', params={'self': 'Coll', 'schema': 'Sch', 'name': 'Key', 'default': 'Opt[IObj]'}, returns='Opt[IObj]',
        requires=['KI(self, CLSOF(self)._key, schema)'], modifies=['Coll._keys'],
        ensures=[# found: the FIRST member filed under that key; not found: the default
                 'implies(exists(0, len(self._ids), lambda j: %s == name), exists(0, len(self._ids), lambda j: %s == name and result == OBJ(schema, self._ids[j]) and forall(0, j, lambda k: %s != name)))' % (KEYJ % 'j', KEYJ % 'j', KEYJ % 'k'),
                 'implies(not exists(0, len(self._ids), lambda j: %s == name), result == default and (is_none(default) or some(default) != NoDefault))' % (KEYJ % 'j')],
        raises={'KeyError': dict(ensures=['not exists(0, len(self._ids), lambda j: %s == name)' % (KEYJ % 'j')])},
        loops={0: dict(fingerprint='for (key, item_id) in zip(self.keys(schema), self._ids)', index='i', seq='its', invariant=[
               'KIS(self, CLSOF(self)._key, schema)', 'self._ids == old(self._ids)', 'forall(0, i, lambda k: %s != name)' % (KEYJ % 'k')])},
        hints={'ext_funcs': XT})
    # schema comparison (what a computed migration is made of): if the old and the new collection share a reference to an object that is being deleted, the referrer must
    # be re-created too -- ObjectCollection.compare_values answers 0.0 then, whatever else is equal (otherwise the kept referrer points at a dropped object)
    w.refclass('CCtx', {'deletions': 'Map[Obj,Obj]'}); w.ufunc('OKEYS', ['Coll', 'Sch'], 'Set[Obj]')
    w.ext_methods['Coll._object_keys'] = dict(params={'schema': 'Sch'}, returns='Set[Obj]', returns_expr='OKEYS(self, schema)')
    w.contract(OBJS, 'ObjectCollection.compare_values', params={'cls': 'ICls', 'ours': 'Opt[Coll]', 'theirs': 'Opt[Coll]', 'our_schema': 'Sch', 'their_schema': 'Sch', 'context': 'CCtx', 'compcoef': 'float'},
        returns='float', ghost={'K': 'Obj'},
        ensures=['implies(not is_none(ours) and not is_none(theirs) and K in OKEYS(some(ours), our_schema) and K in OKEYS(some(theirs), their_schema) and K in context.deletions, result == 0.0)'],
        abstract={'if ours is not None:': dict(assigns={'our_names': 'Obj'}), 'if theirs is not None:': dict(assigns={'their_names': 'Obj'})})
    CREATE = dict(returns='Coll', modifies=['$alloc', 'Coll._ids', 'Coll._keys'], raises={'ObjectCollectionDuplicateNameError': {}, 'TypeError': {}},
        ensures=['KIS(result, cls._key, schema)', 'not old(allocated(result))', FRAME])
    ABS = lambda ids: {'coll = cast(ObjectIndexBase[Key_T, Object_T], super().create(schema, data, _keys=keys, **kwargs))':
                       dict(assigns={'coll': 'Coll'}, modifies=['$alloc', 'Coll._ids', 'Coll._keys'], raises=['TypeError'],
                            ensures=['not old(allocated(coll))', 'coll._keys == keys', 'coll._ids == %s' % ids,
                                     'forall(Coll, lambda o: implies(old(allocated(o)), o._ids == old(o._ids) and o._keys == old(o._keys)))'])}
    w.ext_methods['Coll._check_duplicates'] = dict(params={'schema': 'Sch'}, returns='none', raises={'ObjectCollectionDuplicateNameError': {}})
    # view 1: data is an object collection (an index: cached keys reused -- needs KI of data; any other collection: keys computed from its members)
    w.contract(OBJS, 'ObjectIndexBase.create', view='coll', params={'cls': 'ICls', 'schema': 'Sch', 'data': 'Coll'},
        requires=['isinstance(data, ObjectCollection)', 'implies(isinstance(data, ObjectIndexBase), KIS(data, cls._key, schema))'],
        abstract=ABS('data._ids'), hints={'kwargs_bag': {'kwargs': {}}, 'var_types': {'keys': 'Seq[Key]'}}, **CREATE)
    # view 2: data is a plain sequence of objects (what refresh_classref hands over): keys are computed from the objects as they are in `schema`
    ABS2 = {'coll = cast(ObjectIndexBase[Key_T, Object_T], super().create(schema, data, _keys=keys, **kwargs))':
            dict(assigns={'coll': 'Coll'}, modifies=['$alloc', 'Coll._ids', 'Coll._keys'], raises=['TypeError'],
                 ensures=['not old(allocated(coll))', 'coll._keys == keys', 'len(coll._ids) == len(data)', 'forall(0, len(data), lambda j: OBJ(schema, coll._ids[j]) == data[j])', FRAME])}
    w.contract(OBJS, 'ObjectIndexBase.create', view='seq', params={'cls': 'ICls', 'schema': 'Sch', 'data': 'Seq[IObj]'},
        abstract=ABS2, hints={'kwargs_bag': {'kwargs': {}}, 'var_types': {'keys': 'Seq[Key]'}}, **CREATE)
    # Object.refresh_classref: what is stored back is an index whose keys were recomputed in `schema` (ghost g_new = the collection built)
    w.refclass('SO', {}); w.refclass('RefD', {'attr': 'str'}); w.refclass('Fld', {'type': 'ICls'}); w.refclass('SCls', {})
    w.ufunc('FIELDV', ['Sch', 'SO', 'str'], 'Opt[Coll]')
    XR = {'type': dict(params={'o': 'SO'}, returns='SCls'),
          'SCls.get_refdict': dict(params={'name': 'str'}, returns='RefD', raises={'LookupError': {}}),
          'SCls.get_field': dict(params={'name': 'str'}, returns='Fld')}
    w.ext_methods['SCls.get_refdict'] = XR['SCls.get_refdict']; w.ext_methods['SCls.get_field'] = XR['SCls.get_field']
    w.ext_methods['SO.get_explicit_field_value'] = dict(params={'schema': 'Sch', 'name': 'str', 'default': 'none'}, returns='Opt[Coll]', returns_expr='FIELDV(schema, self, name)',
                                                           ensures=['implies(not is_none(result), isinstance(some(result), ObjectCollection))'])
    w.ext_methods['SO.set_field_value'] = dict(params={'schema': 'Sch', 'name': 'str', 'value': 'Coll'}, returns='Sch', ensures=['FIELDV(result, self, name) == value'])
    # colltype.create(...) on a class VALUE: resolved by name to ObjectIndexBase.create, here with the clauses of the two verified views (argument kinds: sequence / collection)
    CR_SEQ = dict(params={'schema': 'Sch', 'data': 'Seq[IObj]'}, returns='Coll', modifies=['$alloc', 'Coll._ids', 'Coll._keys'],
                                        ensures=['KIS(result, self._key, schema)', 'not old(allocated(result))', 'len(result._ids) == len(data)',
                                                 'forall(0, len(data), lambda j: OBJ(schema, result._ids[j]) == data[j])',
                                                 'K_o._ids == old(K_o._ids) and K_o._keys == old(K_o._keys)'],      # FRAME, instantiated at the caller's collection (keeps the VC ground)
                                        bind={'K_o': 'some(coll)'},
                                        raises={'ObjectCollectionDuplicateNameError': {}, 'TypeError': {}})
    CR_COLL = dict(params={'schema': 'Sch', 'data': 'Coll'}, returns='Coll', modifies=['$alloc', 'Coll._ids', 'Coll._keys'],
                   requires=['isinstance(data, ObjectCollection)', 'implies(isinstance(data, ObjectIndexBase), KIS(data, self._key, schema))'],      # (view `coll` of the verified contract)
                   ensures=['KIS(result, self._key, schema)', 'not old(allocated(result))', 'result._ids == old(data._ids)', 'K_o._ids == old(K_o._ids) and K_o._keys == old(K_o._keys)'],
                   bind={'K_o': 'some(coll)'}, raises={'ObjectCollectionDuplicateNameError': {}, 'TypeError': {}})
    w.ext_methods['ICls.create'] = dict(overloads=[CR_SEQ, CR_COLL], params={})
    w.contract(OBJS, 'Object.refresh_classref', params={'self': 'SO', 'schema': 'Sch', 'collection': 'str'}, returns='Sch',
        ghost={'g_new': 'Coll', 'g_k': 'KFn', 'g_attr': 'str'}, modifies=['$alloc', 'Coll._ids', 'Coll._keys'],
        ensures=['implies(not is_none(FIELDV(schema, self, g_attr)), KIS(g_new, g_k, schema))',
                 'implies(not is_none(FIELDV(schema, self, g_attr)), FIELDV(result, self, g_attr) == g_new)',
                 'implies(not is_none(FIELDV(schema, self, g_attr)), len(g_new._ids) == len(some(FIELDV(schema, self, g_attr))._ids))',
                 'implies(not is_none(FIELDV(schema, self, g_attr)), forall(0, len(g_new._ids), lambda j: OBJ(schema, g_new._ids[j]) == OBJ(schema, some(FIELDV(schema, self, g_attr))._ids[j])))',
                 'implies(is_none(FIELDV(schema, self, g_attr)), result == schema)'],
        raises={'LookupError': {}, 'ObjectCollectionDuplicateNameError': {}, 'TypeError': {}},
        ghost_after={'all_coll = colltype.create(schema, coll.objects(schema))': [('g_new', 'all_coll')],
                     'colltype = type(self).get_field(attr).type': [('g_k', 'colltype._key'), ('g_attr', 'attr')]},
        hints={'ext_funcs': XR, 'ghost_out': ['g_new', 'g_k', 'g_attr']})
    return w

def build():
    w = World('C04')
    w.any('Id'); w.any('TName'); w.any('FName')      # field names are opaque (no string theory in the 4-place quantifiers); the literal 'name' is one fixed FName
    w.refclass('Obj', {}, universal=True)
    w.refclass('Cls', {}); w.refclass('FT', {})
    w.rec('Field', [('name', 'FName'), ('index', 'int'), ('type', 'FT')])
    REFS = 'Map[Id,Map[Tuple[Cls,FName],Map[Id,none]]]'
    w.refclass('FS', {'_id_to_data': 'Map[Id,Seq[Opt[Obj]]]', '_id_to_type': 'Map[Id,TName]', '_name_to_id': 'Map[Obj,Id]', '_shortname_to_id': 'Map[Tuple[Cls,Obj],Set[Id]]',
                      '_globalname_to_id': 'Map[Tuple[Cls,Obj],Id]', '_refs_to': REFS, '_generation': 'int'}, SCH, 'FlatSchema')
    w.ufunc('cls_fields', ['Cls'], 'Map[FName,Field]'); w.ufunc('cls_objref', ['Cls'], 'Set[Field]'); w.ufunc('cls_red', ['Cls'], 'Set[Field]')
    w.ufunc('refs_of', ['FT', 'Obj'], 'Set[Id]')
    w.alias('RefsT', REFS)
    # rv(m, t, c, f, r): referrer r is recorded under target t, key (c, f) in the reverse index m -- an uninterpreted view with its defining axiom
    # (instantiated by pattern on rv-terms; keeps the 4-place quantifiers of the specification on well-behaved triggers)
    w.ufunc('rv', ['RefsT', 'Id', 'Cls', 'str', 'Id'], 'bool')
    w.trusted.append('class metadata (get_schema_fields / get_object_reference_fields / get_reducible_fields / Field.type.schema_refs_from_data) are pure functions of the class / field type; '
                     'every object-reference field F of a class is the field registered under F.name, and the field registered under a name has that name (WF)')
    WF = lambda c: ('forall(Field, lambda F: implies(F in cls_objref(%s), F.name in cls_fields(%s) and cls_fields(%s)[F.name] == F)) and '
                    'forall(FName, lambda n: implies(n in cls_fields(%s), cls_fields(%s)[n].name == n))' % (c, c, c, c, c))
    w.ext_methods['Cls.get_object_reference_fields'] = dict(params={}, returns='Set[Field]', ensures=['result == cls_objref(self)', WF('self')])
    w.ext_methods['Cls.get_reducible_fields'] = dict(params={}, returns='Set[Field]', ensures=['result == cls_red(self)'])
    w.ext_methods['Cls.get_schema_fields'] = dict(params={}, returns='Map[FName,Field]', ensures=['result == cls_fields(self)'])
    w.ext_methods['FT.schema_refs_from_data'] = dict(params={'data': 'Obj'}, returns='Set[Id]', ensures=['result == refs_of(self, data)'])
    w.define('REF(m, t, c, f, r)', 't in m and (c, f) in m[t] and r in m[t][(c, f)]')
    w.define('NEWS(f)', '(some(new_refs)[f] if (not is_none(new_refs) and f in some(new_refs)) else emptyset(Id))')
    w.define('ORIGS(f)', '(some(orig_refs)[f] if (not is_none(orig_refs) and f in some(orig_refs)) else emptyset(Id))')
    w.define('ISF(f)', 'f in cls_fields(sclass) and cls_fields(sclass)[f] in cls_objref(sclass)')
    w.define('UPD(t, f)', '(t in NEWS(f) and not (t in ORIGS(f))) or (REF(self._refs_to, t, sclass, f, object_id) and not (t in ORIGS(f) and not (t in NEWS(f))))')
    # general shape of the loop invariants: entries of other (class, field, referrer) triples are those of the input index;
    # for the object's own fields: already processed -> UPD, the one being processed -> CUR, not yet processed -> input
    def inv(cur):
        return ('forall(Id, Cls, FName, Id, lambda t, c, f, r: (REF(mm, t, c, f, r) == ('
                '(UPD(t, f) if cls_fields(sclass)[f] in dF else (%s)) if (r == object_id and c == sclass and ISF(f)) else REF(self._refs_to, t, c, f, r))))' % cur)
    OLD = 'REF(self._refs_to, t, c, f, r)'
    PRE = 'forall(Field, Id, lambda F, t: implies(F in cls_objref(sclass) and t in ORIGS(F.name) and not (t in NEWS(F.name)), REF(self._refs_to, t, sclass, F.name, object_id)))'
    w.define('RDATA(d, F)', '(refs_of(F.type, some(some(d)[F.index])) if (not is_none(d) and not is_none(some(d)[F.index])) else emptyset(Id))')
    EXACT = ('forall(Field, Id, lambda F, t: implies(F in cls_objref(sclass), '
             '((t in ORIGS(F.name) and not (t in NEWS(F.name))) == (t in RDATA(olddata, F) and not (t in RDATA(newdata, F)))) and '
             '((t in NEWS(F.name) and not (t in ORIGS(F.name))) == (t in RDATA(newdata, F) and not (t in RDATA(olddata, F))))))')
    NI = 'forall(Id, lambda t: (not is_none(new_ids) and t in some(new_ids)) == (t in NEWS(field.name) and not (t in ORIGS(field.name))))'
    OI = 'forall(Id, lambda t: (not is_none(old_ids) and t in some(old_ids)) == (t in ORIGS(field.name) and not (t in NEWS(field.name))))'
    w.contract(SCH, 'FlatSchema._update_refs_to', params={'self': 'FS', 'object_id': 'Id', 'sclass': 'Cls', 'orig_refs': 'Opt[Map[FName,Set[Id]]]', 'new_refs': 'Opt[Map[FName,Set[Id]]]'},
        returns=REFS, ghost={'olddata': 'Opt[Seq[Opt[Obj]]]', 'newdata': 'Opt[Seq[Opt[Obj]]]'},
        # EXACT: the reverse entries removed / added are exactly the targets the object stops / starts referencing when its field tuple
        # changes from olddata to newdata (None = the object is absent): an obligation at every call site
        requires=[PRE], caller_requires=[EXACT],
        ensures=['forall(Id, Cls, FName, Id, lambda t, c, f, r: triggered(r in result[t][(c, f)], REF(result, t, c, f, r) == (UPD(t, f) if (r == object_id and c == sclass and ISF(f)) else REF(self._refs_to, t, c, f, r))))'],
        # inner loops are specified relative to mm0, the index as it was when the current field was taken up (ghost snapshot):
        # only the entries (t, (sclass, field.name), object_id) change
        ghost_after={'key = (sclass, field.name)': [('mm0', 'mm')]},
        loops={0: dict(fingerprint='for field in objfields', done='dF', invariant=[inv(OLD), 'objfields == cls_objref(sclass)', WF('sclass')]),
               1: dict(fingerprint='for ref_id in new_ids', done='d1', invariant=[
                   'forall(Id, Cls, FName, Id, lambda t, c, f, r: REF(mm, t, c, f, r) == (REF(mm0, t, c, f, r) or (c == sclass and f == field.name and r == object_id and t in d1)))',
                   'key == (sclass, field.name)']),
               2: dict(fingerprint='for ref_id in old_ids', done='d2', invariant=[
                   'forall(Id, Cls, FName, Id, lambda t, c, f, r: REF(mm, t, c, f, r) == ((REF(mm0, t, c, f, r) or (c == sclass and f == field.name and r == object_id and not is_none(new_ids) and t in some(new_ids)))'
                   ' and not (c == sclass and f == field.name and r == object_id and t in d2)))',
                   'key == (sclass, field.name)',
                   # the entries still to be removed are present (no KeyError)
                   'forall(Id, lambda t: implies(not is_none(old_ids) and t in some(old_ids), REF(mm0, t, sclass, field.name, object_id)))'])},
        hints=dict(timeout_ms=90000, var_types={'mm': REFS, 'new_ids': 'Opt[Set[Id]]', 'old_ids': 'Opt[Set[Id]]'}))
    # ---- R2 / R3: the mutators keep the representation invariant
    w.refclass('SObj', {'id': 'Id'})
    w.ufunc('cls_of', ['SObj'], 'Cls'); w.ufunc('class_by_name', ['TName'], 'Cls'); w.ufunc('reduce_of', ['Obj'], 'Obj'); w.ufunc('nfields', ['Cls'], 'int')
    w.ext_funcs['type'] = dict(params={'o': 'SObj'}, returns='Cls', ensures=['result == cls_of(o)'])
    w.ext_funcs['so.ObjectMeta.get_schema_class'] = dict(params={'name': 'TName'}, returns='Cls', ensures=['result == class_by_name(name)'])
    w.ext_methods['Obj.schema_reduce'] = dict(params={}, returns='Obj', ensures=['result == reduce_of(self)'])
    w.ext_methods['Cls.get_schema_field'] = dict(params={'name': 'FName'}, returns='Field', ensures=['result == cls_fields(self)[name]'])
    w.trusted.append('class metadata well-formedness WFC: object-reference fields are reducible, field indexes are distinct and lie within the data tuple (length nfields(class))')
    WFC = lambda c: conj([WF(c), 'forall(Field, lambda F: implies(F in cls_objref(%s), F in cls_red(%s)))' % (c, c),
                          'forall(FName, lambda n: implies(n in cls_fields(%s), 0 <= cls_fields(%s)[n].index and cls_fields(%s)[n].index < nfields(%s)))' % (c, c, c, c),
                          'forall(FName, FName, lambda n, m: implies(n in cls_fields(%s) and m in cls_fields(%s) and n != m, cls_fields(%s)[n].index != cls_fields(%s)[m].index))' % (c, c, c, c)])
    w.define('CLS(s, r)', 'class_by_name(s._id_to_type[r])')
    w.define('HOLDS(s, t, c, f, r)', 'r in s._id_to_data and r in s._id_to_type and CLS(s, r) == c and f in cls_fields(c) and cls_fields(c)[f] in cls_objref(c)'
             ' and not is_none(s._id_to_data[r][cls_fields(c)[f].index]) and t in refs_of(cls_fields(c)[f].type, some(s._id_to_data[r][cls_fields(c)[f].index]))')
    w.define('RI(s)', 'forall(Id, Cls, FName, Id, lambda t, c, f, r: triggered(r in s._refs_to[t][(c, f)], REF(s._refs_to, t, c, f, r) == HOLDS(s, t, c, f, r)))')
    w.define('EQ4(s, t, c, f, r)', 'REF(s._refs_to, t, c, f, r) == HOLDS(s, t, c, f, r)')
    w.define('LEN(s)', 'forall(Id, lambda r: implies(r in s._id_to_data and r in s._id_to_type, len(s._id_to_data[r]) == nfields(CLS(s, r))))')
    FSF = ['FS.' + f for f in w.classes['FS']]
    FROZEN = ['heap_same_except("%s", result)' % f for f in FSF]      # R3: only the new schema object is written
    w.contract(SCH, 'FlatSchema._replace', params={'self': 'FS', 'id_to_data': 'Opt[Map[Id,Seq[Opt[Obj]]]]', 'id_to_type': 'Opt[Map[Id,TName]]', 'name_to_id': 'Opt[Map[Obj,Id]]',
                                                    'shortname_to_id': 'Opt[Map[Tuple[Cls,Obj],Set[Id]]]', 'globalname_to_id': 'Opt[Map[Tuple[Cls,Obj],Id]]', 'refs_to': 'Opt[%s]' % REFS},
        returns='FS', modifies=FSF,
        ensures=FROZEN + ['result != self', 'not old(allocated(result))',
                 'result._id_to_data == (self._id_to_data if is_none(id_to_data) else some(id_to_data))', 'result._id_to_type == (self._id_to_type if is_none(id_to_type) else some(id_to_type))',
                 'result._name_to_id == (self._name_to_id if is_none(name_to_id) else some(name_to_id))', 'result._refs_to == (self._refs_to if is_none(refs_to) else some(refs_to))',
                 'result._shortname_to_id == (self._shortname_to_id if is_none(shortname_to_id) else some(shortname_to_id))',
                 'result._globalname_to_id == (self._globalname_to_id if is_none(globalname_to_id) else some(globalname_to_id))',
                 'result._generation == self._generation + 1'])
    w.define('NAMEINV(s, c, nm)', 'implies(not is_none(nm), (implies(has_sn(c), (c, shortname_of(some(nm))) in s._shortname_to_id)) and '
             '(implies(is_qualified(c), some(nm) in s._name_to_id)) and (implies(not is_qualified(c), (c, some(nm)) in s._globalname_to_id)))')
    w.trusted.append('name-index invariant NAMEINV (the current name of the object being changed is present in the indexes its class uses) is assumed at the entry of the mutators; '
                     'its preservation for all objects is not proved (the explorer checks the name index natively)')
    w.define('DOM(s)', 'forall(Id, lambda r: (r in s._id_to_data) == (r in s._id_to_type))')
    SINV = lambda x: ['LEN(%s)' % x, 'DOM(%s)' % x]
    RIPRE = 'RI(self)'      # needed for the KeyError-freedom precondition of _update_refs_to (entries to be removed are present)
    ALLWFC = 'forall(Cls, lambda c: %s)' % WFC('c')
    # ---- name indexes: _update_obj_name against a whole-view postcondition
    w.ufunc('is_qualified', ['Cls'], 'bool'); w.ufunc('has_sn', ['Cls'], 'bool'); w.ufunc('shortname_of', ['Obj'], 'Obj')
    w.ext_funcs['issubclass'] = dict(params={'c': 'Cls', 'base': 'Obj'}, returns='bool', ensures_seq=[['result == is_qualified(c)'], ['result == has_sn(c)']])
    w.ext_funcs['sn.shortname_from_fullname'] = dict(params={'n': 'Obj'}, returns='Obj', ensures=['result == shortname_of(n)'])
    w.ext_methods['FS.get_by_id'] = dict(params={'id': 'Id', 'type': 'Obj'}, optional=('type',), returns='Obj')
    w.ufunc('HASMOD', ['FS', 'Obj'], 'bool'); w.ufunc('MODNAME', ['Obj'], 'Obj')
    w.ext_methods['FS.has_module'] = dict(params={'m': 'Obj'}, returns='bool', returns_expr='HASMOD(self, m)')
    w.ext_methods['Obj.get_verbosename'] = dict(params={'schema': 'FS', 'with_parent': 'bool'}, optional=('with_parent',), returns='str')
    w.ext_methods['Obj.get_module_name'] = dict(params={}, returns='Obj', returns_expr='MODNAME(self)')
    w.opaque_exprs['so.QualifiedObject'] = 'Obj'; w.opaque_exprs['SPECIAL_MODULES'] = 'Set[Obj]'; w.opaque_exprs['so.Object'] = 'Obj'
    w.opaque_exprs['(s_func.Function, s_oper.Operator)'] = 'Obj'
    w.classes['Obj']['module'] = 'Obj'; w.classes['Obj']['name'] = 'Obj'
    w.define('SNIN(m, c, n, i)', '(c, n) in m and i in m[(c, n)]')
    OLDN = 'not is_none(old_name)'; NEWN = 'not is_none(new_name)'
    w.contract(SCH, 'FlatSchema._update_obj_name', params={'self': 'FS', 'obj_id': 'Id', 'sclass': 'Cls', 'old_name': 'Opt[Obj]', 'new_name': 'Opt[Obj]'},
        returns='Tuple[Map[Obj,Id],Map[Tuple[Cls,Obj],Set[Id]],Map[Tuple[Cls,Obj],Id]]',
        # the short-name entry that is taken away must be there (part of the schema invariant)
        requires=['implies(%s and has_sn(sclass), (sclass, shortname_of(some(old_name))) in self._shortname_to_id)' % OLDN,
                  'implies(%s and is_qualified(sclass), some(old_name) in self._name_to_id)' % OLDN,
                  'implies(%s and not is_qualified(sclass), (sclass, some(old_name)) in self._globalname_to_id)' % OLDN],
        ensures=[
            # full-name index (qualified objects) / global-name index (the others): the old name goes, the new name maps to the object, nothing else changes
            'implies(is_qualified(sclass), result[2] == self._globalname_to_id and forall(Obj, lambda n: (n in result[0]) == ((n in self._name_to_id and not (%s and n == some(old_name))) or (%s and n == some(new_name)))))' % (OLDN, NEWN),
            'implies(is_qualified(sclass) and %s, result[0][some(new_name)] == obj_id)' % NEWN,
            'implies(is_qualified(sclass), forall(Obj, lambda n: implies(n in result[0] and not (%s and n == some(new_name)), result[0][n] == self._name_to_id[n])))' % NEWN,
            'implies(not is_qualified(sclass), result[0] == self._name_to_id and forall(Cls, Obj, lambda c, n: ((c, n) in result[2]) == (((c, n) in self._globalname_to_id and not (%s and c == sclass and n == some(old_name))) or (%s and c == sclass and n == some(new_name)))))' % (OLDN, NEWN),
            'implies(not is_qualified(sclass) and %s, result[2][(sclass, some(new_name))] == obj_id)' % NEWN,
            # short-name index (functions / operators): the object is filed under the short name of its new full name and no longer under the old one
            'implies(has_sn(sclass), forall(Cls, Obj, Id, lambda c, n, i: SNIN(result[1], c, n, i) == ((SNIN(self._shortname_to_id, c, n, i) and not (%s and c == sclass and n == shortname_of(some(old_name)) and i == obj_id))'
            ' or (%s and c == sclass and n == shortname_of(some(new_name)) and i == obj_id))))' % (OLDN, NEWN),
            'implies(not has_sn(sclass), result[1] == self._shortname_to_id)',
            # a name is never taken over: on normal return the new name was free (or is the object's own old name) -- this is the only place a RENAME's new name is checked
            'implies(is_qualified(sclass) and %s, not (some(new_name) in self._name_to_id) or (%s and some(old_name) == some(new_name)))' % (NEWN, OLDN),
            'implies(not is_qualified(sclass) and %s, not ((sclass, some(new_name)) in self._globalname_to_id) or (%s and some(old_name) == some(new_name)))' % (NEWN, OLDN)],
        # ... and a name is refused ("already exists") ONLY when another object holds it: completeness of the duplicate check (a renamed object may keep its own name)
        raises={'SchemaError': dict(only_if='%s and ((is_qualified(sclass) and some(new_name) in self._name_to_id and not (%s and some(old_name) == some(new_name))) '
                                            'or (not is_qualified(sclass) and (sclass, some(new_name)) in self._globalname_to_id and not (%s and some(old_name) == some(new_name))))' % (NEWN, OLDN, OLDN)),
                'UnknownModuleError': dict(only_if='%s and is_qualified(sclass) and not HASMOD(self, some(new_name).module) and not (MODNAME(some(new_name)) in SPECIAL_MODULES)' % NEWN), 'AssertionError': {}, 'AttributeError': {}},
        hints=dict(var_types={'ids': 'Set[Id]', 'new_ids': 'Set[Id]'}))
    SAMEDATA = 'forall(Id, lambda r: implies(r != obj.id, (r in result._id_to_data) == (r in self._id_to_data) and implies(r in self._id_to_data, result._id_to_data[r] == self._id_to_data[r])))'
    w.contract(SCH, 'FlatSchema.set_obj_field', params={'self': 'FS', 'obj': 'SObj', 'fieldname': 'FName', 'value': 'Obj'}, returns='FS',
        requires=SINV('self') + [RIPRE, WFC('CLS(self, obj.id)'), 'implies(obj.id in self._id_to_type, fieldname in cls_fields(CLS(self, obj.id)))',
                  'implies(obj.id in self._id_to_data, NAMEINV(self, CLS(self, obj.id), self._id_to_data[obj.id][cls_fields(CLS(self, obj.id))["name"].index]))'],
        modifies=FSF,
        ensures=SINV('result') + FROZEN + [SAMEDATA, 'result._id_to_type == self._id_to_type', 'obj.id in result._id_to_data'],
        raises={'SchemaError': dict(ensures=['heap_same("%s")' % f for f in FSF]), 'UnknownModuleError': dict(ensures=['heap_same("%s")' % f for f in FSF]), 'AssertionError': dict(ensures=['heap_same("%s")' % f for f in FSF]), 'AttributeError': dict(ensures=['heap_same("%s")' % f for f in FSF])},
        call_ghost={'FlatSchema._update_refs_to': {'olddata': 'data', 'newdata': 'new_data'}},
        hints=dict(var_types={'orig_refs': 'Map[FName,Set[Id]]', 'new_refs': 'Map[FName,Set[Id]]', 'data_list': 'Seq[Opt[Obj]]'}))
    w.contract(SCH, 'FlatSchema.unset_obj_field', params={'self': 'FS', 'obj': 'SObj', 'fieldname': 'FName'}, returns='FS',
        requires=SINV('self') + [RIPRE, WFC('CLS(self, obj.id)'), 'implies(obj.id in self._id_to_type, fieldname in cls_fields(CLS(self, obj.id)))',
                  'implies(obj.id in self._id_to_data, NAMEINV(self, CLS(self, obj.id), self._id_to_data[obj.id][cls_fields(CLS(self, obj.id))["name"].index]))'],
        modifies=FSF,
        ensures=['implies(result != self, %s)' % x for x in SINV('result') + FROZEN + [SAMEDATA, 'result._id_to_type == self._id_to_type', 'obj.id in result._id_to_data',
                 'is_none(result._id_to_data[obj.id][cls_fields(CLS(self, obj.id))[fieldname].index])']],
        raises={'SchemaError': dict(ensures=['heap_same("%s")' % f for f in FSF]), 'UnknownModuleError': dict(ensures=['heap_same("%s")' % f for f in FSF]), 'AssertionError': dict(ensures=['heap_same("%s")' % f for f in FSF]), 'AttributeError': dict(ensures=['heap_same("%s")' % f for f in FSF])},
        call_ghost={'FlatSchema._update_refs_to': {'olddata': 'data', 'newdata': 'new_data'}},
        hints=dict(var_types={'orig_refs': 'Map[FName,Set[Id]]', 'data_list': 'Seq[Opt[Obj]]'}))
    # update_obj: the general mutator (several fields at once)
    D0 = 'self._id_to_data[obj.id]'
    UFLD = lambda fn: 'cls_fields(cls_of(obj))[%s]' % fn
    ULOOP = [
        'len(data) == len(%s)' % D0,
        # fields not processed yet keep their value; processed ones hold the (reduced) update
        'forall(FName, lambda n: implies(n in cls_fields(cls_of(obj)) and not (n in dU), data[%s.index] == %s[%s.index]))' % (UFLD('n'), D0, UFLD('n')),
        'forall(FName, lambda n: implies(n in dU, data[%s.index] == (updates[n] if (is_none(updates[n]) or not (%s in cls_red(cls_of(obj)))) else reduce_of(some(updates[n])))))' % (UFLD('n'), UFLD('n')),
        # what has been recorded for _update_refs_to: exactly the old / new reference sets of the processed object-reference fields
        'forall(FName, lambda n: (n in new_refs) == (n in dU and not is_none(updates[n]) and %s in cls_objref(cls_of(obj))))' % UFLD('n'),
        'forall(FName, lambda n: implies(n in new_refs, new_refs[n] == refs_of(%s.type, reduce_of(some(updates[n])))))' % UFLD('n'),
        'forall(FName, lambda n: (n in orig_refs) == (n in dU and %s in cls_objref(cls_of(obj)) and not is_none(%s[%s.index])))' % (UFLD('n'), D0, UFLD('n')),
        'forall(FName, lambda n: implies(n in orig_refs, orig_refs[n] == refs_of(%s.type, some(%s[%s.index]))))' % (UFLD('n'), D0, UFLD('n')),
        'sclass == cls_of(obj)', 'all_fields == cls_fields(sclass)', 'object_ref_fields == cls_objref(sclass)', 'reducible_fields == cls_red(sclass)', 'obj_id == obj.id']
    w.contract(SCH, 'FlatSchema.update_obj', params={'self': 'FS', 'obj': 'SObj', 'updates': 'Map[FName,Opt[Obj]]'}, returns='FS',
        requires=SINV('self') + [RIPRE, WFC('cls_of(obj)'), 'obj.id in self._id_to_data', 'cls_of(obj) == CLS(self, obj.id)',
                  'forall(FName, lambda n: implies(n in updates, n in cls_fields(cls_of(obj))))',
                  'NAMEINV(self, cls_of(obj), self._id_to_data[obj.id][cls_fields(cls_of(obj))["name"].index])'],
        modifies=FSF,
        ensures=['implies(result != self, %s)' % x for x in SINV('result') + FROZEN + [SAMEDATA, 'result._id_to_type == self._id_to_type', 'obj.id in result._id_to_data']],
        raises={'SchemaError': dict(ensures=['heap_same("%s")' % f for f in FSF]), 'UnknownModuleError': dict(ensures=['heap_same("%s")' % f for f in FSF]), 'AssertionError': dict(ensures=['heap_same("%s")' % f for f in FSF]), 'AttributeError': dict(ensures=['heap_same("%s")' % f for f in FSF])},
        loops={0: dict(fingerprint='for (fieldname, value) in updates.items()', done='dU', invariant=ULOOP)},
        call_ghost={'FlatSchema._update_refs_to': {'olddata': 'self._id_to_data[obj_id]', 'newdata': 'data'}},
        hints=dict(var_types={'orig_refs': 'Map[FName,Set[Id]]', 'new_refs': 'Map[FName,Set[Id]]', 'data': 'Seq[Opt[Obj]]',
                              'name_to_id': 'Opt[Map[Obj,Id]]', 'shortname_to_id': 'Opt[Map[Tuple[Cls,Obj],Set[Id]]]', 'globalname_to_id': 'Opt[Map[Tuple[Cls,Obj],Id]]'}))
    # add_raw / _delete: the object appears / disappears as a referrer of exactly what its field tuple references
    w.classes['Cls']['__name__'] = 'TName'
    NAMEF = 'cls_fields(sclass)[strlit_name()]'
    w.contract(SCH, 'FlatSchema.add_raw', params={'self': 'FS', 'id': 'Id', 'sclass': 'Cls', 'data': 'Seq[Opt[Obj]]'}, returns='FS', ghost={'gT': 'Id', 'gF': 'FName'},
        requires=SINV('self') + [RIPRE, WFC('sclass'), 'len(data) == nfields(sclass)', 'class_by_name(sclass.__name__) == sclass', '"name" in cls_fields(sclass)',
                  # a new object is the referrer of nothing yet (RI(self) gives this for ids absent from the schema)
                  ],
        modifies=FSF,
        ensures=SINV('result') + FROZEN + [
                 # (the ground instance of RI(result) for the new object -- REF(result._refs_to, gT, sclass, gF, id) == HOLDS(result, gT, sclass, gF, id) -- is provable here
                 #  but needs 10-20 s per query and ~100 s in all: dropped from the check as too slow / too sensitive to machine load; see DESIGN section 1, mutation probe)
                 'id in result._id_to_data', 'result._id_to_data[id] == data', 'CLS(result, id) == sclass',
                 'forall(Id, lambda r: implies(r != id, (r in result._id_to_data) == (r in self._id_to_data) and implies(r in self._id_to_data, result._id_to_data[r] == self._id_to_data[r])))'],
        # completeness of the duplicate checks: "already exists" / "already present" only when the name or the id really is taken
        raises={'SchemaError': dict(only_if='(not is_none(data[cls_fields(sclass)["name"].index]) and (some(data[cls_fields(sclass)["name"].index]) in self._name_to_id '
                                            'or (not is_qualified(sclass) and (sclass, some(data[cls_fields(sclass)["name"].index])) in self._globalname_to_id))) or id in self._id_to_data',
                                    ensures=['heap_same("%s")' % f for f in FSF]), 'UnknownModuleError': dict(ensures=['heap_same("%s")' % f for f in FSF]),
                'AssertionError': dict(ensures=['heap_same("%s")' % f for f in FSF]), 'AttributeError': dict(ensures=['heap_same("%s")' % f for f in FSF])},
        loops={0: dict(fingerprint='for field in object_ref_fields', done='dA', invariant=[
                 'object_ref_fields == cls_objref(sclass)',
                 'forall(Field, lambda F: implies(F in cls_objref(sclass), (F.name in new_refs) == (F in dA and not is_none(data[F.index]))))',
                 'forall(Field, lambda F: implies(F in dA and not is_none(data[F.index]), new_refs[F.name] == refs_of(F.type, some(data[F.index]))))',
                 'forall(FName, lambda n: implies(n in new_refs, n in cls_fields(sclass) and cls_fields(sclass)[n] in dA))'])},
        call_ghost={'FlatSchema._update_refs_to': {'olddata': 'None', 'newdata': 'data'}},
        hints=dict(var_types={'new_refs': 'Map[FName,Set[Id]]', 'refs_to': 'Opt[%s]' % REFS}))
    w.contract(SCH, 'FlatSchema._delete', params={'self': 'FS', 'obj': 'SObj'}, returns='FS', ghost={'gT': 'Id', 'gF': 'FName'},
        requires=SINV('self') + [RIPRE, WFC('cls_of(obj)'), 'implies(obj.id in self._id_to_data, cls_of(obj) == CLS(self, obj.id))', '"name" in cls_fields(cls_of(obj))',
                  'implies(obj.id in self._id_to_data, NAMEINV(self, cls_of(obj), self._id_to_data[obj.id][cls_fields(cls_of(obj))["name"].index]))'],
        modifies=FSF,
        ensures=SINV('result') + FROZEN + [
                 # the deleted object is no longer filed as a referrer of anything (one arbitrary (target, field) pair: ground instance of RI(result) for the object)
                 'not REF(result._refs_to, gT, cls_of(obj), gF, obj.id)',
                 'not (obj.id in result._id_to_data)', 'not (obj.id in result._id_to_type)',
                 'forall(Id, lambda r: implies(r != obj.id, (r in result._id_to_data) == (r in self._id_to_data) and implies(r in self._id_to_data, result._id_to_data[r] == self._id_to_data[r])))'],
        raises={'UnknownModuleError': dict(ensures=['heap_same("%s")' % f for f in FSF]),
                'InvalidReferenceError': dict(only_if='not (obj.id in self._id_to_data)', ensures=['heap_same("%s")' % f for f in FSF]),
                'AttributeError': dict(ensures=['heap_same("%s")' % f for f in FSF]), 'AssertionError': dict(ensures=['heap_same("%s")' % f for f in FSF]),
                'SchemaError': dict(ensures=['heap_same("%s")' % f for f in FSF])},
        loops={0: dict(fingerprint='for field in object_ref_fields', done='dD', invariant=[
                 'object_ref_fields == cls_objref(sclass)', 'values == self._id_to_data[obj.id]', 'sclass == cls_of(obj)',
                 'forall(Field, lambda F: implies(F in cls_objref(sclass), (F.name in orig_refs) == (F in dD and not is_none(values[F.index]))))',
                 'forall(Field, lambda F: implies(F in dD and not is_none(values[F.index]), orig_refs[F.name] == refs_of(F.type, some(values[F.index]))))',
                 'forall(FName, lambda n: implies(n in orig_refs, n in cls_fields(sclass) and cls_fields(sclass)[n] in dD))'])},
        call_ghost={'FlatSchema._update_refs_to': {'olddata': 'values', 'newdata': 'None'}},
        hints=dict(var_types={'orig_refs': 'Map[FName,Set[Id]]', 'refs_to': 'Opt[%s]' % REFS}))
    build_chained(w)
    build_index(w)
    return w

def extra_obligations(w, tier, seed):
    """ownership scan: the reverse index and the data map of a FlatSchema are written only through the functions under contract"""
    out = []
    mod = repo.module(SCH)
    cls = mod.classes['FlatSchema']
    under = {c.qual.split('.')[-1] for c in w.contracts.values() if not c.trusted}
    bad = []
    for st in cls.body:
        if not isinstance(st, (ast.FunctionDef, ast.AsyncFunctionDef)): continue
        for n in ast.walk(st):
            # a call _replace(..., refs_to=..., id_to_data=...) or an assignment to ._refs_to / ._id_to_data
            hit = False
            if isinstance(n, ast.Call) and isinstance(n.func, ast.Attribute) and n.func.attr == '_replace':
                hit = any(k.arg in ('refs_to', 'id_to_data', 'id_to_type') or k.arg is None for k in n.keywords)
            if isinstance(n, (ast.Assign, ast.AugAssign)):
                tg = n.targets if isinstance(n, ast.Assign) else [n.target]
                hit = hit or any(isinstance(t, ast.Attribute) and t.attr in ('_refs_to', '_id_to_data', '_id_to_type') for t in tg)
            if hit and st.name not in under and st.name not in ('__init__',):
                bad.append('%s line %d' % (st.name, n.lineno))
    ok = not bad
    out.append(dict(id='scan/index-writers', kind='ownership', tag='auxiliary', paths=1, status='discharged' if ok else 'failed', backend='ast-scan', seconds=0.0,
                    clause='within FlatSchema, _refs_to / _id_to_data / _id_to_type are only ever written (assignment or _replace(refs_to= / id_to_data= / id_to_type= / **updates)) by functions under contract',
                    model=None if ok else {'offending_source_location': bad}, where='%s: %s' % (SCH, bad), function='ast-scan'))
    # type invariant used as a precondition by the ChainedSchema contracts: `is_global_object` is a class attribute, False in Object and True in GlobalObject, assigned nowhere else
    OBJ = 'edb/schema/objects.py'
    assigns = []
    for rel in sorted(os.listdir(os.path.join(repo.REPO, 'edb/schema'))):
        if not rel.endswith('.py'): continue
        tree = ast.parse(open(os.path.join(repo.REPO, 'edb/schema', rel), encoding='utf-8').read())
        for cls_ in [n for n in ast.walk(tree) if isinstance(n, ast.ClassDef)]:
            for st in cls_.body:
                if isinstance(st, (ast.Assign, ast.AnnAssign)):
                    tg = st.targets if isinstance(st, ast.Assign) else [st.target]
                    if any(isinstance(t, ast.Name) and t.id == 'is_global_object' for t in tg): assigns.append((rel, cls_.name, ast.unparse(st.value) if st.value is not None else None))
        for n in ast.walk(tree):
            if isinstance(n, (ast.Assign, ast.AugAssign)):
                tg = n.targets if isinstance(n, ast.Assign) else [n.target]
                if any(isinstance(t, ast.Attribute) and t.attr == 'is_global_object' for t in tg): assigns.append((rel, '<attribute store line %d>' % n.lineno, None))
    ok = sorted(assigns) == [('objects.py', 'GlobalObject', 'True'), ('objects.py', 'Object', 'False')]
    out.append(dict(id='scan/is_global_object', kind='ownership', tag='auxiliary', paths=1, status='discharged' if ok else 'unknown', backend='ast-scan', seconds=0.0,
                    clause='edb/schema: is_global_object is a class attribute set to False in Object and True in GlobalObject and assigned nowhere else (so obj.is_global_object == isinstance(obj, GlobalObject))',
                    model=None if ok else {'offending_source_location': assigns}, where='%s' % (assigns,), function='ast-scan'))
    # "earlier versions stay frozen" also covers what is derived from names and memoised: edb/schema/name.py caches (functools.lru_cache) functions that return a LIST;
    # the cached list object is shared by every caller and by every schema version, so no caller may change it in place (it must copy first)
    nm = repo.module('edb/schema/name.py')
    cached = [f.name for f in nm.tree.body if isinstance(f, ast.FunctionDef) and any('lru_cache' in ast.unparse(d) for d in f.decorator_list)
              and f.returns is not None and ast.unparse(f.returns).split('[')[0] in ('List', 'list', 'Dict', 'dict', 'Set', 'set', 'typing.List')]
    # ... and the memoised lookups of a schema (lru_method_cache on FlatSchema methods that return a dict / list): the cached object belongs to that schema VALUE
    for cls_ in [n for n in repo.module(SCH).tree.body if isinstance(n, ast.ClassDef)]:
        for f in cls_.body:
            if isinstance(f, ast.FunctionDef) and any('lru' in ast.unparse(d) for d in f.decorator_list) and f.returns is not None \
                    and ast.unparse(f.returns).split('[')[0] in ('List', 'list', 'Dict', 'dict', 'Set', 'set', 'typing.List', 'typing.Dict'):
                cached.append(f.name)
    MUT = ('append', 'extend', 'insert', 'pop', 'remove', 'sort', 'reverse', 'clear', 'update', 'add', 'discard', 'setdefault')
    bad = []; calls = 0
    for dirpath, dirs, files in os.walk(os.path.join(repo.REPO, 'edb')):
        for f_ in files:
            if not f_.endswith('.py'): continue
            try: tree = ast.parse(open(os.path.join(dirpath, f_), encoding='utf-8').read())
            except SyntaxError: continue
            rel = os.path.relpath(os.path.join(dirpath, f_), repo.REPO)
            for fn in [n for n in ast.walk(tree) if isinstance(n, (ast.FunctionDef, ast.AsyncFunctionDef))]:
                bound = {}
                for n in ast.walk(fn):
                    if isinstance(n, ast.Call) and ast.unparse(n.func).split('.')[-1] in cached: calls += 1
                    if isinstance(n, ast.Assign) and len(n.targets) == 1 and isinstance(n.targets[0], ast.Name) and isinstance(n.value, ast.Call) \
                            and ast.unparse(n.value.func).split('.')[-1] in cached:
                        bound[n.targets[0].id] = n.lineno
                if not bound: continue
                for n in ast.walk(fn):
                    tgt = None
                    if isinstance(n, (ast.Assign, ast.AugAssign, ast.Delete)):
                        for t in (n.targets if isinstance(n, (ast.Assign, ast.Delete)) else [n.target]):
                            if isinstance(t, ast.Subscript) and isinstance(t.value, ast.Name): tgt = t.value.id
                            if isinstance(n, ast.AugAssign) and isinstance(t, ast.Name): tgt = t.id
                    if isinstance(n, ast.Call) and isinstance(n.func, ast.Attribute) and n.func.attr in MUT and isinstance(n.func.value, ast.Name): tgt = n.func.value.id
                    if tgt in bound and n.lineno >= bound[tgt]:
                        bad.append('%s:%d (%s): `%s` holds the memoised result of a cached name function (bound at line %d) and is changed in place' % (rel, n.lineno, fn.name, tgt, bound[tgt]))
    # the owner's cached index keys are refreshed on EVERY application of a rename of an owned object -- also when an already canonical delta is replayed
    # (RenameReferencedInheritingObject._alter_begin: the refresh_classref call is not under a test of context.canonical)
    fn_r, _ = repo.find_def('edb/schema/referencing.py', 'RenameReferencedInheritingObject._alter_begin')
    def guards_of(fn, pred):
        res = []
        def walk(body, guards):
            for st in body:
                if any(pred(n) for n in ast.walk(st) if not isinstance(n, (ast.FunctionDef,))):
                    nested = False
                    for fld in ('body', 'orelse', 'finalbody'):
                        sub = getattr(st, fld, None)
                        if isinstance(sub, list) and any(any(pred(n) for n in ast.walk(s2)) for s2 in sub):
                            nested = True; walk(sub, guards + ([ast.unparse(st.test)] if isinstance(st, (ast.If, ast.While)) else []))
                    if not nested: res.append(list(guards))
        walk(fn.body, []); return res
    gl = guards_of(fn_r, lambda n: isinstance(n, ast.Call) and isinstance(n.func, ast.Attribute) and n.func.attr == 'refresh_classref')
    ok_r = len(gl) == 1 and not any('canonical' in g for g in gl[0])
    out.append(dict(id='scan/rename/refresh-classref-unconditional', kind='shape', tag='property', paths=1, status='discharged' if ok_r else ('failed' if gl else 'unknown'), backend='ast-scan', seconds=0.0,
                    clause='referencing.RenameReferencedInheritingObject._alter_begin refreshes the owner\'s refdict whatever context.canonical is', model=None if ok_r else {'offending_source_location': gl},
                    where='refresh_classref guarded by %s' % (gl,), function='ast-scan'))
    ok = bool(cached) and calls >= 1 and not bad
    out.append(dict(id='scan/cached-name-lists-not-mutated', kind='ownership', tag='property', paths=1, status='discharged' if ok else ('failed' if bad else 'unknown'), backend='ast-scan', seconds=0.0,
                    clause='edb/: the list / dict returned by a memoised function of edb/schema/name.py or a memoised lookup of edb/schema/schema.py (%s) is never changed in place by a caller' % ', '.join(cached),
                    model=None if ok else {'offending_source_location': bad}, where='; '.join(bad[:3]) or '%d call sites of %s' % (calls, cached), function='ast-scan'))
    return out

def scenarios(tier, seed, repo_root, outdir):
    """bounded stand-in: random mutation histories on real schema objects; reverse index recomputed from the objects' own data after every step"""
    import json, subprocess
    here = os.path.dirname(os.path.abspath(__file__)); root = os.path.dirname(os.path.dirname(here))
    out = os.path.join(outdir, 'scenario_out.json')
    if os.path.exists(out): os.unlink(out)
    env = dict(os.environ); env['PYTHONPATH'] = '%s:%s' % (os.path.join(root, 'stubs'), repo_root); env['VERIF_REPO'] = repo_root
    p = subprocess.run(['/venv/bin/python', os.path.join(here, 'scenario.py'), str(seed), '400' if tier == 'quick' else '20000', out], capture_output=True, text=True, env=env, cwd=repo_root, timeout=3000)
    if not os.path.exists(out): raise RuntimeError('scenario runner failed: ' + (p.stderr or p.stdout)[-2000:])
    r = json.load(open(out))
    return dict(evaluations=r['operations'], failure=r['failure'],
                label='%d random histories (%d FlatSchema mutations) over real scalar / object types and properties: add, update_obj (incl. resets to None), set / unset field, delete (bounded)' % (r['histories'], r['operations']),
                clause='reverse index == recomputation from the objects\' own data; index key sets agree; earlier schema values unchanged')
