"""C04 bounded stand-in (native; never counted as proof): random histories of FlatSchema mutations on REAL schema objects.
After every operation:
  RI   schema._refs_to  ==  the reverse index recomputed from the objects' own field tuples (every object-reference field of every object),
  DOM  _id_to_data and _id_to_type have the same keys, name index entries point at objects carrying that name,
  R3   every schema value obtained earlier is unchanged (deep snapshots taken when it was current are compared again at the end).
usage: scenario.py <seed> <n_histories> <out.json>
"""
import sys, json, random
from edb.schema import modules as s_mod, name as sn, objects as so, scalars as s_scalars, schema as s_schema
from edb.schema import objtypes as s_objtypes, properties as s_props
from edb.edgeql import qltypes

def recompute_refs(schema):
    want = {}
    for oid, data in schema._id_to_data.items():
        sclass = so.ObjectMeta.get_schema_class(schema._id_to_type[oid])
        for field in sclass.get_object_reference_fields():
            v = data[field.index]
            if v is None: continue
            for t in field.type.schema_refs_from_data(v):
                want.setdefault(t, {}).setdefault((sclass, field.name), set()).add(oid)
    return want
def actual_refs(schema):
    return {t: {k: set(m.keys()) for k, m in refs.items()} for t, refs in schema._refs_to.items()}
def snapshot(schema):
    return (dict(schema._id_to_data.items()), dict(schema._id_to_type.items()), dict(schema._name_to_id.items()), actual_refs(schema))

def check(schema, label):
    want, got = recompute_refs(schema), actual_refs(schema)
    got = {t: {k: v for k, v in d.items() if v} for t, d in got.items()}; got = {t: d for t, d in got.items() if d}
    if want != got:
        for t in set(want) | set(got):
            if want.get(t, {}) != got.get(t, {}):
                extra = {k: sorted(map(str, got.get(t, {}).get(k, set()) - want.get(t, {}).get(k, set()))) for k in set(want.get(t, {})) | set(got.get(t, {}))}
                missing = {k: sorted(map(str, want.get(t, {}).get(k, set()) - got.get(t, {}).get(k, set()))) for k in set(want.get(t, {})) | set(got.get(t, {}))}
                return '%s: reverse index disagrees with the objects\' own data for target %s: stale entries %s, missing entries %s' % (
                    label, t, {str((k[0].__name__, k[1])): v for k, v in extra.items() if v}, {str((k[0].__name__, k[1])): v for k, v in missing.items() if v})
    if set(schema._id_to_data.keys()) != set(schema._id_to_type.keys()): return '%s: _id_to_data and _id_to_type have different keys' % label
    for nm, oid in schema._name_to_id.items():
        if oid not in schema._id_to_data: return '%s: name index entry %s points at an object that is not in the schema' % (label, nm)
    return None

def history(rnd):
    schema = s_schema.EMPTY_SCHEMA
    for m in ('std', 'default'):
        schema, _ = s_mod.Module.create_in_schema(schema, stable_ids=True, name=sn.UnqualName(m))
    snaps = [(schema, snapshot(schema))]
    scalars = []; objs = []; props = []; n = 0
    def olist(xs): return so.ObjectList.create(schema, list(xs))
    for step in range(rnd.randint(4, 14)):
        op = rnd.choice(['scalar', 'scalar', 'objtype', 'prop', 'update', 'update', 'reset', 'setfield', 'unset', 'delete'])
        label = 'step %d (%s)' % (step, op)
        try:
            if op == 'scalar':
                n += 1; bases = rnd.sample(scalars, min(len(scalars), rnd.randint(0, 2)))
                schema, t = s_scalars.ScalarType.create_in_schema(schema, stable_ids=True, name=sn.QualName('default', 'S%d' % n), bases=olist(bases), ancestors=olist(bases))
                scalars.append(t)
            elif op == 'objtype':
                n += 1; bases = rnd.sample(objs, min(len(objs), rnd.randint(0, 2)))
                schema, t = s_objtypes.ObjectType.create_in_schema(schema, stable_ids=True, name=sn.QualName('default', 'O%d' % n), bases=olist(bases), ancestors=olist(bases))
                objs.append(t)
            elif op == 'prop' and objs and scalars:
                n += 1; src = rnd.choice(objs); tgt = rnd.choice(scalars)
                pname = sn.QualName('default', sn.get_specialized_name(sn.QualName('default', 'p%d' % n), str(src.get_name(schema))))
                schema, p = s_props.Property.create_in_schema(schema, stable_ids=True, name=pname, source=src, target=tgt, bases=olist([]), ancestors=olist([]),
                                                              required=False, cardinality=qltypes.SchemaCardinality.One)
                props.append(p)
            elif op == 'update' and scalars:
                t = rnd.choice(scalars); others = [x for x in scalars if x is not t]
                nb = rnd.sample(others, min(len(others), rnd.randint(0, 2)))
                schema = schema.update_obj(t, {'bases': olist(nb), 'ancestors': olist(nb)})
            elif op == 'reset' and (scalars or props):
                # several fields at once through update_obj, some of them reset to None (what ALTER ... RESET does)
                if props and (not scalars or rnd.random() < 0.5): schema = schema.update_obj(rnd.choice(props), {'target': None, 'required': True})
                else: schema = schema.update_obj(rnd.choice(scalars), {'bases': None, 'ancestors': None})
            elif op == 'setfield' and props and scalars:
                schema = schema.set_obj_field(rnd.choice(props), 'target', rnd.choice(scalars))
            elif op == 'unset' and (props or scalars):
                if props and (not scalars or rnd.random() < 0.5): schema = schema.unset_obj_field(rnd.choice(props), 'target')
                else: schema = schema.unset_obj_field(rnd.choice(scalars), rnd.choice(['bases', 'ancestors']))
            elif op == 'delete' and (props or scalars):
                pool = props if props and (not scalars or rnd.random() < 0.6) else scalars
                o = rnd.choice(pool); pool.remove(o); schema = schema._delete(o)
            else: continue
        except Exception as e:
            return schema, '%s: exception %r' % (label, e), step
        msg = check(schema, label)
        if msg: return schema, msg, step
        snaps.append((schema, snapshot(schema)))
    for k, (s_old, snap) in enumerate(snaps):
        if snapshot(s_old) != snap: return schema, 'schema value number %d obtained earlier was changed by later commands' % k, len(snaps)
    return schema, None, len(snaps)

def main():
    seed, n, out = int(sys.argv[1]), int(sys.argv[2]), sys.argv[3]
    res = dict(histories=0, operations=0, failure=None)
    for k in range(n):
        rnd = random.Random(seed * 1000003 + k)
        schema, msg, steps = history(rnd)
        res['histories'] += 1; res['operations'] += steps
        if msg: res['failure'] = dict(kind='C04', history_seed=seed * 1000003 + k, problem=msg); break
    json.dump(res, open(out, 'w'), indent=1)

if __name__ == '__main__':
    main()
