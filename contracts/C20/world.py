"""C20 sidecar contracts: dependency ordering (edb/common/topological.py sort_ex / visit / sort / normalize).

Decided (for all finite graphs, any number of nodes and edges, by induction over the DFS recursion and the loops):
  P1  on normal return every key of the graph occurs exactly once in the result,
  P2  every item comes after all of its in-graph hard dependencies (deps and merge) -- whatever the soft edges are;
      in particular a cycle through soft edges that is swallowed never yields an order violating a hard dependency,
  P5  UnresolvedReferenceError is raised only for a reference to a missing item with allow_unresolved false.
"normal return => the hard graph is acyclic" follows from P1+P2 (a topological order exists) by a trusted graph lemma.
Not decided here: that a raised CycleError implies a hard cycle (P3), that soft edges are honoured when acyclic (P4),
determinism (P6; set iteration order is an input of the model).

Abstraction: OrderedSet values are modelled as sets (their order only influences the resulting order and the
CycleError message, not P1/P2/P5); `defaultdict(OrderedSet)` as a total map K -> set.  Ghost state `pos` (position of
each key in `order`) is updated by a ghost statement attached to `order.append(item)`.
"""
from pyvc.engine import World

TOPO = 'edb/common/topological.py'

def build():
    w = World('C20')
    w.any('K')
    w.refclass('Obj', {}, universal=True)
    w.refclass('Entry', {'item': 'Obj', 'deps': 'Set[K]', 'weak_deps': 'Set[K]', 'merge': 'Opt[Set[K]]', 'loop_control': 'Set[K]', 'extra': 'Opt[Obj]'}, TOPO, 'DepGraphEntry')
    w.builtin_alias['OrderedSet'] = 'set'
    w.trusted.append('OrderedSet / defaultdict(OrderedSet) modelled as (total maps to) sets: element order affects only the DFS visiting order and the CycleError message')
    w.trusted.append('graph lemma: a sequence in which every node appears once and after all its hard dependencies exists only if the hard graph is acyclic')

    ADJ = {'adj': 'Fun[K,Set[K]]', 'weak_adj': 'Fun[K,Set[K]]', 'loop_control': 'Fun[K,Set[K]]'}
    ST = {'visiting': 'Set[K]', 'visiting_weak': 'Set[K]', 'visited': 'Set[K]', 'order': 'Seq[K]', 'pos': 'Fun[K,int]', 'nodes': 'Set[K]'}
    ST.update(ADJ)
    # global invariant of the DFS
    w.define('GI()', ' and '.join('(%s)' % c for c in [
        'forall(0, len(order), lambda i: pos[order[i]] == i and order[i] in visited)',                    # order enumerates visited ...
        'forall(K, lambda x: implies(x in visited, 0 <= pos[x] and pos[x] < len(order) and order[pos[x]] == x and x in nodes))',   # ... bijectively
        'forall(K, K, lambda x, d: implies(x in visited and d in adj[x], d in visited and pos[d] < pos[x]))',   # P2: hard deps come first
        'subset(visiting_weak, visiting)',
        'forall(K, lambda x: implies(x in visiting, not (x in visited) and x in nodes))',
        # adjacency stays inside the graph (established by the prelude of sort_ex)
        'forall(K, K, lambda x, d: implies(x in nodes and (d in adj[x] or d in weak_adj[x] or d in loop_control[x]), d in nodes))']))
    FRAME = ['visiting == old(visiting)', 'visiting_weak == old(visiting_weak)', 'subset(old(visited), visited)']
    INLOOP = ['GI()', 'visiting == set_add(old(visiting), item)', 'visiting_weak == (set_add(old(visiting_weak), item) if weak_link else old(visiting_weak))',
              'subset(old(visited), visited)', 'not (item in visited)', 'not (item in old(visiting))']
    w.contract(TOPO, 'sort_ex.<locals>.visit', params={'item': 'K', 'for_control': 'bool', 'weak_link': 'bool'}, state=ST, returns='none',
        requires=['GI()', 'item in nodes', 'implies(card(visiting_weak) > 0, weak_link)'],
        modifies=['visiting', 'visiting_weak', 'visited', 'order', 'pos'],
        ensures=['GI()'] + FRAME + [
            # the item has been placed -- unless this was a control visit, or a cycle through a soft edge was swallowed at the first soft node
            'item in visited or for_control or (weak_link and card(old(visiting_weak)) == 0)'],
        raises={'CycleError': dict(ensures=['GI()'] + FRAME)},
        loops={0: dict(fingerprint='for n in weak_adj[item]', done='done0', invariant=INLOOP),
               1: dict(fingerprint='for n in adj[item]', done='done1', invariant=INLOOP + ['subset(done1, visited)']),
               2: dict(fingerprint='for n in loop_control[item]', done='done2', invariant=INLOOP + ['subset(adj[item], visited)'])},
        ghost_after={'order.append(item)': [('pos', 'fun_set(pos, item, len(order) - 1)')]})
    # ------------------------------------------------------------------ sort_ex: prelude (adjacency) + driver loop
    w.define('merge_of(e)', 'some(e.merge) if not is_none(e.merge) else emptyset(K)')
    w.define('hard(g, x, d)', 'd in g[x].deps or d in merge_of(g[x])')
    CLOSED = 'forall(K, K, lambda x, d: implies(d in adj[x] or d in weak_adj[x] or d in loop_control[x], d in nodes and x in nodes))'
    COMPLETE = lambda dom: 'forall(K, K, lambda x, d: implies(x in %s and d in nodes and hard(graph, x, d), d in adj[x]))' % dom
    RESOLVED = lambda dom: 'implies(not allow_unresolved, forall(K, K, lambda x, d: implies(x in %s and (hard(graph, x, d) or d in graph[x].weak_deps or d in graph[x].loop_control), d in nodes)))' % dom
    OUTER = ['nodes == domain(graph)', 'subset(D0, nodes)', CLOSED, COMPLETE('D0'), RESOLVED('D0')]
    CUR = ['item_name in nodes', 'not (item_name in D0)', 'item == graph[item_name]']
    def inner(done_, src, tgt, merged, depsdone):
        inv = OUTER + CUR + ['forall(K, lambda d: implies(d in %s and d in nodes, d in %s[item_name]))' % (done_, tgt),
                             'implies(not allow_unresolved, subset(%s, nodes))' % done_]
        prev = {'weak_deps': [], 'merge': ['item.weak_deps'], 'deps': ['item.weak_deps', 'merge_of(item)'], 'loop_control': ['item.weak_deps', 'merge_of(item)', 'item.deps']}[src]
        inv += ['implies(not allow_unresolved, subset(%s, nodes))' % p_ for p_ in prev]
        if merged: inv.append('forall(K, lambda d: implies(d in nodes and d in merge_of(item), d in adj[item_name]))')
        if depsdone: inv.append('forall(K, lambda d: implies(d in nodes and d in item.deps, d in adj[item_name]))')
        return inv
    MISSING = 'not allow_unresolved and exists(K, K, lambda x, d: x in graph and not (d in graph) and (hard(graph, x, d) or d in graph[x].weak_deps or d in graph[x].loop_control))'
    w.contract(TOPO, 'sort_ex', params={'graph': 'Map[K,Entry]', 'allow_unresolved': 'bool'}, ghost={'pos': 'Fun[K,int]', 'nodes': 'Set[K]'},
        returns='Seq[Tuple[K,Entry]]', requires=['nodes == domain(graph)'],
        ensures=[
            # P1: every key of the graph exactly once (pos is the witness: the position of each key in the result)
            'forall(0, len(result), lambda i: result[i][0] in graph and result[i][1] == graph[result[i][0]] and pos[result[i][0]] == i)',
            'forall(K, lambda k: implies(k in graph, 0 <= pos[k] and pos[k] < len(result) and result[pos[k]][0] == k))',
            # P2: every item after all of its in-graph hard dependencies (deps and merge), whatever the soft edges are
            'forall(K, K, lambda x, d: implies(x in graph and d in graph and hard(graph, x, d), pos[d] < pos[x]))',
            # P5 (other direction): a normal return without allow_unresolved means every reference was resolved
            RESOLVED('nodes')],
        raises={'UnresolvedReferenceError': dict(only_if=MISSING),       # P5
                'CycleError': dict()},
        loops={0: dict(fingerprint='for (item_name, item) in graph.items()', done='D0', cur='item_name0', invariant=OUTER),
               1: dict(fingerprint='for dep in item.weak_deps', done='D1', invariant=inner('D1', 'weak_deps', 'weak_adj', False, False)),
               2: dict(fingerprint='for merge in item.merge', done='D2', invariant=inner('D2', 'merge', 'adj', False, False)),
               3: dict(fingerprint='for dep in item.deps', done='D3', invariant=inner('D3', 'deps', 'adj', True, False)),
               4: dict(fingerprint='for ctrl in item.loop_control', done='D4', invariant=inner('D4', 'loop_control', 'loop_control', True, True)),
               5: dict(fingerprint='for key in graph', done='D5', invariant=['GI()', COMPLETE('nodes'), 'nodes == domain(graph)', 'card(visiting) == 0 and card(visiting_weak) == 0',
                                                                          'visiting == emptyset(K) and visiting_weak == emptyset(K)', 'subset(D5, visited)', RESOLVED('nodes')])},
        hints={'var_types': {'adj': 'Fun[K,Set[K]]', 'weak_adj': 'Fun[K,Set[K]]', 'loop_control': 'Fun[K,Set[K]]', 'visiting': 'Set[K]', 'visiting_weak': 'Set[K]',
                             'visited': 'Set[K]', 'order': 'Seq[K]'}, 'ghost_out': ['pos']})
    w.contract(TOPO, 'sort', params={'graph': 'Map[K,Entry]', 'allow_unresolved': 'bool'}, ghost={'pos': 'Fun[K,int]', 'nodes': 'Set[K]'},
        returns='Seq[Obj]', requires=['nodes == domain(graph)'],
        ensures=[
            # the items of the graph, each exactly once (pos = position of each key's item), in an order respecting every hard dependency
            'forall(K, lambda k: implies(k in graph, 0 <= pos[k] and pos[k] < len(result) and result[pos[k]] == graph[k].item))',
            # every position holds the item of some key (witness: the key sequence returned by sort_ex, the local `items`)
            'len(result) == len(items) and forall(0, len(result), lambda i: items[i][0] in graph and pos[items[i][0]] == i and result[i] == graph[items[i][0]].item)',
            'forall(K, K, lambda x, d: implies(x in graph and d in graph and hard(graph, x, d), pos[d] < pos[x]))'],
        raises={'UnresolvedReferenceError': dict(only_if=MISSING), 'CycleError': dict()},
        hints={'ghost_out': ['pos']})
    # normalize(): merging in dependency order never looks up a base that has not been merged yet (a use of P2 + P5)
    w.refclass('Merger', {}); w.ext_methods['Merger.__call__'] = dict(params={'item': 'Obj', 'parent': 'Obj'}, returns='Obj', raises={'MergerFailure': {}})   # whatever the callback raises (a name of its own, so that it cannot mask KeyError)
    w.contract(TOPO, 'normalize', params={'graph': 'Map[K,Entry]', 'merger': 'Merger', 'merger_kwargs': 'Map[str,Obj]'}, ghost={'pos': 'Fun[K,int]', 'nodes': 'Set[K]'},
        returns='none', requires=['nodes == domain(graph)'],
        raises={'UnresolvedReferenceError': dict(only_if=MISSING.replace('allow_unresolved', 'False')), 'CycleError': dict(), 'MergerFailure': dict()},
        tags={}, hints={'var_types': {'merged': 'Map[K,Obj]'}, 'ghost_out': ['pos']},
        loops={0: dict(fingerprint='for (name, item) in sort_ex(graph)', index='i', seq='its',
                       invariant=['forall(0, i, lambda j: its[j][0] in merged)']),
               1: dict(fingerprint='for m in merge', done='DM', invariant=['forall(0, i, lambda j: its[j][0] in merged)', 'name == its[i][0]', 'item == its[i][1]', 'i < len(its)'])})
    # second view of the same function: the quantifier-free part of the argument (which nodes get placed), proved without GI so that
    # every obligation of it is decidable both ways (a change that breaks it yields a definite counter-model, not a solver timeout)
    LST = {'visiting': 'Set[K]', 'visiting_weak': 'Set[K]', 'visited': 'Set[K]', 'order': 'Seq[K]'}; LST.update(ADJ)
    LFRAME = ['visiting == old(visiting)', 'visiting_weak == old(visiting_weak)', 'subset(old(visited), visited)', 'subset(visiting_weak, visiting)']
    LIN = ['visiting == set_add(old(visiting), item)', 'visiting_weak == (set_add(old(visiting_weak), item) if weak_link else old(visiting_weak))',
           'subset(old(visited), visited)', 'not (item in old(visiting))', 'subset(old(visiting_weak), old(visiting))']
    w.contract(TOPO, 'sort_ex.<locals>.visit', view='placed', params={'item': 'K', 'for_control': 'bool', 'weak_link': 'bool'}, state=LST, returns='none',
        requires=['subset(visiting_weak, visiting)', 'implies(card(visiting_weak) > 0, weak_link)'],
        modifies=['visiting', 'visiting_weak', 'visited', 'order'],
        ensures=LFRAME + ['item in visited or for_control or (weak_link and card(old(visiting_weak)) == 0)'],
        raises={'CycleError': dict(ensures=LFRAME)},
        loops={0: dict(fingerprint='for n in weak_adj[item]', done='done0', invariant=LIN),
               1: dict(fingerprint='for n in adj[item]', done='done1', invariant=LIN + ['subset(done1, visited)']),
               2: dict(fingerprint='for n in loop_control[item]', done='done2', invariant=LIN + ['subset(adj[item], visited)'])})
    build_soft(w, ADJ, MISSING)
    return w

def build_soft(w, ADJ, MISSING):
    """P3 + P4 (view `soft` of visit / sort_ex / sort).

    P3  a CycleError that leaves the sort carries a witness: a closed walk through deps / merge / loop_control edges only.
    P4  on normal return every in-graph weak dependency is ordered first -- unless a cycle error was swallowed, and then
        there is a witness closed walk in the graph of all edges (so: soft edges are honoured whenever hard + soft edges
        together are acyclic, and they never make the sort fail: only the hard-cycle error of P3 can leave it).
    Ghost state: `stk` the DFS stack in order (visiting == set(stk)), `spos` the position of each visiting node on it,
    (`cstk`, `cj`) the stack at the moment a CycleError is raised and the index of the repeated node, `SW` "a cycle error
    has been swallowed", (`wstk`, `wj`) the walk of the first swallowed error.
    """
    w.define('E(x, y)', 'y in adj[x] or y in loop_control[x]')
    w.define('EW(x, y)', 'y in adj[x] or y in weak_adj[x] or y in loop_control[x]')
    w.define('CYC_FULL(s, j)', '0 <= j and j < len(s) and forall(j + 1, len(s), lambda i: EW(s[i - 1], s[i])) and EW(s[len(s) - 1], s[j])')
    w.define('CYC_HARD(s, j)', '0 <= j and j < len(s) and forall(j + 1, len(s), lambda i: E(s[i - 1], s[i])) and E(s[len(s) - 1], s[j])')
    w.define('SI()', ' and '.join('(%s)' % c for c in [
        'forall(0, len(stk), lambda i: spos[stk[i]] == i and stk[i] in visiting)',
        'forall(K, lambda x: implies(x in visiting, 0 <= spos[x] and spos[x] < len(stk) and stk[spos[x]] == x))',
        'forall(1, len(stk), lambda i: EW(stk[i - 1], stk[i]))',
        'implies(card(visiting_weak) == 0, forall(1, len(stk), lambda i: E(stk[i - 1], stk[i])))',
        'subset(visiting_weak, visiting)']))
    w.define('PI()', ' and '.join('(%s)' % c for c in [
        'forall(K, K, lambda x, d: implies(x in visited and d in weak_adj[x], SW or (d in visited and pos[d] < pos[x])))',
        'forall(K, lambda x: implies(x in visited, 0 <= pos[x] and pos[x] < len(order)))',
        'forall(K, lambda x: implies(x in visiting, not (x in visited)))',
        'forall(0, len(order), lambda i: pos[order[i]] == i and order[i] in visited and order[i] in nodes)',
        'forall(K, K, lambda x, d: implies(EW(x, d), d in nodes))',
        'implies(SW, CYC_FULL(wstk, wj))']))
    ST = {'visiting': 'Set[K]', 'visiting_weak': 'Set[K]', 'visited': 'Set[K]', 'order': 'Seq[K]', 'pos': 'Fun[K,int]', 'nodes': 'Set[K]',
          'stk': 'Seq[K]', 'spos': 'Fun[K,int]', 'cstk': 'Seq[K]', 'cj': 'int', 'SW': 'bool', 'wstk': 'Seq[K]', 'wj': 'int'}
    ST.update(ADJ)
    FRAME = ['SI()', 'PI()', 'visiting == old(visiting)', 'visiting_weak == old(visiting_weak)', 'stk == old(stk)', 'subset(old(visited), visited)', 'implies(old(SW), SW)']
    IN = ['SI()', 'PI()', 'visiting == set_add(old(visiting), item)', 'visiting_weak == (set_add(old(visiting_weak), item) if weak_link else old(visiting_weak))',
          'len(stk) == len(old(stk)) + 1 and stk[len(stk) - 1] == item and is_prefix(old(stk), stk)',
          'subset(old(visited), visited)', 'not (item in old(visiting))', 'implies(old(SW), SW)']
    w.contract(TOPO, 'sort_ex.<locals>.visit', view='soft', params={'item': 'K', 'for_control': 'bool', 'weak_link': 'bool'}, state=ST, returns='none',
        requires=['SI()', 'PI()', 'implies(card(visiting_weak) > 0, weak_link)', 'item in nodes',
                  # the edge this call follows (ghost view of the call site): from the top of the stack to `item`, a hard one unless weak_link
                  'implies(len(stk) > 0, EW(stk[len(stk) - 1], item) and implies(not weak_link, E(stk[len(stk) - 1], item)))'],
        modifies=['visiting', 'visiting_weak', 'visited', 'order', 'pos', 'stk', 'spos', 'cstk', 'cj', 'SW', 'wstk', 'wj'],
        ensures=FRAME + ['item in visited or for_control or SW'],
        raises={'CycleError': dict(ensures=FRAME + [
            'CYC_FULL(cstk, cj)',                                   # every cycle error is a closed walk in the full graph
            'implies(not weak_link, CYC_HARD(cstk, cj))'])},        # P3: reached through hard edges only => a hard closed walk
        loops={0: dict(fingerprint='for n in weak_adj[item]', done='done0', invariant=IN + ['SW or subset(done0, visited)']),
               1: dict(fingerprint='for n in adj[item]', done='done1', invariant=IN + ['SW or subset(weak_adj[item], visited)']),
               2: dict(fingerprint='for n in loop_control[item]', done='done2', invariant=IN + ['SW or subset(weak_adj[item], visited)'])},
        ghost_after={'visiting.add(item)': [('stk', 'stk + [item]'), ('spos', 'fun_set(spos, item, len(stk) - 1)')],
                     'visiting.remove(item)': [('stk', 'seq_take(stk, len(stk) - 1)')],
                     'cycle_item = item if len(vis_list) == 0 else vis_list[-1]': [('cstk', 'stk'), ('cj', 'spos[item]')],
                     'pass': [('wstk', 'wstk if SW else cstk'), ('wj', 'wj if SW else cj'), ('SW', 'True')],
                     'order.append(item)': [('pos', 'fun_set(pos, item, len(order) - 1)')]})

    # ---- sort_ex / sort, view `soft`: the adjacency maps hold only edges of the graph (SOUND) and every in-graph weak edge (WCOMPLETE)
    w.define('merge_of2(e)', 'some(e.merge) if not is_none(e.merge) else emptyset(K)')
    w.define('HG(g, x, y)', 'x in g and y in g and (y in g[x].deps or y in merge_of2(g[x]) or y in g[x].loop_control)')         # hard edge of the input graph
    w.define('FG(g, x, y)', 'x in g and y in g and (y in g[x].deps or y in merge_of2(g[x]) or y in g[x].loop_control or y in g[x].weak_deps)')
    w.define('GCYC_HARD(g, s, j)', '0 <= j and j < len(s) and forall(j + 1, len(s), lambda i: HG(g, s[i - 1], s[i])) and HG(g, s[len(s) - 1], s[j])')
    w.define('GCYC_FULL(g, s, j)', '0 <= j and j < len(s) and forall(j + 1, len(s), lambda i: FG(g, s[i - 1], s[i])) and FG(g, s[len(s) - 1], s[j])')
    SOUND = ['forall(K, K, lambda x, d: implies(d in adj[x], x in graph and d in graph and (d in graph[x].deps or d in merge_of2(graph[x]))))',
             'forall(K, K, lambda x, d: implies(d in weak_adj[x], x in graph and d in graph and d in graph[x].weak_deps))',
             'forall(K, K, lambda x, d: implies(d in loop_control[x], x in graph and d in graph and d in graph[x].loop_control))']
    WCOMPLETE = lambda dom: 'forall(K, K, lambda x, d: implies(x in %s and d in graph and d in graph[x].weak_deps, d in weak_adj[x]))' % dom
    OUTER = ['nodes == domain(graph)', 'subset(D0, nodes)', WCOMPLETE('D0')] + SOUND
    CUR = ['item_name in nodes', 'not (item_name in D0)', 'item == graph[item_name]']
    W1 = OUTER + CUR + ['forall(K, lambda d: implies(d in D1 and d in graph, d in weak_adj[item_name]))']
    WD = OUTER + CUR + ['forall(K, lambda d: implies(d in graph and d in item.weak_deps, d in weak_adj[item_name]))']
    GH = {'pos': 'Fun[K,int]', 'nodes': 'Set[K]', 'stk': 'Seq[K]', 'spos': 'Fun[K,int]', 'cstk': 'Seq[K]', 'cj': 'int', 'SW': 'bool', 'wstk': 'Seq[K]', 'wj': 'int'}
    OUTS = ['pos', 'cstk', 'cj', 'SW', 'wstk', 'wj']
    w.contract(TOPO, 'sort_ex', view='soft', params={'graph': 'Map[K,Entry]', 'allow_unresolved': 'bool'}, ghost=GH,
        returns='Seq[Tuple[K,Entry]]', requires=['nodes == domain(graph)', 'len(stk) == 0', 'not SW'],
        ensures=[
            # P4: every in-graph soft dependency is ordered first, unless there is a closed walk through the edges of the graph (witness)
            'SW or forall(K, K, lambda x, d: implies(x in graph and d in graph and d in graph[x].weak_deps, pos[d] < pos[x]))',
            'implies(SW, GCYC_FULL(graph, wstk, wj))',
            'forall(0, len(result), lambda i: pos[result[i][0]] == i)'],
        raises={'UnresolvedReferenceError': dict(only_if=MISSING),
                # P3: a cycle error is reported only for a closed walk through deps / merge / loop_control edges of the graph
                'CycleError': dict(ensures=['GCYC_HARD(graph, cstk, cj)'])},
        loops={0: dict(fingerprint='for (item_name, item) in graph.items()', done='D0', cur='item_name0', invariant=OUTER),
               1: dict(fingerprint='for dep in item.weak_deps', done='D1', invariant=W1),
               2: dict(fingerprint='for merge in item.merge', done='D2', invariant=WD),
               3: dict(fingerprint='for dep in item.deps', done='D3', invariant=WD),
               4: dict(fingerprint='for ctrl in item.loop_control', done='D4', invariant=WD),
               5: dict(fingerprint='for key in graph', done='D5', invariant=['SI()', 'PI()', 'nodes == domain(graph)', 'visiting == emptyset(K) and visiting_weak == emptyset(K)', 'len(stk) == 0',
                                                                          'card(visiting) == 0 and card(visiting_weak) == 0',
                                                                          'SW or subset(D5, visited)', WCOMPLETE('nodes'),
                                                                          'forall(0, len(order), lambda i: pos[order[i]] == i)'] + SOUND)},
        hints={'var_types': {'adj': 'Fun[K,Set[K]]', 'weak_adj': 'Fun[K,Set[K]]', 'loop_control': 'Fun[K,Set[K]]', 'visiting': 'Set[K]', 'visiting_weak': 'Set[K]',
                             'visited': 'Set[K]', 'order': 'Seq[K]'}, 'ghost_out': OUTS})
    w.contract(TOPO, 'sort', view='soft', params={'graph': 'Map[K,Entry]', 'allow_unresolved': 'bool'}, ghost=GH,
        returns='Seq[Obj]', requires=['nodes == domain(graph)', 'len(stk) == 0', 'not SW'],
        ensures=['SW or forall(K, K, lambda x, d: implies(x in graph and d in graph and d in graph[x].weak_deps, pos[d] < pos[x]))',
                 'implies(SW, GCYC_FULL(graph, wstk, wj))'],
        raises={'UnresolvedReferenceError': dict(only_if=MISSING), 'CycleError': dict(ensures=['GCYC_HARD(graph, cstk, cj)'])},
        hints={'ghost_out': OUTS})

def extra_obligations(w, tier, seed):
    """graph construction for SDL declarations (edgeql/declarative.py _register_item): the hard dependencies collected for a declaration are handed to the sorter UNFILTERED --
    in particular a reference of a declaration to itself stays in `deps` (that self-edge is how a recursively defined alias / computed pointer is reported as a cycle), while
    the soft ones exclude the declaration itself.  Shape obligation on the two statements that store them."""
    import ast
    from pyvc import repo
    fn, _ = repo.find_def('edb/edgeql/declarative.py', '_register_item')
    hard = [n for n in ast.walk(fn) if isinstance(n, ast.AugAssign) and ast.unparse(n.target) == 'node.deps']
    weak = [n for n in ast.walk(fn) if isinstance(n, ast.AugAssign) and ast.unparse(n.target) == 'node.weak_deps']
    other = [n.lineno for n in ast.walk(fn) if isinstance(n, ast.Assign) and any(ast.unparse(t) in ('node.deps', 'node.weak_deps') for t in n.targets)]
    removed = [n.lineno for n in ast.walk(fn) if isinstance(n, ast.Call) and isinstance(n.func, ast.Attribute) and n.func.attr in ('discard', 'remove', 'difference_update', 'clear', 'pop')
               and ast.unparse(n.func.value) in ('deps', 'node.deps')]
    ok = len(hard) == 1 and isinstance(hard[0].op, ast.BitOr) and ast.unparse(hard[0].value) == 'deps' and not other and not removed
    definite_bad = (len(hard) == 1 and isinstance(hard[0].value, ast.BinOp) and isinstance(hard[0].value.op, ast.Sub)) or bool(removed)
    # determinism of the SDL ordering: before sorting, sdl_to_ddl normalises every dependency set into an OrderedSet sorted by the FULL qualified name (a total order on
    # names; a key that identifies less -- e.g. the local name -- leaves ties in hash order, which differs between processes)
    fn2, _ = repo.find_def('edb/edgeql/declarative.py', 'sdl_to_ddl')
    norm = [n for n in ast.walk(fn2) if isinstance(n, ast.Assign) and len(n.targets) == 1 and ast.unparse(n.targets[0]) in ('ddlentry.deps', 'ddlentry.weak_deps')]
    okn = len(norm) == 2 and all(ast.unparse(n.value) in ('OrderedSet(sorted(deps))', 'OrderedSet(sorted(weak_deps))') for n in norm)
    badn = [ast.unparse(n) for n in norm if isinstance(n.value, ast.Call) and any(isinstance(c, ast.Call) and ast.unparse(c.func) == 'sorted' and c.keywords for c in ast.walk(n.value))]
    out_extra = [dict(id='scan/sdl_to_ddl/deps-normalised-by-full-name', kind='shape', tag='property', paths=1, status='discharged' if okn else ('failed' if badn else 'unknown'), backend='ast-scan', seconds=0.0,
                      clause='declarative.sdl_to_ddl hands the sorter dependency sets ordered by sorted(<names>) with the default (full qualified name) ordering',
                      model=None if okn else {'offending_source_location': badn or [ast.unparse(n) for n in norm]}, where='; '.join(ast.unparse(n) for n in norm), function='ast-scan')]
    # determinism of the sorter itself: every container whose ITERATION ORDER decides the visit order in topological.sort_ex (the adjacency maps, and whatever else is
    # looped over in sort_ex / visit) keeps insertion order -- a hash-ordered set makes the emitted order (and which cycle is reported) depend on PYTHONHASHSEED
    fn3, _ = repo.find_def('edb/common/topological.py', 'sort_ex')
    factories = {}
    for n in ast.walk(fn3):
        tgt = n.targets[0] if isinstance(n, ast.Assign) and len(n.targets) == 1 else (n.target if isinstance(n, ast.AnnAssign) else None)
        val = getattr(n, 'value', None)
        if isinstance(tgt, ast.Name) and isinstance(val, ast.Call):
            f = ast.unparse(val.func)
            if f == 'defaultdict' and val.args: factories[tgt.id] = ('elem', ast.unparse(val.args[0]))
            elif f in ('set', 'frozenset', 'OrderedSet', 'list', 'dict'): factories[tgt.id] = ('self', f)
        elif isinstance(tgt, ast.Name) and isinstance(val, (ast.Set, ast.SetComp)): factories[tgt.id] = ('self', 'set')
    iterated = []
    for n in ast.walk(fn3):
        its = [n.iter] if isinstance(n, ast.For) else [g.iter for g in n.generators] if isinstance(n, (ast.ListComp, ast.GeneratorExp, ast.SetComp, ast.DictComp)) else []
        for it in its:
            base = it
            while isinstance(base, (ast.Subscript, ast.Call, ast.Attribute)):
                base = base.value if isinstance(base, (ast.Subscript, ast.Attribute)) else base.func
            if isinstance(base, ast.Name) and base.id in factories:
                kind, f = factories[base.id]
                if (kind == 'elem' and isinstance(it, ast.Subscript)) or (kind == 'self' and isinstance(it, ast.Name)): iterated.append((n.lineno, ast.unparse(it), f))
    bad_it = ['line %d: iterates %s (%s)' % x for x in iterated if x[2] in ('set', 'frozenset')]
    adj_ok = all(factories.get(nm) == ('elem', 'OrderedSet') for nm in ('adj', 'weak_adj', 'loop_control'))
    ok3 = adj_ok and not bad_it and len(iterated) >= 3
    out_extra.append(dict(id='scan/sort_ex/iteration-order-is-insertion-order', kind='shape', tag='property', paths=1, status='discharged' if ok3 else ('failed' if bad_it else 'unknown'), backend='ast-scan', seconds=0.0,
                      clause='topological.sort_ex: the adjacency maps are defaultdict(OrderedSet) and no hash-ordered set is iterated in sort_ex / visit (the emitted order is a function of the input order)',
                      model=None if ok3 else {'offending_source_location': bad_it or sorted(factories.items())}, where='; '.join(bad_it) or '%d iterations over ordered containers' % len(iterated), function='ast-scan'))
    return out_extra + [dict(id='scan/_register_item/hard-deps-unfiltered', kind='shape', tag='property', paths=1, status='discharged' if ok else ('failed' if definite_bad else 'unknown'), backend='ast-scan', seconds=0.0,
                 clause='declarative._register_item stores the collected hard dependencies with `node.deps |= deps` (nothing subtracted, self-references included); only weak_deps exclude the declaration itself',
                 model=None if ok else {'offending_source_location': [ast.unparse(n) for n in hard] + removed}, where='; '.join(ast.unparse(n) for n in hard + weak), function='ast-scan')]

def scenarios(tier, seed, repo_root, outdir):
    """bounded stand-in: small graphs through the real sort / normalize, against the property text"""
    import os, json, subprocess
    here = os.path.dirname(os.path.abspath(__file__)); root = os.path.dirname(os.path.dirname(here))
    out = os.path.join(outdir, 'scenario_out.json')
    if os.path.exists(out): os.unlink(out)
    nmax, nrand, nrmax = (2, 20000, 5) if tier == 'quick' else (3, 200000, 7)
    env = dict(os.environ); env['PYTHONPATH'] = '%s:%s' % (os.path.join(root, 'stubs'), repo_root); env['VERIF_REPO'] = repo_root
    p = subprocess.run(['/venv/bin/python', os.path.join(here, 'scenario.py'), str(seed), str(nmax), str(nrand), str(nrmax), out], capture_output=True, text=True, env=env, cwd=repo_root, timeout=3000)
    if not os.path.exists(out): raise RuntimeError('scenario runner failed: ' + (p.stderr or p.stdout)[-2000:])
    r = json.load(open(out))
    if not r['failure'] and r.get('caller_runs', 0) < 100: raise RuntimeError('caller-level explorer is vacuous: %r' % r.get('caller_runs'))
    return dict(evaluations=r['graphs'] + r.get('caller_runs', 0), failure=r['failure'],
                label='the real schema.delta.sort_by_inheritance on every inheritance DAG <= 4 types x subsets x input orders; all graphs <= %d nodes with every ordered pair labelled none/dep/merge/weak (+ missing references) and %d random graphs <= %d nodes (bounded)' % (nmax, nrand, nrmax),
                clause='each item once, after all hard dependencies; CycleError iff hard graph cyclic; soft edges honoured when acyclic; unresolved references; normalize')
