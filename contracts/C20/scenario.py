"""C20 bounded stand-in / counterexample finder (native; never counted as proof).

All graphs with <= N nodes where every ordered pair (x, y) is labelled none / hard dep / merge / weak dep
(plus references to one missing node), run through the REAL topological.sort / sort_ex / normalize, checked against
the property text: every item exactly once, each item after all its in-graph hard (deps and merge) dependencies,
CycleError exactly when the hard graph is cyclic, weak dependencies honoured when hard+weak is acyclic,
UnresolvedReferenceError iff a reference is missing and allow_unresolved is false, normalize never hits an unmerged base.
usage: scenario.py <seed> <max_nodes_exhaustive> <n_random> <max_nodes_random> <out.json>
"""
import sys, json, random, itertools
from edb.common import topological as T

def has_cycle(n, edges):
    color = [0] * n
    adj = [[] for _ in range(n)]
    for a, b in edges: adj[a].append(b)
    def dfs(u):
        color[u] = 1
        for v in adj[u]:
            if color[v] == 1: return True
            if color[v] == 0 and dfs(v): return True
        color[u] = 2; return False
    return any(color[u] == 0 and dfs(u) for u in range(n))

def check(n, lab, missing):
    """lab[(a,b)] in 0..4: 0 none, 1 dep, 2 merge, 3 weak, 4 loop_control ; missing: set of (a, kind) references to the absent node 'Z'"""
    names = ['n%d' % i for i in range(n)]
    def build(two_phase=False):
        """two_phase: the way edb/schema/ordering.py builds its graph -- entries are created with EMPTY ordered containers that are filled afterwards"""
        from edb.common.ordered import OrderedSet
        g = {}; fills = []
        for a in range(n):
            deps = [names[b] for b in range(n) if lab.get((a, b)) in (1, 5)]
            merge = [names[b] for b in range(n) if lab.get((a, b)) == 2]
            weak = [names[b] for b in range(n) if lab.get((a, b)) in (3, 5)]         # label 5: the same target is both a hard and a soft dependency
            ctrl = [names[b] for b in range(n) if lab.get((a, b)) == 4]
            for (x, kind) in missing:
                if x == a: (deps if kind == 1 else merge if kind == 2 else weak).append('Z')
            has_merge = bool(merge) or any(x == a and k == 2 for x, k in missing)
            if two_phase:
                d_, w_, c_ = OrderedSet(), OrderedSet(), OrderedSet(); m_ = OrderedSet() if has_merge else None
                g[names[a]] = T.DepGraphEntry(item=('item', names[a]), deps=d_, merge=m_, weak_deps=w_, loop_control=c_)
                fills.append((d_, deps)); fills.append((w_, weak)); fills.append((c_, ctrl))
                if m_ is not None: fills.append((m_, merge))
            else:
                g[names[a]] = T.DepGraphEntry(item=('item', names[a]), deps=set(deps), merge=set(merge) if has_merge else None, weak_deps=set(weak), loop_control=set(ctrl))
        for cont, xs in fills:
            for x in xs: cont.add(x)
        return g
    hard = [(a, b) for (a, b), l in lab.items() if l in (1, 2, 5)]
    weak = [(a, b) for (a, b), l in lab.items() if l == 3]
    ctrl = [(a, b) for (a, b), l in lab.items() if l == 4]      # loop_control: takes part in cycle detection, does not order
    for allow, two_phase in ((False, False), (True, False), (False, True)):
        g = build(two_phase)
        try:
            res = T.sort(g, allow_unresolved=allow); exc = None
        except Exception as e:
            res = None; exc = e
        if missing and not allow:
            if not isinstance(exc, T.UnresolvedReferenceError): return 'expected UnresolvedReferenceError, got %r' % (exc or res,)
            continue
        if isinstance(exc, T.UnresolvedReferenceError): return 'UnresolvedReferenceError although nothing is missing or allow_unresolved'
        cyc = has_cycle(n, hard + ctrl)
        if cyc:
            if not isinstance(exc, T.CycleError): return 'hard dependencies are cyclic but got %r' % (exc or res,)
            continue
        if exc is not None: return 'hard dependencies are acyclic but got %r' % (exc,)
        if sorted(res) != sorted(('item', x) for x in names): return 'not every item exactly once: %r' % (res,)
        posn = {x[1]: i for i, x in enumerate(res)}
        for a, b in hard:
            if posn[names[b]] > posn[names[a]]: return '%s is ordered before its hard dependency %s: %r' % (names[a], names[b], res)
        if not has_cycle(n, hard + weak + ctrl):
            for a, b in weak:
                if posn[names[b]] > posn[names[a]]: return 'soft dependency %s -> %s not honoured although hard+soft is acyclic: %r' % (names[a], names[b], res)
        if not missing:
            merged_before = []
            def merger(item, parent, **kw): merged_before.append((item, parent))
            try: list(T.normalize(build(), merger))
            except KeyError as e: return 'normalize looked up a base that was not merged yet: KeyError %s' % e
    return None

def callers(rnd):
    """a caller that builds its graph from schema objects: the REAL edb.schema.delta.sort_by_inheritance on stand-in objects that only know their bases / ancestors.
    All inheritance DAGs on <= 4 types (bases among earlier types), every subset of the types in several input orders (the function is handed an arbitrary subset of a
    hierarchy, e.g. the objects altered by a migration): each object comes after every one of its ancestors that is present, each object exactly once."""
    from edb.schema import delta as sd
    class Coll:
        def __init__(self, xs): self.xs = tuple(xs)
        def objects(self, schema): return self.xs
    class Ty:
        def __init__(self, name): self.name = name; self.bases = []; self.anc = []
        def get_bases(self, schema): return Coll(self.bases)
        def get_ancestors(self, schema): return Coll(self.anc)
        def __repr__(self): return self.name
    n_runs = 0
    for n in range(1, 5):
        slots = [(a, b) for a in range(n) for b in range(a)]          # a may extend an earlier b
        for bits in itertools.product([0, 1], repeat=len(slots)):
            tys = [Ty('T%d' % i) for i in range(n)]
            for (a, b), on in zip(slots, bits):
                if on: tys[a].bases.append(tys[b])
            for t in tys:                                               # ancestors: transitive closure, nearest first
                seen = []; todo = list(t.bases)
                while todo:
                    x = todo.pop(0)
                    if x not in seen: seen.append(x); todo.extend(x.bases)
                t.anc = seen
            for k in range(1, n + 1):
                for sub in itertools.combinations(range(n), k):
                    orders = [sub, tuple(reversed(sub))] + ([tuple(rnd.sample(sub, len(sub)))] if k > 2 else [])
                    for order in orders:
                        n_runs += 1
                        objs = [tys[i] for i in order]
                        try: res = list(sd.sort_by_inheritance(None, objs))
                        except Exception as e: return n_runs, dict(problem='sort_by_inheritance raised %r' % (e,), bases={t.name: [b.name for b in t.bases] for t in tys}, input=[t.name for t in objs])
                        if sorted(map(repr, res)) != sorted(map(repr, objs)):
                            return n_runs, dict(problem='result %r is not a permutation of the input' % (res,), bases={t.name: [b.name for b in t.bases] for t in tys}, input=[t.name for t in objs])
                        pos = {t: i for i, t in enumerate(res)}
                        for t in objs:
                            for a in t.anc:
                                if a in pos and pos[a] > pos[t]:
                                    return n_runs, dict(problem='%r is ordered before its ancestor %r (result %r)' % (t, a, res), bases={x.name: [b.name for b in x.bases] for x in tys}, input=[x.name for x in objs])
    # cross-reference ordering: the REAL delta.sort_by_cross_refs on objects that only know who refers to them; every small reference graph (<= 3 objects, self-references
    # included), handed over as a list and as a single-pass iterator (what ChainedSchema.get_objects() yields): referrers come after what they refer to, each object once,
    # CycleError exactly when the references are cyclic (a self-reference is a cycle)
    class Ob:
        def __init__(self, name): self.name = name
        def is_parent_ref(self, schema, ref): return False
        def __repr__(self): return self.name
    class Sch:
        def __init__(self, refs): self.refs = refs
        def get_referrers(self, x): return frozenset(self.refs.get(x, ()))
    from edb.common import topological as T2
    for n in range(1, 4):
        pairs = [(a, b) for a in range(n) for b in range(n)]
        for bits in itertools.product([0, 1], repeat=len(pairs)):
            obs = [Ob('o%d' % i) for i in range(n)]
            refs = {}      # refs[x] = objects that refer to x (they must come after x)
            for (a, b), on in zip(pairs, bits):
                if on: refs.setdefault(obs[b], set()).add(obs[a])      # a refers to b
            edges = [(a, b) for (a, b), on in zip(pairs, bits) if on]
            cyclic = has_cycle(n, edges)
            for mode in ('list', 'iterator'):
                n_runs += 1
                inp = list(obs) if mode == 'list' else iter(list(obs))
                try: res = list(sd.sort_by_cross_refs(Sch(refs), inp)); raised = False
                except T2.CycleError: raised = True
                except Exception as e: return n_runs, dict(problem='sort_by_cross_refs raised %r' % (e,), references=[(obs[a].name, obs[b].name) for a, b in edges], input=mode)
                if raised != cyclic:
                    return n_runs, dict(problem='references %s, input as %s: CycleError %s although the references are %s' % (
                        [(obs[a].name, obs[b].name) for a, b in edges], mode, 'raised' if raised else 'not raised', 'cyclic' if cyclic else 'acyclic'))
                if not raised:
                    if sorted(map(repr, res)) != sorted(map(repr, obs)): return n_runs, dict(problem='result %r is not a permutation of the input' % (res,), input=mode)
                    pos = {o: i for i, o in enumerate(res)}
                    for a, b in edges:
                        # graph[x].deps = referrers of x: the sorter places x AFTER its deps, i.e. after the objects referring to it
                        if pos[obs[b]] < pos[obs[a]] and a != b:
                            return n_runs, dict(problem='%r is placed before %r, which refers to it (result %r)' % (obs[b], obs[a], res), input=mode)
    return n_runs, None

def main():
    seed, nmax, nrand, nrmax, out = int(sys.argv[1]), int(sys.argv[2]), int(sys.argv[3]), int(sys.argv[4]), sys.argv[5]
    rnd = random.Random(seed); res = dict(graphs=0, failure=None)
    res['caller_runs'], cf = callers(rnd)
    if cf:
        res['failure'] = dict(kind='sort_by_inheritance', **cf); json.dump(res, open(out, 'w'), indent=1); return
    def go(n, lab, missing):
        res['graphs'] += 1
        f = check(n, lab, missing)
        if f: res['failure'] = dict(nodes=n, labels={'%d->%d' % k: ['none', 'dep', 'merge', 'weak', 'loop_control', 'dep+weak'][v] for k, v in lab.items() if v}, missing=sorted(missing), problem=f)
        return f
    done = False
    for n in range(1, nmax + 1):
        pairs = [(a, b) for a in range(n) for b in range(n)]
        for labs in itertools.product(range(6 if n <= 2 else 4), repeat=len(pairs)):      # (loop_control labels exhaustively up to 2 nodes, randomly beyond)
            if go(n, dict(zip(pairs, labs)), set()): done = True; break
        if done: break
        for a in range(n):
            for kind in (1, 2, 3):
                if go(n, {}, {(a, kind)}): done = True; break
    if not done:
        for _ in range(nrand):
            n = rnd.randint(3, nrmax); pairs = [(a, b) for a in range(n) for b in range(n)]
            lab = {p: rnd.choice([0, 0, 0, 0, 1, 2, 3, 3, 4, 5] if rnd.random() < 0.5 else [0, 0, 0, 1, 2, 3]) for p in pairs}
            if go(n, lab, set()): break
    json.dump(res, open(out, 'w'), indent=1)

if __name__ == '__main__':
    main()
