"""C14 bounded stand-in (native; never counted as proof).

Random type trees (scalars, enums, named / unnamed tuples, arrays, ranges, multiranges, nested) and parameter lists are
built as REAL schema objects, described with the REAL sertypes.describe / describe_params for protocol 1.0, 2.0 and 3.0,
decoded again with the REAL sertypes.parse, and compared with the structure that was described: names, element order,
element types, tuple / array / range structure, enum labels, parameter cardinalities.  Across all described types:
equal descriptor ids imply byte-identical descriptors; structurally different types get different ids (the recorded
':'-join collision class is excluded by construction); descriptor streams have no duplicate ids and every back
reference points to an earlier descriptor.
usage: scenario.py <seed> <n_types> <out.json>
"""
import sys, json, random, struct, uuid
from edb.server.compiler import sertypes, enums
from edb.schema import modules as s_mod, name as sn, objects as so, scalars as s_scalars, schema as s_schema, types as s_types
from edb.protocol import enums as p_enums

def base_schema():
    schema = s_schema.EMPTY_SCHEMA
    for m in ('std', 'default'):
        schema, _ = s_mod.Module.create_in_schema(schema, stable_ids=True, name=sn.UnqualName(m))
    scalars = {}
    def mk(schema, name, **kw):
        return s_scalars.ScalarType.create_in_schema(schema, stable_ids=True, name=sn.QualName(*name.split('::')),
                                                     bases=so.ObjectList.create(schema, []), ancestors=so.ObjectList.create(schema, []), **kw)
    for n in ('std::str', 'std::int64', 'std::bool', 'std::float64'):
        schema, scalars[n] = mk(schema, n)
    schema, scalars['default::Color'] = mk(schema, 'default::Color', enum_values=['Red', 'Green', 'Blue'])
    schema, scalars['default::Stimmung'] = mk(schema, 'default::Stimmung', enum_values=['fröhlich', 'müde', '悲しい'])
    schema, scalars['default::Size'] = mk(schema, 'default::Size', enum_values=['S', 'M'])
    return schema, scalars

def gen_type(schema, scalars, rnd, depth=0):
    """returns (schema, type, structure) ; structure is a nested python description"""
    kinds = ['scalar', 'scalar', 'enum', 'tuple', 'ntuple', 'array', 'range'] if depth < 3 else ['scalar', 'enum']
    k = rnd.choice(kinds)
    if k == 'scalar':
        n = rnd.choice(['std::str', 'std::int64', 'std::bool', 'std::float64']); return schema, scalars[n], ('scalar', n)
    if k == 'enum':
        n = rnd.choice(['default::Color', 'default::Size', 'default::Stimmung']); return schema, scalars[n], ('enum', n, tuple(scalars[n].get_enum_values(schema)))
    if k == 'tuple' and rnd.random() < 0.15:      # the empty tuple
        schema, t = s_types.Tuple.create(schema, element_types={}, named=False)
        return schema, t, ('tuple', ())
    if k in ('tuple', 'ntuple'):
        n = rnd.randint(1, 3); subs = []; sts = []
        for _ in range(n):
            schema, t, st = gen_type(schema, scalars, rnd, depth + 1); subs.append(t); sts.append(st)
        if k == 'tuple':
            schema, t = s_types.Tuple.create(schema, element_types={str(i): s for i, s in enumerate(subs)}, named=False)
            return schema, t, ('tuple', tuple(sts))
        names = rnd.sample(['a', 'b', 'lo', 'hi', 'label', 'x1', 'größe', 'имя'], n)
        schema, t = s_types.Tuple.create(schema, element_types=dict(zip(names, subs)), named=True)
        return schema, t, ('ntuple', tuple(zip(names, sts)))
    if k == 'array':
        schema, el, st = gen_type(schema, scalars, rnd, 3)      # arrays of scalars / enums only (nested arrays are not valid)
        schema, t = s_types.Array.create(schema, element_type=el, dimensions=[-1]); return schema, t, ('array', st)
    n = rnd.choice(['std::int64', 'std::float64'])
    schema, t = s_types.Range.create(schema, element_type=scalars[n]); return schema, t, ('range', ('scalar', n))

def structure_of(d):
    """structure of a parsed TypeDesc, comparable with gen_type's structure"""
    S = sertypes
    if isinstance(d, S.EnumDesc): return ('enum', getattr(d, 'name', None), tuple(d.names))
    if isinstance(d, (S.ScalarDesc, S.BaseScalarDesc)): return ('scalar', getattr(d, 'name', None))
    if isinstance(d, S.NamedTupleDesc): return ('ntuple', tuple((n, structure_of(t)) for n, t in d.fields.items()))
    if isinstance(d, S.TupleDesc): return ('tuple', tuple(structure_of(t) for t in d.fields))
    if isinstance(d, S.ArrayDesc): return ('array', structure_of(d.subtype))
    if isinstance(d, S.RangeDesc): return ('range', structure_of(d.inner))
    if isinstance(d, S.SetDesc): return ('set', structure_of(d.subtype))
    if isinstance(d, S.ShapeDesc): return ('shape', tuple((n, structure_of(t), d.cardinalities[n]) for n, t in d.fields.items()))
    return ('other', type(d).__name__)

def erase_names(st, pv):
    """protocol < 2.0 descriptors carry no type names"""
    if st[0] == 'scalar': return ('scalar', st[1] if pv >= (2, 0) else None)
    if st[0] == 'enum': return ('enum', st[1] if pv >= (2, 0) else None, st[2])
    if st[0] == 'tuple': return ('tuple', tuple(erase_names(x, pv) for x in st[1]))
    if st[0] == 'ntuple': return ('ntuple', tuple((n, erase_names(x, pv)) for n, x in st[1]))
    if st[0] in ('array', 'range', 'set'): return (st[0], erase_names(st[1], pv))
    if st[0] == 'shape': return ('shape', tuple((n, erase_names(x, pv), c) for n, x, c in st[1]))
    return st

def walk(data, pv):
    """independent minimal walk of a descriptor stream: list of (tag, id, bytes) of the top-level descriptors (protocol >= 2.0 only)"""
    out = []; i = 0
    while i < len(data):
        ln = struct.unpack('!L', data[i:i + 4])[0]; body = data[i + 4:i + 4 + ln]
        out.append((body[0], bytes(body[1:17]), bytes(body))); i += 4 + ln
    return out

def shapes(schema, scalars, rnd, n, res, fail):
    """object shapes over a small real object-type hierarchy: pointers of random names (including ':' in names), targets,
    cardinalities, polymorphic sources; described, parsed back, ids compared across all shapes"""
    from edb.schema import objtypes as s_objtypes, properties as s_props
    from edb.edgeql import qltypes
    def mko(schema, name, bases=()):
        return s_objtypes.ObjectType.create_in_schema(schema, stable_ids=True, name=sn.QualName('default', name),
            bases=so.ObjectList.create(schema, list(bases)), ancestors=so.ObjectList.create(schema, list(bases)))
    schema, Base = mko(schema, 'Base'); schema, A = mko(schema, 'A', [Base]); schema, B = mko(schema, 'B', [Base])
    ptrs = {}
    NAMES = ['x', 'y', 'a:b', 'c', 'a', 'b:c', 'größe']
    for src in (Base, A, B):
        for nm in NAMES:
            for tn in ('std::str', 'std::int64'):
                for req, card in ((True, qltypes.SchemaCardinality.One), (False, qltypes.SchemaCardinality.One), (False, qltypes.SchemaCardinality.Many)):
                    pname = sn.QualName('default', sn.get_specialized_name(sn.QualName('default', nm), str(src.get_name(schema)) + tn + str(req) + str(card)))
                    schema, p_ = s_props.Property.create_in_schema(schema, stable_ids=True, name=pname, source=src, target=scalars[tn],
                        bases=so.ObjectList.create(schema, []), ancestors=so.ObjectList.create(schema, []), required=req, cardinality=card)
                    ptrs[(src, nm, tn, req, card)] = p_
    keys = list(ptrs); by_id = {}
    res['shapes'] = 0
    for it in range(n):
        k = rnd.randint(1, 3); chosen = []; used = set()
        while len(chosen) < k:
            key = rnd.choice(keys)
            if key[1] in used: continue
            used.add(key[1]); chosen.append(key)
        st = tuple((key[1], key[2], key[3], str(key[4]), str(key[0].get_name(schema))) for key in chosen)
        res['shapes'] += 1
        for pv in ((1, 0), (2, 0), (3, 0)):
            try:
                data, tid = sertypes.describe(schema, Base, view_shapes={Base: [ptrs[key] for key in chosen]}, protocol_version=pv)
                d = sertypes.parse(data, pv)
            except Exception as e:
                fail(kind='describe/parse(shape)', structure=repr(st), protocol=pv, problem='exception %r' % (e,)); return
            if not isinstance(d, sertypes.ShapeDesc) or list(d.fields) != [key[1] for key in chosen]:
                fail(kind='faithfulness(shape)', structure=repr(st), protocol=pv, problem='decoded element names %r' % (list(getattr(d, 'fields', ())),)); return
            for key in chosen:
                sub = d.fields[key[1]]; exp_card = (p_enums.Cardinality.MANY if key[4] is qltypes.SchemaCardinality.Many else
                                                      (p_enums.Cardinality.ONE if key[3] else p_enums.Cardinality.AT_MOST_ONE))
                if d.cardinalities[key[1]].value != exp_card.value:
                    fail(kind='faithfulness(shape)', structure=repr(st), protocol=pv, problem='cardinality of %r decoded as %r' % (key[1], d.cardinalities[key[1]])); return
                inner = sub.subtype if isinstance(sub, sertypes.SetDesc) else sub
                if (key[4] is qltypes.SchemaCardinality.Many) != isinstance(sub, sertypes.SetDesc) or inner.tid != scalars[key[2]].id:
                    fail(kind='faithfulness(shape)', structure=repr(st), protocol=pv, problem='element %r decoded with type %r' % (key[1], sub)); return
            kk = (pv, tid)
            if kk in by_id and by_id[kk][0] != data:
                fail(kind='uniqueness(shape)', structure=repr(st), protocol=pv, problem='shape %r has the same id but a different descriptor' % (by_id[kk][1],)); return
            by_id[kk] = (data, st)

def namelists(res, fail):
    """the hashed pre-image of element names must be injective: all lists of <= 3 names of <= 3 characters over {a : \\}"""
    import itertools
    if not hasattr(sertypes, '_join_names'):
        join = lambda ns: ':'.join(ns)
    else: join = sertypes._join_names
    alpha = ['a', ':', '\\']
    names = [''.join(t) for k in range(1, 4) for t in itertools.product(alpha, repeat=k)]
    seen = {}; res['namelists'] = 0
    for k in range(1, 4):
        for ns in itertools.product(names, repeat=k):
            res['namelists'] += 1
            j = join(ns)
            if j in seen and seen[j] != ns:
                fail(kind='uniqueness(id pre-image)', structure=repr(ns), protocol=None, problem='element names %r and %r are hashed through the same joined string %r' % (seen[j], ns, j)); return
            seen[j] = ns

def shape_ids(res, fail):
    """the content-derived shape id must tell apart any two argument tuples of _get_object_shape_id that differ in what the descriptor shows:
    element types, names, cardinalities, per-element source types, link / link-property flags (all small argument tuples)"""
    import itertools, uuid
    from edb.server.compiler import enums
    U = [uuid.UUID(int=i + 1) for i in range(3)]
    cards = [enums.Cardinality.ONE, enums.Cardinality.AT_MOST_ONE, enums.Cardinality.MANY]
    seen = {}; res['shape_ids'] = 0
    for k in (1, 2, 3):
        for subtypes in itertools.product(U[:2], repeat=k):
            for names in itertools.product(['a', 'b', 'c'], repeat=k):
                if len(set(names)) != k: continue
                for cs in itertools.product(cards[:2] if k == 3 else cards, repeat=k):
                    for sources in ([None] + list(itertools.product(U, repeat=k))):
                        for flags in ((None, None), ([False] * k, [True] + [False] * (k - 1)), ([True] + [False] * (k - 1), [False] * k)):
                            args = (tuple(subtypes), tuple(names), tuple(cs), None if sources is None else tuple(sources), None if flags[0] is None else tuple(flags[0]), None if flags[1] is None else tuple(flags[1]))
                            i = sertypes._get_object_shape_id('T', list(subtypes), list(names), list(cs), links_props=flags[0], links=flags[1], sources=None if sources is None else list(sources))
                            res['shape_ids'] += 1
                            if i in seen and seen[i] != args:
                                fail(kind='uniqueness(shape id)', structure=repr(args), protocol=None,
                                     problem='_get_object_shape_id gives %s for two different shapes: (subtypes, names, cardinalities, sources, links_props, links) = %r and %r' % (i, seen[i], args)); return
                            seen[i] = args

def main():
    seed, n, out = int(sys.argv[1]), int(sys.argv[2]), sys.argv[3]
    rnd = random.Random(seed); res = dict(types=0, params=0, failure=None)
    schema, scalars = base_schema()
    by_id = {}      # (pv, id) -> (bytes, structure)
    def fail(**kw):
        if not res['failure']: res['failure'] = kw
    for it in range(n):
        schema, t, st = gen_type(schema, scalars, rnd)
        res['types'] += 1
        for pv in ((1, 0), (2, 0), (3, 0)):
            try:
                data, tid = sertypes.describe(schema, t, protocol_version=pv)
                d = sertypes.parse(data, pv)
            except Exception as e:
                fail(kind='describe/parse', structure=repr(st), protocol=pv, problem='exception %r' % (e,)); break
            got = structure_of(d)
            if got != erase_names(st, pv):
                fail(kind='faithfulness', structure=repr(st), protocol=pv, problem='decoded as %r' % (got,)); break
            if d.tid != tid: fail(kind='faithfulness', structure=repr(st), protocol=pv, problem='root id differs')
            key = (pv, tid)
            if key in by_id and by_id[key][1] == st and by_id[key][0] != data: fail(kind='uniqueness', structure=repr(st), protocol=pv, problem='same type described twice with different bytes')
            if key in by_id and by_id[key][1] != st: fail(kind='uniqueness', structure=repr(st), protocol=pv, problem='structurally different type %r has the same id' % (by_id[key][1],))
            by_id[key] = (data, st)
            if pv >= (2, 0):
                ds = walk(data, pv); ids = [x[1] for x in ds]
                if len(set(ids)) != len(ids): fail(kind='stream', structure=repr(st), protocol=pv, problem='descriptor stream repeats an id')
        if res['failure']: break
        # parameters: 1-3 params of generated types with random optionality
        k = rnd.randint(1, 3); params = []; pst = []
        for j in range(k):
            schema, pt, ps = gen_type(schema, scalars, rnd, 2)
            req = rnd.random() < 0.5
            nm = rnd.choice(['x', 'y', 'lo', 'größe', 'arg%d' % j]) + str(j)
            params.append((nm, pt, req)); pst.append((nm, ps, p_enums.Cardinality.ONE if req else p_enums.Cardinality.AT_MOST_ONE))
        res['params'] += 1
        for pv in ((1, 0), (2, 0), (3, 0)):
            try:
                data, pid = sertypes.describe_params(schema=schema, params=params, protocol_version=pv)
                d = sertypes.parse(data, pv)
            except Exception as e:
                fail(kind='describe_params/parse', structure=repr(pst), protocol=pv, problem='exception %r' % (e,)); break
            got = structure_of(d); exp = erase_names(('shape', tuple(pst)), pv)
            if got != exp: fail(kind='faithfulness(params)', structure=repr(pst), protocol=pv, problem='decoded as %r' % (got,)); break
            key = (pv, 'P', pid); val = (data, tuple((n_, repr(s_), str(c)) for n_, s_, c in pst))
            if key in by_id and by_id[key][1] != val[1]: fail(kind='uniqueness(params)', structure=repr(pst), protocol=pv, problem='different parameter shape %r has the same id' % (by_id[key][1],))
            if key in by_id and by_id[key][1] == val[1] and by_id[key][0] != data: fail(kind='uniqueness(params)', structure=repr(pst), protocol=pv, problem='equal ids with different bytes')
            by_id[key] = val
        if res['failure']: break
    # optionality alone must change the parameter shape id (equal ids imply byte-identical descriptors)
    if not res['failure']:
        for pv in ((1, 0), (2, 0), (3, 0)):
            a = sertypes.describe_params(schema=schema, params=[('x', scalars['std::str'], True)], protocol_version=pv)
            b = sertypes.describe_params(schema=schema, params=[('x', scalars['std::str'], False)], protocol_version=pv)
            if a[1] == b[1] and a[0] != b[0]: fail(kind='uniqueness(params)', structure='<str>$x vs <optional str>$x', protocol=pv, problem='equal descriptor ids with different contents')
    if not res['failure']: shapes(schema, scalars, rnd, max(20, n // 3), res, fail)
    if not res['failure']: namelists(res, fail)
    if not res['failure']: shape_ids(res, fail)
    json.dump(res, open(out, 'w'), indent=1, default=str)

if __name__ == '__main__':
    main()
