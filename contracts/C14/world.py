"""C14 sidecar contracts: binary type descriptors (edb/server/compiler/sertypes.py, encoder side).

What the contracts decide, for every schema type, every nesting depth and every protocol version
(induction over the recursion of `_describe_type`; its contract DT is the induction hypothesis, assumed at the
recursive call sites and proved for every registered implementation):

  CI   one descriptor per registered id:  len(ctx.buffer) == k * len(ctx.uuid_to_pos)  with k = 2 for protocol >= 2.0
       (length prefix + descriptor), k = 1 before.  A descriptor emitted twice for one id breaks CI -- this is the
       "equal ids imply one (hence byte-identical) descriptor in the stream" half of the property.
  POS  positions are in range:  0 <= uuid_to_pos[u] < len(uuid_to_pos)   and
  INJ  injective:  distinct ids have distinct positions        => uuid_to_pos is a bijection onto 0..n-1,
       the i-th descriptor of the stream is the one of the id with position i.
  REF  every type reference written into a descriptor (`_type_ref_id_packer`) is the position of an id that is already
       registered, hence smaller than the position the descriptor under construction will get:  the decoder's
       `codecs_list[pos]` lookup is always defined and refers to the intended type.
  MONO a registered id keeps its position for the rest of the stream.

Content-derived ids (`_get_collection_type_id`, `_get_object_shape_id`, `_get_set_type_id`): that every value a
descriptor's bytes depend on is hashed into the id is decided by the dependency scan in extra_obligations();
injectivity of the ':' / NUL joined hash pre-image is *not* a theorem of the code (see known finding C14-KF1).

Faithfulness of the decoded structure (describe -> parse round trip) is covered by the bounded explorer in
scenario.py (labelled bounded).
"""
import ast, os
from pyvc.engine import World
from pyvc import repo

SER = 'edb/server/compiler/sertypes.py'

PV2 = 'ctx.protocol_version >= (2, 0)'
CI = 'len(ctx.buffer) == (2 * len(ctx.uuid_to_pos) if %s else len(ctx.uuid_to_pos))' % PV2
POS = 'forall(Obj, lambda u: implies(u in ctx.uuid_to_pos, 0 <= ctx.uuid_to_pos[u] and ctx.uuid_to_pos[u] < len(ctx.uuid_to_pos)))'
INJ = 'forall(Obj, Obj, lambda u, v: implies(u in ctx.uuid_to_pos and v in ctx.uuid_to_pos and u != v, ctx.uuid_to_pos[u] != ctx.uuid_to_pos[v]))'
MONO = 'forall(Obj, lambda u: implies(old(u in ctx.uuid_to_pos), u in ctx.uuid_to_pos and ctx.uuid_to_pos[u] == old(ctx.uuid_to_pos[u])))'
GROW = 'len(ctx.uuid_to_pos) >= old(len(ctx.uuid_to_pos))'
EMPTYSAME = 'map_same(ctx.uuid_to_pos, old(ctx.uuid_to_pos)) and len(ctx.uuid_to_pos) == old(len(ctx.uuid_to_pos))'
PVSAME = 'ctx.protocol_version == old(ctx.protocol_version)'
WF = [CI, POS, INJ]
CTXMOD = ['Ctx.buffer', 'Ctx.uuid_to_pos', 'Ctx.anno_buffer', 'Ctx.schema']
DT_ENS = WF + [MONO, 'result in ctx.uuid_to_pos', 'len(ctx.uuid_to_pos) >= old(len(ctx.uuid_to_pos))']

def build():
    w = World('C14')
    w.refclass('Obj', {'bytes': 'bytes', 'id': 'Obj', 'name': 'str', 'has_implicit_id': 'bool'}, universal=True)
    w.refclass('Ctx', {'schema': 'Obj', 'protocol_version': 'Tuple[int,int]', 'buffer': 'Seq[bytes]', 'anno_buffer': 'Seq[bytes]',
                       'uuid_to_pos': 'Map[Obj,int]', 'inline_typenames': 'bool', 'inline_typeids': 'bool', 'follow_links': 'bool',
                       'name_filter': 'str', 'view_shapes': 'Map[Obj,Seq[Obj]]', 'view_shapes_metadata': 'Map[Obj,Obj]'}, SER, 'Context')
    w.enum('DescriptorTag', SER, 'DescriptorTag')
    w.enum('CompoundOp', SER, 'CompoundOp')
    w.enum('Cardinality', 'edb/protocol/enums.py', 'Cardinality')
    w.ufunc('refpos', ['bytes'], 'int')     # the position encoded by a 2-byte type reference
    w.trusted.append('struct packers (_uint8/16/32_packer, _int32_packer, _string_packer, _name_packer, _bool_packer) are library/outside code: '
                     'results are arbitrary byte strings; refpos(_uint16_packer(x)) == x is the (assumed) meaning of a 2-byte reference')
    w.trusted.append('functools.singledispatch dispatch of _describe_type: the call is checked against contract DT, which every registered '
                     'implementation under contract is proved to satisfy (induction over the type structure; termination = well-founded schema types, assumed)')
    for p_ in ('_uint8_packer', '_int32_packer'):
        w.ext_funcs[p_] = dict(params={'x': 'int'}, returns='bytes')
    w.ext_funcs['_uint16_packer'] = dict(params={'x': 'int'}, returns='bytes', ensures=['refpos(result) == x'])
    # string / name / bool fields: under contract (byte-level): a string field is the 4-byte length *in bytes of the UTF-8 encoding* followed by that encoding
    w.ufunc('utf8', ['str'], 'bytes'); w.ufunc('u32', ['int'], 'bytes')
    w.exec_defs = {'utf8': "lambda s: s.encode('utf-8')", 'u32': "lambda n: __import__('struct').pack('!L', n)"}
    w.trusted.append('str.encode("utf-8") is an uninterpreted function utf8(s) (its byte length is not the character count); struct.Struct("!L").pack(n) is u32(n)')
    w.ext_funcs['_uint32_packer'] = dict(params={'x': 'int'}, returns='bytes', ensures=['result == u32(x)'])
    w.contract(SER, '_string_packer', params={'s': 'str'}, returns='bytes', pure=True, ensures=['result == u32(len(utf8(s))) + utf8(s)'])
    w.contract(SER, '_name_packer', params={'n': 'Obj'}, returns='bytes', ensures=['exists(str, lambda x: result == u32(len(utf8(x))) + utf8(x))'])
    w.contract(SER, '_bool_packer', params={'b': 'bool'}, returns='bytes', pure=True, ensures=['result == (b"\\x01" if b else b"\\x00")'])
    # schema object accessors (outside reach: schema layer) -- arbitrary results
    for m, rt in (('get_subtypes', 'Seq[Obj]'), ('is_named', 'bool'), ('get_element_names', 'Seq[str]'), ('get_schema_name', 'str'),
                  ('get_name', 'Obj'), ('get_is_persistent', 'bool'), ('is_compound_type', 'bool'), ('is_enum', 'bool'),
                  ('get_topmost_concrete_base', 'Obj'), ('get_enum_values', 'Opt[Seq[str]]'), ('is_free_object_type', 'bool')):
        w.ext_methods['Obj.' + m] = dict(params={}, optional=('schema',), returns=rt)
        w.ext_methods['Obj.' + m]['params'] = {'schema': 'Obj'}
        w.ext_methods['Obj.' + m]['optional'] = ('schema',)
    w.ext_methods['Obj.material_type'] = dict(params={'schema': 'Obj'}, returns='Tuple[Obj,Obj]')
    # content-derived ids: pure functions of their arguments (uuid5 of a joined string); nothing else is assumed
    w.ext_funcs['_get_collection_type_id'] = dict(params={'coll_type': 'str', 'subtypes': 'Seq[Obj]', 'element_names': 'Opt[Seq[str]]'}, optional=('element_names',), returns='Obj')
    w.ext_funcs['_get_set_type_id'] = dict(params={'basetype_id': 'Obj'}, returns='Obj')

    # the induction hypothesis
    DT = dict(params={'t': 'Obj', 'ctx': 'Ctx'}, returns='Obj', requires=WF, modifies=CTXMOD, ensures=DT_ENS + [PVSAME])
    w.ext_funcs['_describe_type'] = DT

    # ------------------------------------------------------------------ registry primitives
    w.contract(SER, '_register_type_id', params={'type_id': 'Obj', 'ctx': 'Ctx'}, returns='Obj',
        requires=[POS, INJ], modifies=['Ctx.uuid_to_pos'],
        ensures=['result == type_id', 'type_id in ctx.uuid_to_pos', POS, INJ, MONO,
                 'implies(old(type_id in ctx.uuid_to_pos), map_same(ctx.uuid_to_pos, old(ctx.uuid_to_pos)))',
                 'implies(not old(type_id in ctx.uuid_to_pos), ctx.uuid_to_pos[type_id] == old(len(ctx.uuid_to_pos)) and len(ctx.uuid_to_pos) == old(len(ctx.uuid_to_pos)) + 1'
                 ' and map_same_except(ctx.uuid_to_pos, old(ctx.uuid_to_pos), type_id))'])
    w.contract(SER, '_finish_typedesc', params={'type_id': 'Obj', 'buf': 'Seq[bytes]', 'ctx': 'Ctx'}, returns='Obj',
        # a descriptor is emitted only for an id that has none yet  (no two descriptors of a stream share an id)
        requires=WF + ['not (type_id in ctx.uuid_to_pos)'],
        modifies=['Ctx.buffer', 'Ctx.uuid_to_pos'],
        ensures=WF + [MONO, 'result == type_id', 'type_id in ctx.uuid_to_pos',
                      # the new descriptor is the last one of the stream and its id maps to exactly that position
                      'ctx.uuid_to_pos[type_id] == old(len(ctx.uuid_to_pos))', 'len(ctx.uuid_to_pos) == old(len(ctx.uuid_to_pos)) + 1',
                      'map_same_except(ctx.uuid_to_pos, old(ctx.uuid_to_pos), type_id)'])
    w.contract(SER, '_type_ref_id_packer', params={'type_id': 'Obj', 'ctx': 'Ctx'}, returns='bytes',
        # REF: a reference is only ever written to a registered id ...
        requires=[POS, 'type_id in ctx.uuid_to_pos'],
        # ... and is the position of exactly that id, smaller than the number of descriptors emitted so far
        ensures=['refpos(result) == ctx.uuid_to_pos[type_id]', '0 <= refpos(result) and refpos(result) < len(ctx.uuid_to_pos)'])
    w.contract(SER, '_type_ref_packer', params={'t': 'Obj', 'ctx': 'Ctx'}, returns='bytes',
        requires=WF, modifies=CTXMOD, ensures=WF + [MONO, PVSAME, GROW, '0 <= refpos(result) and refpos(result) < len(ctx.uuid_to_pos)'])
    w.contract(SER, '_type_ref_id_seq_packer', params={'ts': 'Seq[Obj]', 'ctx': 'Ctx'}, returns='bytes',
        requires=[POS, 'forall(0, len(ts), lambda i: ts[i] in ctx.uuid_to_pos)'],
        loops={0: dict(fingerprint='for t in ts', index='i', invariant=[])})
    w.contract(SER, '_type_ref_seq_packer', params={'ts': 'Seq[Obj]', 'ctx': 'Ctx'}, returns='bytes',
        requires=WF, modifies=CTXMOD, ensures=WF + [MONO, PVSAME, GROW, 'implies(len(ts) == 0, %s)' % EMPTYSAME],
        loops={0: dict(fingerprint='for t in ts', index='i', invariant=WF + [MONO, PVSAME, GROW, 'implies(i == 0, %s)' % EMPTYSAME])})

    # ------------------------------------------------------------------ the registered implementations (induction step)
    COMP = dict(elem_type='Obj', acc='acc', index='i', seq='its', modifies=CTXMOD,
                invariant=WF + [MONO, PVSAME, GROW, 'len(acc) == i', 'forall(0, i, lambda j: acc[j] in ctx.uuid_to_pos)'])
    VT = {'buf': 'Seq[bytes]', 'subtypes': 'Seq[Obj]'}
    w.contract(SER, '_describe_set', params={'t': 'Obj', 'ctx': 'Ctx'}, returns='Obj', requires=WF, modifies=CTXMOD, ensures=DT_ENS + [PVSAME],
               hints=dict(var_types=VT))
    for fn in ('_describe_array', '_describe_range', '_describe_multirange'):
        w.contract(SER, fn, params={'t': 'Obj', 'ctx': 'Ctx'}, returns='Obj', requires=WF, modifies=CTXMOD, ensures=DT_ENS + [PVSAME],
                   raises={'AssertionError': {}}, loops={'comp#0': COMP}, hints=dict(var_types=VT))
    SUBS = 'forall(0, len(subtypes), lambda j: subtypes[j] in ctx.uuid_to_pos)'
    w.contract(SER, '_describe_tuple', params={'t': 'Obj', 'ctx': 'Ctx'}, returns='Obj', requires=WF, modifies=CTXMOD, ensures=DT_ENS + [PVSAME],
               raises={'AssertionError': {}},
               loops={'comp#0': COMP,
                      0: dict(fingerprint='for (el_name, el_type_id) in zip(element_names, subtypes)', index='i', invariant=[]),
                      1: dict(fingerprint='for el_type_id in subtypes', index='i', invariant=[])},
               hints=dict(var_types=dict(VT, element_names='Opt[Seq[str]]')))
    w.contract(SER, '_describe_regular_object_type', params={'t': 'Obj', 'ctx': 'Ctx'}, returns='Obj', requires=WF, modifies=CTXMOD,
               ensures=DT_ENS + [PVSAME], raises={'AssertionError': {}}, hints=dict(var_types=VT))
    # ---- scalars / enums.  Well-foundedness of the schema (a scalar is not one of its own ancestors, a compound type is not one of
    # its own components) is an assumption about the *input*, stated once here: describing those strictly smaller types leaves the
    # id of the type under construction unregistered.
    w.trusted.append('schema well-foundedness: describing the ancestors / fundamental type of a scalar or the components of a compound type '
                     'does not register the id of that scalar / compound type itself (assumed extra ensures NOSELF at those call sites)')
    NOSELF = 'implies(old(not (t.id in ctx.uuid_to_pos)), not (t.id in ctx.uuid_to_pos))'
    def wf_override(tname, idexpr=None):
        ns = NOSELF.replace('t.id', idexpr or (tname + '.id'))
        return {'_type_ref_seq_packer': dict(params={'ts': 'Seq[Obj]', 'ctx': 'Ctx'}, returns='bytes', requires=WF, modifies=CTXMOD, state=[tname],
                                             ensures=WF + [MONO, PVSAME, GROW, 'implies(len(ts) == 0, %s)' % EMPTYSAME, ns]),
                '_type_ref_packer': dict(params={'t_': 'Obj', 'ctx': 'Ctx'}, returns='bytes', requires=WF, modifies=CTXMOD, state=[tname],
                                         ensures=WF + [MONO, PVSAME, GROW, '0 <= refpos(result) and refpos(result) < len(ctx.uuid_to_pos)', ns]),
                '_describe_object_type': dict(params={'t_': 'Obj', 'ctx': 'Ctx'}, returns='Obj', requires=WF, modifies=CTXMOD, state=[tname],
                                              ensures=DT_ENS + [PVSAME, ns], raises={'AssertionError': {}})}
    w.ext_methods['Obj.get_ancestors'] = dict(params={'schema': 'Obj'}, returns='Obj')
    w.ext_methods['Obj.get_union_of'] = dict(params={'schema': 'Obj'}, returns='Obj')
    w.ext_methods['Obj.get_intersection_of'] = dict(params={'schema': 'Obj'}, returns='Obj')
    w.ext_methods['Obj.objects'] = dict(params={'schema': 'Obj'}, returns='Seq[Obj]')
    w.ext_methods['Obj.get_displayname'] = dict(params={'schema': 'Obj'}, returns='str')
    w.contract(SER, '_add_annotation', params={'t': 'Obj', 'ctx': 'Ctx'}, returns='none', modifies=['Ctx.anno_buffer'], hints=dict(var_types=VT))
    NEWID = 'not (t.id in ctx.uuid_to_pos)'
    w.contract(SER, '_describe_regular_scalar', params={'t': 'Obj', 'ctx': 'Ctx'}, returns='Obj', requires=WF + [NEWID], modifies=CTXMOD,
               ensures=DT_ENS + [PVSAME, 'result == t.id'],
               loops={0: dict(fingerprint='for ancestor in t.get_ancestors(ctx.schema).objects(ctx.schema)', index='i', invariant=[])},
               hints=dict(var_types=dict(VT, ancestors='Seq[Obj]'), ext_funcs=wf_override('t')))
    w.contract(SER, '_describe_enum', params={'enum': 'Obj', 'ctx': 'Ctx'}, returns='Obj', requires=WF + [NEWID.replace('t.id', 'enum.id')], modifies=CTXMOD,
               ensures=DT_ENS + [PVSAME, 'result == enum.id'], raises={'AssertionError': {}},
               loops={0: dict(fingerprint='for ancestor in enum.get_ancestors(ctx.schema).objects(ctx.schema)', index='i', invariant=[]),
                      1: dict(fingerprint='for enum_val in enum_values', index='i', invariant=[])},
               hints=dict(var_types=dict(VT, ancestors='Seq[Obj]'), ext_funcs=wf_override('enum')))
    w.contract(SER, '_describe_scalar_type', params={'t': 'Obj', 'ctx': 'Ctx'}, returns='Obj', requires=WF, modifies=CTXMOD,
               ensures=DT_ENS + [PVSAME], raises={'AssertionError': {}})
    w.contract(SER, '_describe_object_type', params={'t': 'Obj', 'ctx': 'Ctx'}, returns='Obj', requires=WF, modifies=CTXMOD,
               ensures=DT_ENS + [PVSAME], raises={'AssertionError': {}})
    w.contract(SER, '_describe_compound_object_type', params={'t': 'Obj', 'ctx': 'Ctx'}, returns='Obj', requires=WF, modifies=CTXMOD,
               ensures=DT_ENS + [PVSAME], raises={'AssertionError': {}},
               loops={'comp#0': dict(COMP, invariant=COMP['invariant'] + ['implies(old(not (t.id in ctx.uuid_to_pos)), not (t.id in ctx.uuid_to_pos))'])},
               hints=dict(var_types=dict(VT, components='Seq[Obj]'), ext_funcs=wf_override('t')))
    # ---- entry points: a fresh Context satisfies WF; the stream returned is the concatenation of ctx.buffer (+ annotations)
    w.trusted.append('hash acyclicity: the uuid5 id of a top-level parameter / SQL-row shape (computed over a string embedding the ids of all its '
                     'element types) is not the id of one of the element types just described (assumed extra ensures of _get_object_shape_id in describe_params / describe_sql_result)')
    OSI = dict(params={'coll_type': 'str', 'subtypes': 'Seq[Obj]', 'element_names': 'Opt[Seq[str]]', 'cardinalities': 'Opt[Seq[Cardinality]]',
                       'links_props': 'Opt[Seq[bool]]', 'links': 'Opt[Seq[bool]]', 'has_implicit_fields': 'bool', 'sources': 'Opt[Seq[Obj]]'},
               optional=('element_names', 'cardinalities', 'links_props', 'links', 'has_implicit_fields', 'sources'), returns='Obj')
    w.ext_funcs['_get_object_shape_id'] = OSI
    OSI_FRESH = dict(OSI, state=['ctx'], ensures=['not (result in ctx.uuid_to_pos)'])
    w.opaque_exprs['EMPTY_TUPLE_DESC'] = 'bytes'; w.opaque_exprs['EMPTY_TUPLE_ID'] = 'Obj'
    w.opaque_exprs['NULL_TYPE_DESC'] = 'bytes'; w.opaque_exprs['NULL_TYPE_ID'] = 'Obj'
    w.opaque_exprs['UUID_TYPE_ID'] = 'Obj'; w.opaque_exprs['STR_TYPE_ID'] = 'Obj'
    w.contract(SER, 'Context.__init__', inline=True)
    PLOOP = WF + ['ctx.protocol_version == protocol_version', 'len(subtypes) == i', 'len(element_names) == i', 'len(cardinalities) == i',
                  'forall(0, len(subtypes), lambda j: subtypes[j] in ctx.uuid_to_pos)']
    w.contract(SER, 'describe_params', params={'schema': 'Obj', 'params': 'Seq[Tuple[str,Obj,bool]]', 'protocol_version': 'Tuple[int,int]'},
               returns='Tuple[bytes,Obj]', ghost={'ctx': 'Ctx'},
               # the parameter shape descriptor is the last of the stream, and the stream is well formed
               ensures=['implies(len(params) > 0, %s)' % ' and '.join('(%s)' % c for c in WF + ['result[1] in ctx.uuid_to_pos', 'ctx.uuid_to_pos[result[1]] == len(ctx.uuid_to_pos) - 1'])],
               loops={0: dict(fingerprint='for (param_name, param_type, param_req) in params', index='i', invariant=PLOOP, modifies=CTXMOD)},
               hints=dict(ghost_out=['ctx'], var_types={'params_buf': 'Seq[bytes]', 'subtypes': 'Seq[Obj]', 'element_names': 'Seq[str]', 'cardinalities': 'Seq[Cardinality]', 'params_shape': 'Seq[bytes]'},
                          ext_funcs={'_get_object_shape_id': OSI_FRESH}))
    RLOOP = WF + ['ctx.protocol_version == protocol_version', 'len(subtypes) == len(element_names)',
                  'forall(0, len(subtypes), lambda j: subtypes[j] in ctx.uuid_to_pos)']
    w.contract(SER, 'describe_sql_result', params={'schema': 'Obj', 'row': 'OMap[str,Obj]', 'protocol_version': 'Tuple[int,int]'},
               returns='Tuple[bytes,Obj]', ghost={'ctx': 'Ctx'},
               ensures=WF + ['result[1] in ctx.uuid_to_pos', 'ctx.uuid_to_pos[result[1]] == len(ctx.uuid_to_pos) - 1'],
               loops={0: dict(fingerprint='for (rel_name, rel_t) in row.items()', index='i', invariant=RLOOP, modifies=CTXMOD)},
               hints=dict(ghost_out=['ctx'], var_types={'params_buf': 'Seq[bytes]', 'subtypes': 'Seq[Obj]', 'element_names': 'Seq[str]', 'record_body_bytes': 'Seq[bytes]'},
                          ext_funcs={'_get_object_shape_id': OSI_FRESH}))
    w.contract(SER, 'describe', params={'schema': 'Obj', 'typ': 'Obj', 'view_shapes': 'Map[Obj,Seq[Obj]]', 'view_shapes_metadata': 'Map[Obj,Obj]',
                                         'protocol_version': 'Tuple[int,int]', 'follow_links': 'bool', 'inline_typenames': 'bool', 'name_filter': 'str'},
               returns='Tuple[bytes,Obj]', ghost={'ctx': 'Ctx'}, ensures=WF + ['result[1] in ctx.uuid_to_pos'], hints=dict(ghost_out=['ctx']))
    w.contract(SER, 'Context.derive', params={'self': 'Ctx'}, returns='Ctx',
               # a derived context starts from a copy of the stream: same registry, same buffer
               ensures=['map_same(result.uuid_to_pos, self.uuid_to_pos)', 'len(result.uuid_to_pos) == len(self.uuid_to_pos)', 'len(result.buffer) == len(self.buffer)',
                        'result.protocol_version == self.protocol_version',
                        'forall(0, len(self.buffer), lambda i: result.buffer[i] == self.buffer[i])'])
    ILOOP = WF + [MONO, PVSAME, GROW, 'len(subtypes) == len(element_names)', 'len(cardinalities) == len(element_names)',
                  'forall(0, len(subtypes), lambda j: implies(not prepare_state, subtypes[j] in ctx.uuid_to_pos))']
    w.contract(SER, 'describe_input_shape', params={'t': 'Obj', 'input_shapes': 'Map[Obj,Seq[Tuple[str,Obj,Cardinality]]]', 'prepare_state': 'bool', 'ctx': 'Ctx'},
               returns='Opt[Obj]', requires=WF, modifies=CTXMOD,
               ensures=WF + [MONO, PVSAME, GROW, 'implies(not prepare_state, not is_none(result) and some(result) in ctx.uuid_to_pos)'],
               raises={'AssertionError': {}},
               loops={0: dict(fingerprint='for (name, subtype, cardinality) in input_shapes[t]', index='i', invariant=ILOOP),
                      1: dict(fingerprint='for (el_name, el_type_id, el_c) in zip(element_names, subtypes, cardinalities)', index='i', invariant=[])},
               hints=dict(var_types={'buf': 'Seq[bytes]', 'subtypes': 'Seq[Obj]', 'element_names': 'Seq[str]', 'cardinalities': 'Seq[Cardinality]'}))
    # ---- object shapes
    w.flagenum('ShapePointerFlags', SER, 'ShapePointerFlags')
    for m, rt in (('get_shortname', 'Obj'), ('singular', 'bool'), ('get_target', 'Opt[Obj]'), ('is_property', 'bool'), ('get_source', 'Obj'),
                  ('get_rptr', 'Opt[Obj]')):
        w.ext_methods['Obj.' + m] = dict(params={'schema': 'Obj'}, returns=rt)
    w.ext_methods['Obj.get'] = dict(params={'name': 'str'}, returns='Obj')
    w.ext_funcs['cardinality_from_ptr'] = dict(params={'ptr': 'Obj', 'schema': 'Obj'}, returns='Cardinality')
    w.trusted.append('uuid5 collision-freeness: describing the (schema-id keyed) object types referenced by a shape does not register the '
                     "shape's own content-derived id (assumed extra ensures of _describe_object_type inside _describe_object_shape)")
    LENS = ['len(element_names) == len(subtypes)', 'len(link_props) == len(subtypes)', 'len(links) == len(subtypes)', 'len(cardinalities) == len(subtypes)', 'len(sources) == len(subtypes)']
    SLOOP = WF + [MONO, PVSAME, GROW, SUBS] + LENS
    # faithfulness of the element cardinalities (encoder side): the cardinality recorded for the j-th emitted element is that of the j-th emitted SHAPE pointer
    # (the view's pointer, not the schema pointer it was derived from); ghost `gp` = the pointers emitted so far
    w.ufunc('CARD', ['Obj'], 'Cardinality')
    w.ext_funcs['cardinality_from_ptr'] = dict(params={'ptr': 'Obj', 'schema': 'Obj'}, returns='Cardinality', returns_expr='CARD(ptr)')
    w.trusted.append('cardinality_from_ptr(ptr, schema) is a function of the pointer (CARD); deriving material types does not change it')
    CARDS = ['len(gp) == len(cardinalities)', 'forall(0, len(cardinalities), lambda j: cardinalities[j] == CARD(gp[j]))']
    w.contract(SER, '_describe_object_shape', params={'t': 'Obj', 'ctx': 'Ctx'}, ghost={'gp': 'Seq[Obj]'}, returns='Obj', requires=WF + ['len(gp) == 0'], modifies=CTXMOD,
               ensures=DT_ENS + [PVSAME] + CARDS,
               raises={'AssertionError': {}, 'InternalServerError': {}},
               ghost_after={'cardinalities.append(cardinality_from_ptr(ptr, ctx.schema))': [('gp', 'gp + [ptr]')]},
               loops={0: dict(fingerprint='for ptr in ctx.view_shapes.get(t, ())', index='i', invariant=SLOOP + CARDS),
                      1: dict(fingerprint='for ptr in rptr_ptrs', index='i', invariant=SLOOP + CARDS),
                      2: dict(fingerprint='for (el_name, el_type_id, el_lp, el_l, el_c, el_src) in zip(element_names, subtypes, link_props, links, cardinalities, sources)',
                              index='i', invariant=WF + [MONO, PVSAME, GROW, SUBS, 'not (type_id in ctx.uuid_to_pos)'])},
               hints=dict(var_types=dict(VT, element_names='Seq[str]', link_props='Seq[bool]', links='Seq[bool]', cardinalities='Seq[Cardinality]', sources='Seq[Obj]'),
                          ghost_out=['gp'],
                          ext_funcs={'_describe_object_type': wf_override('type_id', 'type_id')['_describe_object_type']}))
    # ---- the decoder (the server's own reader of descriptors: state and arguments).  A scalar descriptor lists its ancestors in resolution order (nearest first,
    # docs/reference/reference/protocol/typedesc.rst), so the type whose codec encodes the values -- the FUNDAMENTAL type -- is the LAST ancestor; with no ancestors
    # the scalar is fundamental itself (None recorded).  Protocol < 2.0 sends the fundamental type as one reference.
    w.refclass('PCtx', {'protocol_version': 'Tuple[int,int]'})
    w.refclass('ScD', {'tid': 'Obj', 'name': 'Opt[str]', 'schema_defined': 'Opt[bool]', 'fundamental_type': 'Opt[Obj]', 'ancestors': 'Opt[Seq[Obj]]'}, SER, 'ScalarDesc')
    PX = {'_parse_type_id': dict(params={'desc': 'Obj'}, returns='Obj', modifies=[]), '_parse_string': dict(params={'desc': 'Obj'}, returns='str', modifies=[]),
          '_parse_bool': dict(params={'desc': 'Obj'}, returns='bool', modifies=[]),
          '_parse_type_refs': dict(params={'desc': 'Obj', 'ctx': 'PCtx'}, returns='Seq[Obj]', modifies=[]),
          '_parse_type_ref': dict(params={'desc': 'Obj', 'ctx': 'PCtx'}, returns='Obj', modifies=[])}
    w.contract(SER, '_parse_scalar_descriptor', params={'_tag': 'Obj', 'desc': 'Obj', 'ctx': 'PCtx'}, returns='ScD', ghost={'g_ref': 'Obj'},
        modifies=['$alloc'],
        ghost_after={'fundamental_type = _parse_type_ref(desc, ctx=ctx)': [('g_ref', 'fundamental_type')]},
        ensures=['implies(ctx.protocol_version >= (2, 0), result.ancestors is not None)',
                 'implies(ctx.protocol_version >= (2, 0) and len(result.ancestors) > 0, result.fundamental_type is not None and result.fundamental_type == result.ancestors[len(result.ancestors) - 1])',
                 'implies(ctx.protocol_version >= (2, 0) and len(result.ancestors) == 0, result.fundamental_type is None)',
                 'implies(not (ctx.protocol_version >= (2, 0)), result.ancestors is None and result.fundamental_type is not None and result.fundamental_type == g_ref)'],
        hints={'ext_funcs': PX, 'ghost_out': ['g_ref']})
    # input shape (session state / globals): what the decoder hands on is the sequence of elements read from the stream, in stream order, each under its own name
    # ghost lists g_flag / g_card / g_name / g_sub: the values read for the j-th element (appended right after each read); K: one arbitrary element
    w.refclass('Bin', {})
    w.ext_methods['Bin.read_ui16'] = dict(params={}, returns='int', ensures=['result >= 0'], modifies=[])
    w.ext_methods['Bin.read_ui32'] = dict(params={}, returns='int', ensures=['result >= 0'], modifies=[])
    w.ext_methods['Bin.read_bytes'] = dict(params={'n': 'int'}, returns='Seq[int]', ensures=['len(result) == n', 'forall(0, n, lambda j: 0 <= result[j] and result[j] < 256)'], modifies=[])      # bytes, as the sequence of their values
    w.refclass('ISD', {'tid': 'Obj', 'fields': 'Map[str,Tuple[int,Obj]]', 'fields_list': 'Seq[Tuple[str,Obj]]', 'flags': 'Map[str,int]', 'cardinalities': 'Map[str,Cardinality]'}, SER, 'InputShapeDesc')
    PXB = {k: dict(v, params=dict(v['params'], desc='Bin')) for k, v in PX.items()}
    LAST = 'forall(K + 1, %s, lambda j: g_name[j] != g_name[K])'
    def ISD_INV(n, fl, f, fg, c):
        return ['len(g_flag) == %s and len(g_card) == %s and len(g_name) == %s and len(g_sub) == %s and len(%s) == %s' % (n, n, n, n, fl, n),
                'forall(0, %s, lambda j: %s[j] == (g_name[j], g_sub[j]))' % (n, fl),
                'implies(0 <= K and K < %s, g_name[K] in %s and g_name[K] in %s)' % (n, f, fg),
                'implies(0 <= K and K < %s and %s, %s[g_name[K]] == (K, g_sub[K]) and %s[g_name[K]] == g_flag[K])' % (n, LAST % n, f, fg),
                'implies(0 <= K and K < %s and %s, implies(g_name[K] in %s, %s[g_name[K]] == g_card[K]))' % (n, LAST % n, c, c),
                # the element read last, ground (decided both ways)
                'implies(%s > 0, %s[g_name[%s - 1]] == (%s - 1, g_sub[%s - 1]) and %s[g_name[%s - 1]] == g_flag[%s - 1])' % (n, f, n, n, n, fg, n, n)]
    w.contract(SER, '_parse_input_shape_descriptor', params={'_tag': 'Obj', 'desc': 'Bin', 'ctx': 'PCtx'}, returns='ISD',
        ghost={'g_flag': 'Seq[int]', 'g_card': 'Seq[Cardinality]', 'g_name': 'Seq[str]', 'g_sub': 'Seq[Obj]', 'K': 'int'},
        requires=['len(g_flag) == 0 and len(g_card) == 0 and len(g_name) == 0 and len(g_sub) == 0'],
        modifies=['$alloc'], raises={'ValueError': {}},
        ghost_after={'flag = desc.read_ui32()': [('g_flag', 'g_flag + [flag]')], 'cardinality = enums.Cardinality(desc.read_bytes(1)[0])': [('g_card', 'g_card + [cardinality]')],
                     'name = _parse_string(desc)': [('g_name', 'g_name + [name]')], 'subtype = _parse_type_ref(desc, ctx=ctx)': [('g_sub', 'g_sub + [subtype]')]},
        loops={0: dict(fingerprint='for idx in range(els)', index='idx', invariant=ISD_INV('idx', 'fields_list', 'input_fields', 'flags', 'cardinalities'))},
        ensures=ISD_INV('len(g_name)', 'result.fields_list', 'result.fields', 'result.flags', 'result.cardinalities'),
        hints={'ext_funcs': PXB, 'ghost_out': ['g_flag', 'g_card', 'g_name', 'g_sub'],
               'var_types': {'input_fields': 'Map[str,Tuple[int,Obj]]', 'flags': 'Map[str,int]', 'cardinalities': 'Map[str,Cardinality]', 'fields_list': 'Seq[Tuple[str,Obj]]'}})
    # second view: the quantifier-free clauses alone (lengths, the element read last, one arbitrary position of the ordered list), so that a wrong index / order is refuted
    # with a definite counter-model instead of a solver timeout on the quantified invariant
    def ISD_GROUND(n, fl, f, fg, c):
        return ['len(g_flag) == %s and len(g_card) == %s and len(g_name) == %s and len(g_sub) == %s and len(%s) == %s' % (n, n, n, n, fl, n),
                'implies(0 <= K and K < %s, %s[K] == (g_name[K], g_sub[K]))' % (n, fl),
                'implies(%s > 0, %s[g_name[%s - 1]] == (%s - 1, g_sub[%s - 1]) and %s[g_name[%s - 1]] == g_flag[%s - 1])' % (n, f, n, n, n, fg, n, n)]
    w.contract(SER, '_parse_input_shape_descriptor', view='last', params={'_tag': 'Obj', 'desc': 'Bin', 'ctx': 'PCtx'}, returns='ISD',
        ghost={'g_flag': 'Seq[int]', 'g_card': 'Seq[Cardinality]', 'g_name': 'Seq[str]', 'g_sub': 'Seq[Obj]', 'K': 'int'},
        requires=['len(g_flag) == 0 and len(g_card) == 0 and len(g_name) == 0 and len(g_sub) == 0'],
        modifies=['$alloc'], raises={'ValueError': {}},
        ghost_after={'flag = desc.read_ui32()': [('g_flag', 'g_flag + [flag]')], 'cardinality = enums.Cardinality(desc.read_bytes(1)[0])': [('g_card', 'g_card + [cardinality]')],
                     'name = _parse_string(desc)': [('g_name', 'g_name + [name]')], 'subtype = _parse_type_ref(desc, ctx=ctx)': [('g_sub', 'g_sub + [subtype]')]},
        loops={0: dict(fingerprint='for idx in range(els)', index='idx', invariant=ISD_GROUND('idx', 'fields_list', 'input_fields', 'flags', 'cardinalities'))},
        ensures=ISD_GROUND('len(g_name)', 'result.fields_list', 'result.fields', 'result.flags', 'result.cardinalities'),
        hints={'ext_funcs': PXB, 'ghost_out': ['g_flag', 'g_card', 'g_name', 'g_sub'],
               'var_types': {'input_fields': 'Map[str,Tuple[int,Obj]]', 'flags': 'Map[str,int]', 'cardinalities': 'Map[str,Cardinality]', 'fields_list': 'Seq[Tuple[str,Obj]]'}})
    # output shape: each element read from the stream is filed under its own name -- type, flags, cardinality and (protocol >= 2.0) source type; the shape's object type is
    # read only when the shape is not an ephemeral free shape.  (dict order = stream order is not modelled: the maps are unordered here.)
    w.refclass('SHD', {'tid': 'Obj', 'type': 'Opt[Obj]', 'fields': 'Map[str,Obj]', 'flags': 'Map[str,int]', 'cardinalities': 'Map[str,Cardinality]', 'sources': 'Map[str,Obj]'}, SER, 'ShapeDesc')
    def SHD_INV(n, f, fg, c, so, quant=True):
        last = ['implies(%s > 0, %s[g_name[%s - 1]] == g_sub[%s - 1] and %s[g_name[%s - 1]] == g_flag[%s - 1] and %s[g_name[%s - 1]] == g_card[%s - 1])' % (n, f, n, n, fg, n, n, c, n, n),
                'implies(%s > 0 and ctx.protocol_version >= (2, 0), %s[g_name[%s - 1]] == g_src[%s - 1])' % (n, so, n, n)]
        out = ['len(g_flag) == %s and len(g_card) == %s and len(g_name) == %s and len(g_sub) == %s' % (n, n, n, n), 'implies(ctx.protocol_version >= (2, 0), len(g_src) == %s)' % n]
        if quant:
            out += ['implies(0 <= K and K < %s, g_name[K] in %s and g_name[K] in %s and g_name[K] in %s)' % (n, f, fg, c),
                    'implies(0 <= K and K < %s and %s, %s[g_name[K]] == g_sub[K] and %s[g_name[K]] == g_flag[K] and %s[g_name[K]] == g_card[K])' % (n, LAST % n, f, fg, c),
                    'implies(0 <= K and K < %s and %s and ctx.protocol_version >= (2, 0), g_name[K] in %s and %s[g_name[K]] == g_src[K])' % (n, LAST % n, so, so)]
        return out + last
    for view, quant in ((None, True), ('last', False)):
        w.contract(SER, '_parse_shape_descriptor', view=view, params={'_tag': 'Obj', 'desc': 'Bin', 'ctx': 'PCtx'}, returns='SHD',
            ghost={'g_flag': 'Seq[int]', 'g_card': 'Seq[Cardinality]', 'g_name': 'Seq[str]', 'g_sub': 'Seq[Obj]', 'g_src': 'Seq[Obj]', 'K': 'int', 'g_eph': 'bool', 'g_ot': 'Obj'},
            requires=['len(g_flag) == 0 and len(g_card) == 0 and len(g_name) == 0 and len(g_sub) == 0 and len(g_src) == 0'],
            modifies=['$alloc'], raises={'ValueError': {}},
            ghost_after={'flag = desc.read_ui32()': [('g_flag', 'g_flag + [flag]')], 'cardinality = enums.Cardinality(desc.read_bytes(1)[0])': [('g_card', 'g_card + [cardinality]')],
                         'name = _parse_string(desc)': [('g_name', 'g_name + [name]')], 'subtype = _parse_type_ref(desc, ctx=ctx)': [('g_sub', 'g_sub + [subtype]')],
                         'sources[name] = _parse_type_ref(desc, ctx=ctx)': [('g_src', 'g_src + [sources[name]]')],
                         'ephemeral_free_shape = _parse_bool(desc)': [('g_eph', 'ephemeral_free_shape')], 'objtype = _parse_type_ref(desc, ctx=ctx)': [('g_ot', 'objtype')]},
            loops={0: dict(fingerprint='for _ in range(els)', index='i', invariant=SHD_INV('i', 'fields', 'flags', 'cardinalities', 'sources', quant))},
            ensures=SHD_INV('len(g_name)', 'result.fields', 'result.flags', 'result.cardinalities', 'result.sources', quant)
                    + ['implies(ctx.protocol_version >= (2, 0) and not g_eph, result.type is not None and result.type == g_ot)',
                       'implies(not (ctx.protocol_version >= (2, 0)) or g_eph, result.type is None)'],
            hints={'ext_funcs': PXB, 'ghost_out': ['g_flag', 'g_card', 'g_name', 'g_sub', 'g_src', 'g_eph', 'g_ot'],
                   'var_types': {'fields': 'Map[str,Obj]', 'flags': 'Map[str,int]', 'cardinalities': 'Map[str,Cardinality]', 'sources': 'Map[str,Obj]'}})
    # tuples: the element types are the references read AFTER the ancestors (two consecutive reference lists in the stream); named tuples: every element under its own name
    w.refclass('TupD', {'ancestors': 'Opt[Seq[Obj]]', 'fields': 'Seq[Obj]'}, SER, 'TupleDesc')
    w.contract(SER, '_parse_tuple_descriptor', params={'_tag': 'Obj', 'desc': 'Bin', 'ctx': 'PCtx'}, returns='TupD', ghost={'g_anc': 'Seq[Obj]', 'g_els': 'Seq[Obj]'}, modifies=['$alloc'],
        ghost_after={'ancestors = _parse_type_refs(desc, ctx=ctx)': [('g_anc', 'ancestors')], 'tuple_fields = _parse_type_refs(desc, ctx=ctx)': [('g_els', 'tuple_fields')]},
        ensures=['result.fields == g_els', 'implies(ctx.protocol_version >= (2, 0), result.ancestors is not None and result.ancestors == g_anc)',
                 'implies(not (ctx.protocol_version >= (2, 0)), result.ancestors is None)'],
        hints={'ext_funcs': PXB, 'ghost_out': ['g_anc', 'g_els']})
    w.refclass('NTupD', {'ancestors': 'Opt[Seq[Obj]]', 'fields': 'Map[str,Obj]'}, SER, 'NamedTupleDesc')
    def NT_INV(n, f, quant):
        out = ['len(g_name) == %s and len(g_sub) == %s' % (n, n), 'implies(%s > 0, %s[g_name[%s - 1]] == g_sub[%s - 1])' % (n, f, n, n)]
        if quant: out += ['implies(0 <= K and K < %s, g_name[K] in %s)' % (n, f), 'implies(0 <= K and K < %s and %s, %s[g_name[K]] == g_sub[K])' % (n, LAST % n, f)]
        return out
    for view, quant in ((None, True), ('last', False)):
        w.contract(SER, '_parse_namedtuple_descriptor', view=view, params={'_tag': 'Obj', 'desc': 'Bin', 'ctx': 'PCtx'}, returns='NTupD',
            ghost={'g_name': 'Seq[str]', 'g_sub': 'Seq[Obj]', 'K': 'int', 'g_anc': 'Seq[Obj]'}, requires=['len(g_name) == 0 and len(g_sub) == 0'], modifies=['$alloc'],
            ghost_after={'el_name = _parse_string(desc)': [('g_name', 'g_name + [el_name]')], 'fields[el_name] = _parse_type_ref(desc, ctx=ctx)': [('g_sub', 'g_sub + [fields[el_name]]')],
                         'ancestors = _parse_type_refs(desc, ctx=ctx)': [('g_anc', 'ancestors')]},
            loops={0: dict(fingerprint='for _ in range(els)', index='i', invariant=NT_INV('i', 'fields', quant))},
            ensures=NT_INV('len(g_name)', 'result.fields', quant) + ['implies(ctx.protocol_version >= (2, 0), result.ancestors is not None and result.ancestors == g_anc)',
                                                                     'implies(not (ctx.protocol_version >= (2, 0)), result.ancestors is None)'],
            hints={'ext_funcs': PXB, 'ghost_out': ['g_name', 'g_sub', 'g_anc'], 'var_types': {'fields': 'Map[str,Obj]'}})
    # back references: a type reference read from the stream denotes the descriptor decoded at that position (the encoder side proves that every reference written is
    # the position of an already registered id).  An out-of-range reference raises IndexError in the real code (the `except KeyError` never fires for a list) -- declared.
    w.classes['PCtx']['codecs_list'] = 'Seq[Obj]'
    w.contract(SER, '_parse_type_ref', params={'desc': 'Bin', 'ctx': 'PCtx'}, returns='Obj', ghost={'g_off': 'int'}, modifies=[],
        ghost_after={'offset = desc.read_ui16()': [('g_off', 'offset')]},
        ensures=['0 <= g_off and g_off < len(ctx.codecs_list)', 'result == ctx.codecs_list[g_off]'],
        raises={'IndexError': {'ensures': ['g_off >= len(ctx.codecs_list)']}, 'InternalServerError': {}},
        hints={'ghost_out': ['g_off']})
    # one record of the stream: a descriptor record appends exactly ONE entry to the position table (so the decoder's positions are the encoder's: one per descriptor,
    # in stream order), an annotation record (tag byte >= 0x80) appends none, any other unknown tag is refused; nothing already decoded is touched.
    w.ufunc('ISTAG', ['Seq[int]'], 'bool'); w.ufunc('DESCOF', ['Bin', 'int'], 'Obj')
    PARSE_X = dict(PXB)
    PARSE_X['DescriptorTag'] = dict(params={'t': 'Seq[int]'}, returns='DescriptorTag', ensures=['ISTAG(t)'], raises={'ValueError': {'ensures': ['not ISTAG(t)']}}, modifies=[])
    PARSE_X['_parse_descriptor'] = dict(params={'tag': 'DescriptorTag', 'desc': 'Bin', 'ctx': 'PCtx'}, returns='Obj', modifies=[], raises={'ProtocolError': {}, 'NotImplementedError': {}, 'IndexError': {}, 'InternalServerError': {}})
    w.contract(SER, '_parse', params={'desc': 'Bin', 'ctx': 'PCtx'}, returns='none', ghost={'g_t': 'Seq[int]', 'g_len': 'bool'}, requires=['not g_len'], modifies=['PCtx.codecs_list'],
        ghost_after={'t = desc.read_bytes(1)': [('g_t', 't')], 'desc.read_bytes(4)': [('g_len', 'True')]},
        ensures=['len(g_t) == 1',
                 # the 4-byte record length is consumed exactly for protocol >= 2.0 (the stream position itself is not modelled)
                 'g_len == (ctx.protocol_version >= (2, 0))',
                 'implies(ISTAG(g_t), len(ctx.codecs_list) == len(old(ctx.codecs_list)) + 1)',
                 'implies(not ISTAG(g_t), g_t[0] >= 128 and len(ctx.codecs_list) == len(old(ctx.codecs_list)))',
                 'forall(0, len(old(ctx.codecs_list)), lambda k: ctx.codecs_list[k] == old(ctx.codecs_list)[k])'],
        # refused: only a record whose tag byte is neither a descriptor tag nor in the annotation range 0x80..0xff (or a descriptor kind its decoder refuses);
        # a dangling back reference (IndexError) can only come from a descriptor's decoder
        raises={'NotImplementedError': {'ensures': ['len(g_t) == 1 and (ISTAG(g_t) or g_t[0] < 128)']}, 'ProtocolError': {'ensures': ['ISTAG(g_t)']},
                'IndexError': {'ensures': ['ISTAG(g_t)']}, 'InternalServerError': {}},
        hints={'ext_funcs': PARSE_X, 'ghost_out': ['g_t', 'g_len']})
    # the remaining straight-line decoders: each own field of the result is the value read for it (ghost capture at the read), ancestors only for protocol >= 2.0
    ANC = ['implies(ctx.protocol_version >= (2, 0), result.ancestors is not None and result.ancestors == g_anc)', 'implies(not (ctx.protocol_version >= (2, 0)), result.ancestors is None)']
    GA_ANC = {'ancestors = _parse_type_refs(desc, ctx=ctx)': [('g_anc', 'ancestors')]}
    PXS = dict(PXB); PXS['_parse_strings'] = dict(params={'desc': 'Bin'}, returns='Seq[str]', modifies=[])
    w.ext_methods['Bin.read_i32'] = dict(params={}, returns='int', modifies=[])
    w.refclass('EnumD', {'ancestors': 'Opt[Seq[Obj]]', 'names': 'Seq[str]'}, SER, 'EnumDesc')
    w.contract(SER, '_parse_enum_descriptor', params={'_tag': 'Obj', 'desc': 'Bin', 'ctx': 'PCtx'}, returns='EnumD', ghost={'g_anc': 'Seq[Obj]', 'g_names': 'Seq[str]'}, modifies=['$alloc'],
        ghost_after=dict(GA_ANC, **{'names = _parse_strings(desc)': [('g_names', 'names')]}), ensures=['result.names == g_names'] + ANC, hints={'ext_funcs': PXS, 'ghost_out': ['g_anc', 'g_names']})
    for fn_, cls_, nm_ in (('_parse_range_descriptor', 'RangeDesc', 'RngD'), ('_parse_multirange_descriptor', 'MultiRangeDesc', 'MRngD')):
        w.refclass(nm_, {'ancestors': 'Opt[Seq[Obj]]', 'inner': 'Obj'}, SER, cls_)
        w.contract(SER, fn_, params={'_tag': 'Obj', 'desc': 'Bin', 'ctx': 'PCtx'}, returns=nm_, ghost={'g_anc': 'Seq[Obj]', 'g_sub': 'Obj'}, modifies=['$alloc'],
            ghost_after=dict(GA_ANC, **{'subtype = _parse_type_ref(desc, ctx=ctx)': [('g_sub', 'subtype')]}), ensures=['result.inner == g_sub'] + ANC, hints={'ext_funcs': PXS, 'ghost_out': ['g_anc', 'g_sub']})
    w.refclass('ArrD', {'ancestors': 'Opt[Seq[Obj]]', 'dim_len': 'int'}, SER, 'ArrayDesc')
    w.contract(SER, '_parse_array_descriptor', params={'_tag': 'Obj', 'desc': 'Bin', 'ctx': 'PCtx'}, returns='ArrD', ghost={'g_anc': 'Seq[Obj]', 'g_dims': 'int'}, modifies=['$alloc'],
        ghost_after=dict(GA_ANC, **{'els = desc.read_ui16()': [('g_dims', 'els')]}), ensures=['result.dim_len == -1', 'g_dims == 1'] + ANC, raises={'NotImplementedError': {}},
        hints={'ext_funcs': PXS, 'ghost_out': ['g_anc', 'g_dims']})
    # the cardinality an element is described with: exactly (required, single/multi) of the pointer / global -- the four combinations map onto the four wire values
    # (the describers above assume cardinality_from_ptr as the function CARD of the pointer; here the function itself, with its two callees)
    QLT14 = 'edb/edgeql/qltypes.py'; ENUMS14 = 'edb/server/compiler/enums.py'
    w.enum('IrCard', QLT14, 'Cardinality'); w.enum('SCard', QLT14, 'SchemaCardinality')
    w.contract(QLT14, 'Cardinality.from_schema_value', params={'cls': 'none', 'required': 'bool', 'card': 'SCard'}, returns='IrCard', pure=True, requires=['card != SCard.Unknown'],
        ensures=['result == (IrCard.ONE if required else IrCard.AT_MOST_ONE) if card == SCard.One else result == (IrCard.AT_LEAST_ONE if required else IrCard.MANY)'])
    w.contract(ENUMS14, 'cardinality_from_ir_value', params={'card': 'IrCard'}, returns='Cardinality', requires=['card != IrCard.UNKNOWN'],
        ensures=['(result == Cardinality.AT_MOST_ONE) == (card == IrCard.AT_MOST_ONE)', '(result == Cardinality.ONE) == (card == IrCard.ONE)',
                 '(result == Cardinality.MANY) == (card == IrCard.MANY)', '(result == Cardinality.AT_LEAST_ONE) == (card == IrCard.AT_LEAST_ONE)'])
    w.contract(QLT14, 'SchemaCardinality.is_multi', params={'self': 'SCard'}, returns='bool', ensures=['result == (self == SCard.Many)', 'self != SCard.Unknown'],
        raises={'ValueError': dict(only_if='self == SCard.Unknown')})
    w.contract(QLT14, 'SchemaCardinality.is_single', params={'self': 'SCard'}, returns='bool', ensures=['result == (self == SCard.One)', 'self != SCard.Unknown'],
        raises={'ValueError': dict(only_if='self == SCard.Unknown')})
    w.contract(QLT14, 'SchemaCardinality.is_known', params={'self': 'SCard'}, returns='bool', pure=True, ensures=['result == (self != SCard.Unknown)'])
    w.refclass('PtrS', {}); w.ufunc('PREQ', ['PtrS'], 'bool'); w.ufunc('PSCARD', ['PtrS'], 'SCard')
    w.ext_methods['PtrS.get_required'] = dict(params={'schema': 'Obj'}, returns='bool', returns_expr='PREQ(self)', modifies=[])
    w.ext_methods['PtrS.get_cardinality'] = dict(params={'schema': 'Obj'}, returns='SCard', returns_expr='PSCARD(self)', modifies=[])
    w.contract(SER, 'cardinality_from_ptr', params={'ptr': 'PtrS', 'schema': 'Obj'}, returns='Cardinality', requires=['PSCARD(ptr) != SCard.Unknown'],
        ensures=['(result == Cardinality.ONE) == (PREQ(ptr) and PSCARD(ptr) == SCard.One)', '(result == Cardinality.AT_MOST_ONE) == (not PREQ(ptr) and PSCARD(ptr) == SCard.One)',
                 '(result == Cardinality.AT_LEAST_ONE) == (PREQ(ptr) and PSCARD(ptr) == SCard.Many)', '(result == Cardinality.MANY) == (not PREQ(ptr) and PSCARD(ptr) == SCard.Many)'],
        hints={'use_contract': ['qltypes.Cardinality.from_schema_value', 'enums.cardinality_from_ir_value']})
    return w

# ---------------------------------------------------------------------------------------------------------------------
# Dependency obligations ("equal ids imply byte-identical descriptors"): in every function that derives a descriptor id
# by hashing, every local value that flows into the descriptor bytes also flows into the arguments of the id function.
# Intra-procedural data + control dependence over the real AST; granularity = local variables (zip / for targets are
# aliases of the sequences they range over).  LEN note: element counts written as len(X) are not traced: that the hashed lists have
# one element per X is part of the loop invariants proved above.  ALLOWED names are functions of the schema and the identity of the type
# being described (assumption: within one schema the hashed structure determines the type object) or stream options.
ALLOWED = {'ctx', 't', 'schema', 'protocol_version', 'prepare_state', 'input_shapes'}
ID_FUNCS = ('_get_collection_type_id', '_get_object_shape_id', '_get_set_type_id')
BUFFERS = ('buf', 'params_buf', 'params_shape', 'record_body_bytes')
SCANNED = ['_describe_set', '_describe_tuple', '_describe_array', '_describe_range', '_describe_multirange', '_describe_object_shape',
           'describe_input_shape', 'describe_params', 'describe_sql_result']

def _names(e, local, skip_len=False):
    out = set()
    class V(ast.NodeVisitor):
        def visit_Call(self, n):
            if skip_len and isinstance(n.func, ast.Name) and n.func.id == 'len': return      # element counts: see LEN note
            if not isinstance(n.func, ast.Name): self.visit(n.func)      # method receiver counts, a plain callee name does not
            for a in n.args: self.visit(a)
            for k in n.keywords: self.visit(k.value)
        def visit_Name(self, n):
            if n.id in local: out.add(n.id)
    V().visit(e); return out

def _dep_graph(fn):
    """-> (locals, assigned, deps, writes, idcall, elem_of):  deps[v] = locals v is computed from (data + control);
    writes = expressions appended to a descriptor buffer (with their control context); elem_of[x] = lists L with `L.append(x)`"""
    params = {a.arg for a in fn.args.args + fn.args.kwonlyargs}
    local = set(params)
    for n in ast.walk(fn):
        if isinstance(n, ast.Name) and isinstance(n.ctx, ast.Store): local.add(n.id)
    deps = {v: set() for v in local}; assigned = set(); writes = []; idcall = None; elem_of = {}
    def targets(t):
        return [x.id for x in ast.walk(t) if isinstance(x, ast.Name)]
    def walk(body, ctl):
        nonlocal idcall
        for st in body:
            if isinstance(st, (ast.Assign, ast.AnnAssign, ast.AugAssign)):
                val = st.value
                if val is None: continue
                tg = st.targets if isinstance(st, ast.Assign) else [st.target]
                for t in tg:
                    for v in targets(t):
                        if v in deps: deps[v] |= _names(val, local) | ctl; assigned.add(v)
                if isinstance(val, ast.Call) and isinstance(val.func, ast.Name) and val.func.id in ID_FUNCS: idcall = (targets(tg[0])[0], val)
                if isinstance(st, ast.Assign) and isinstance(val, ast.List) and any(v in BUFFERS for t in tg for v in targets(t)):
                    writes.append((val, ctl))
            elif isinstance(st, ast.Expr) and isinstance(st.value, ast.Call) and isinstance(st.value.func, ast.Attribute) \
                    and st.value.func.attr in ('append', 'extend') and isinstance(st.value.func.value, ast.Name):
                recv = st.value.func.value.id
                for a in st.value.args:
                    if recv in deps: deps[recv] |= _names(a, local) | ctl; assigned.add(recv)
                    if recv in BUFFERS: writes.append((a, ctl))
                    elif st.value.func.attr == 'append' and isinstance(a, ast.Name): elem_of.setdefault(a.id, set()).add(recv)
            elif isinstance(st, ast.For):
                it = st.iter
                if isinstance(it, ast.Call) and isinstance(it.func, ast.Name) and it.func.id == 'zip' and isinstance(st.target, ast.Tuple) \
                        and len(st.target.elts) == len(it.args):
                    for t, a in zip(st.target.elts, it.args):
                        for v in targets(t): deps[v] |= _names(a, local) | ctl; assigned.add(v)
                else:
                    for v in targets(st.target): deps[v] |= _names(it, local) | ctl; assigned.add(v)
                walk(st.body, ctl); walk(st.orelse, ctl)
            elif isinstance(st, ast.If):
                only_raises = all(isinstance(s_, ast.Raise) for s_ in st.body) and not st.orelse
                c2 = ctl if only_raises else ctl | _names(st.test, local)
                walk(st.body, c2); walk(st.orelse, c2)
            elif isinstance(st, (ast.With, ast.Try)):
                walk(st.body, ctl)
    walk(fn.body, frozenset())
    return local, assigned, deps, writes, idcall, elem_of

def _covered(hashed, assigned, deps, elem_of):
    """least fixpoint: a local is determined by the hashed values if it is hashed itself (or allowed), is an element appended to a
    determined list, or is computed (data + control) only from determined locals"""
    cov = set(hashed) | ALLOWED
    changed = True
    while changed:
        changed = False
        for v in deps:
            if v in cov: continue
            if (v in assigned and deps[v] - {v} <= cov) or (elem_of.get(v, set()) & cov):
                cov.add(v); changed = True
    return cov

def extra_obligations(w, tier, seed):
    out = []
    def ob(oid, clause, ok, where, undecided=False):
        return dict(id=oid, kind='dependency', clause=clause, tag='property', paths=1, status='discharged' if ok else ('unknown' if undecided else 'failed'),
                    backend='ast-dataflow', seconds=0.0, model=None if ok else {'values_written_but_not_hashed': where}, where=where, function='ast-scan')
    for fname in SCANNED:
        fn, _ = repo.find_def(SER, fname)
        local, assigned, deps, writes, idcall, elem_of = _dep_graph(fn)
        oid = 'scan/%s/id-covers-content' % fname
        if idcall is None or not writes:
            out.append(ob(oid, '%s: descriptor id computed by one of %s and descriptor written through %s' % (fname, ID_FUNCS, BUFFERS),
                          False, 'shape of %s not recognised' % fname, undecided=True)); continue
        idvar, call = idcall
        hashed = set().union(*[_names(a, local) for a in call.args] + [_names(k.value, local) for k in call.keywords])
        cov = _covered(hashed | {idvar} | set(BUFFERS), assigned, deps, elem_of)
        missing = set()
        for e, ctl in writes: missing |= (_names(e, local, skip_len=True) | set(ctl)) - cov
        out.append(ob(oid, '%s: every local value flowing into the descriptor bytes is determined by the arguments of %s (equal ids => identical descriptors)' % (fname, ast.unparse(call.func)),
                      not missing, 'edb/server/compiler/sertypes.py:%s line %d: %s' % (fname, fn.lineno, sorted(missing))))
    out += _call_site_obligations()
    # the contracts model a context's descriptor stream (buffer / anno_buffer / uuid_to_pos) BY VALUE: sound only if no two contexts ever share one of these containers.
    # Ownership obligation over sertypes.py: each of the three attributes is only ever assigned a fresh container ([] / {} / <x>.copy() / list(..) / dict(..)), and a
    # Context is never duplicated wholesale (copy.copy / copy.deepcopy / __dict__ updates), which would share them.
    tree = repo.module(SER).tree
    bad = []; seen = 0
    for n in ast.walk(tree):
        if isinstance(n, (ast.Assign, ast.AnnAssign)):
            tg = n.targets if isinstance(n, ast.Assign) else [n.target]
            for t in tg:
                if isinstance(t, ast.Attribute) and t.attr in ('buffer', 'anno_buffer', 'uuid_to_pos') and n.value is not None:
                    seen += 1; v = n.value; txt = ast.unparse(v)
                    fresh_ = (isinstance(v, (ast.List, ast.Dict)) and not (getattr(v, 'elts', None) or getattr(v, 'keys', None))) or \
                             (isinstance(v, ast.Call) and ((isinstance(v.func, ast.Attribute) and v.func.attr == 'copy' and not v.args) or ast.unparse(v.func) in ('list', 'dict')))
                    if not fresh_: bad.append('line %d: %s = %s' % (n.lineno, ast.unparse(t), txt[:40]))
        if isinstance(n, ast.Call) and ast.unparse(n.func) in ('copy.copy', 'copy.deepcopy', 'copy', 'deepcopy') and n.args and ast.unparse(n.args[0]) in ('self', 'ctx', 'context'):
            bad.append('line %d: %s duplicates a context together with its stream containers' % (n.lineno, ast.unparse(n)))
        if isinstance(n, ast.Attribute) and n.attr == '__dict__' and isinstance(n.value, ast.Name) and n.value.id in ('self', 'ctx'):
            bad.append('line %d: %s.__dict__ used' % (n.lineno, n.value.id))
    out.append(dict(id='scan/context/stream-containers-not-shared', kind='ownership', tag='property', paths=1, status='discharged' if (seen >= 6 and not bad) else ('failed' if bad else 'unknown'),
                    backend='ast-scan', seconds=0.0, clause='sertypes.py: Context.buffer / anno_buffer / uuid_to_pos are only assigned fresh containers and a Context is never shallow-copied '
                    '(two contexts never write into the same descriptor stream)', model=None if (seen >= 6 and not bad) else {'offending_source_location': bad},
                    where='; '.join(bad) or '%d assignments' % seen, function='ast-scan'))
    return out

def _call_site_obligations():
    """whole-package obligation on the users of the encoder (edb/server/compiler/*.py): a descriptor handed to a client is described for THAT request --
    every call of sertypes.describe / describe_params / describe_sql_result / describe_input_shape passes the request's protocol version and binds its
    result to local variables of the calling function (or returns it); it is never parked in module-level state or on a long-lived object, where a later
    request with another protocol version / schema would pick it up."""
    out = []
    def ob(oid, clause, ok, where, undecided=False):
        return dict(id=oid, kind='ownership', clause=clause, tag='property', paths=1, status='discharged' if ok else ('unknown' if undecided else 'failed'),
                    backend='ast-scan', seconds=0.0, model=None if ok else {'offending_source_location': where}, where=where, function='ast-scan')
    pkg = os.path.join(repo.REPO, 'edb/server/compiler'); FUNCS = ('describe', 'describe_params', 'describe_sql_result', 'describe_input_shape')
    bad_store = []; bad_proto = []; sites = 0
    for fn_ in sorted(os.listdir(pkg)):
        if not fn_.endswith('.py') or fn_ == 'sertypes.py': continue
        tree = ast.parse(open(os.path.join(pkg, fn_), encoding='utf-8').read())
        parents = {}
        for n in ast.walk(tree):
            for ch in ast.iter_child_nodes(n): parents[ch] = n
        for n in ast.walk(tree):
            if isinstance(n, ast.Call) and isinstance(n.func, ast.Attribute) and n.func.attr in FUNCS and ast.unparse(n.func.value) == 'sertypes':
                sites += 1
                pv = [k for k in n.keywords if k.arg == 'protocol_version']
                if not pv or 'protocol_version' not in ast.unparse(pv[0].value): bad_proto.append('%s line %d' % (fn_, n.lineno))
                st = n
                while st in parents and not isinstance(st, ast.stmt): st = parents[st]
                def local_target(t): return isinstance(t, ast.Name) or (isinstance(t, (ast.Tuple, ast.List)) and all(local_target(e) for e in t.elts))
                encl = st
                while encl in parents and not isinstance(encl, (ast.FunctionDef, ast.AsyncFunctionDef)): encl = parents[encl]
                okst = isinstance(encl, (ast.FunctionDef, ast.AsyncFunctionDef)) and (
                    (isinstance(st, ast.Assign) and st.value is n and all(local_target(t) for t in st.targets)) or (isinstance(st, ast.Return) and st.value is n))
                if okst and isinstance(st, ast.Assign):
                    # the local must not be declared global / nonlocal in the enclosing function
                    decl = {nm for g in ast.walk(encl) if isinstance(g, (ast.Global, ast.Nonlocal)) for nm in g.names}
                    names = {e.id for t in st.targets for e in ast.walk(t) if isinstance(e, ast.Name)}
                    if names & decl: okst = False
                if not okst: bad_store.append('%s line %d: %s' % (fn_, n.lineno, ast.unparse(st).split('\n')[0][:100]))
    out.append(ob('scan/describe-call-sites/per-request-protocol', 'edb/server/compiler: every sertypes.describe* call passes the protocol version of the request being compiled',
                  sites >= 1 and not bad_proto, 'call sites without protocol_version=<...protocol_version>: %s (sites: %d)' % (bad_proto, sites), undecided=(sites == 0)))
    out.append(ob('scan/describe-call-sites/not-cached', 'edb/server/compiler: the result of every sertypes.describe* call is bound to locals of the calling function or returned, never stored in module-level / object state',
                  sites >= 1 and not bad_store, 'call sites storing the descriptor elsewhere: %s (sites: %d)' % (bad_store, sites), undecided=(sites == 0)))
    return out

def scenarios(tier, seed, repo_root, outdir):
    """bounded stand-in: describe -> parse round trip over real schema objects"""
    import json, subprocess
    here = os.path.dirname(os.path.abspath(__file__)); root = os.path.dirname(os.path.dirname(here))
    out = os.path.join(outdir, 'scenario_out.json')
    if os.path.exists(out): os.unlink(out)
    n = 300 if tier == 'quick' else 5000
    env = dict(os.environ); env['PYTHONPATH'] = '%s:%s' % (os.path.join(root, 'stubs'), repo_root); env['VERIF_REPO'] = repo_root
    p = subprocess.run(['/venv/bin/python', os.path.join(here, 'scenario.py'), str(seed), str(n), out], capture_output=True, text=True, env=env, cwd=repo_root, timeout=3000)
    if not os.path.exists(out): raise RuntimeError('scenario runner failed: ' + (p.stderr or p.stdout)[-2000:])
    r = json.load(open(out))
    return dict(evaluations=r['types'] + r['params'] + r.get('shapes', 0) + r.get('namelists', 0) + r.get('shape_ids', 0), failure=r['failure'],
                label='%d random type trees, %d parameter lists, %d object shapes described and parsed back for protocols 1.0/2.0/3.0; %d name lists and %d argument tuples of _get_object_shape_id for the id pre-image (bounded)' % (r['types'], r['params'], r.get('shapes', 0), r.get('namelists', 0), r.get('shape_ids', 0)),
                clause='decoded structure equals described structure; equal ids => identical bytes; different structure => different ids; no duplicate ids in a stream')
