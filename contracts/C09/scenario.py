"""C09 bounded stand-in / counterexample finder (native; never counted as proof).

Runs operation histories on the REAL dbstate.CompilerConnectionState / Transaction and compares, after every
operation, with a PostgreSQL-style reference model written from the property text: acceptance/rejection, the
state statements are compiled against (aliases, schema, session config), the savepoint list, returned states.
Alphabet: START, COMMIT, ROLLBACK, DECLARE/RELEASE/ROLLBACK TO over 2 names (repeated names allowed),
alias / schema / config updates, and re-synchronisation to an earlier savepoint position (SYNC).
usage: scenario.py <seed> <exhaustive_len> <n_random> <max_len> <out.json>
"""
import sys, json, random, itertools, immutables
from edb import errors
from edb.schema import schema as s_schema
from edb.server.compiler import dbstate

class FS(s_schema.FlatSchema):
    """distinct user-schema values (FlatSchema instances; only identity matters here)"""
    pass

def fresh_state():
    base_schema = s_schema.FlatSchema()
    cs = dbstate.CompilerConnectionState(
        user_schema=base_schema, global_schema=s_schema.FlatSchema(), modaliases=immutables.Map({None: 'default'}),
        session_config=immutables.Map(), database_config=immutables.Map(), system_config=immutables.Map(), cached_reflection=immutables.Map())
    return cs, base_schema

class Model:
    def __init__(self, snap):
        self.base = dict(snap); self.cur = dict(snap); self.in_tx = False; self.sps = []   # (id, name, snap)
        self.pos = None

def observe(cs):
    tx = cs.current_tx()
    return dict(aliases=tx.get_modaliases(), schema=tx.get_user_schema(), config=tx.get_session_config())

NAMES = ['a', 'b']
ALPHABET = [('START',), ('COMMIT',), ('ROLLBACK',)] + [(op, n) for op in ('DECLARE', 'RELEASE', 'ROLLBACK_TO') for n in NAMES] + \
           [('ALIAS',), ('SCHEMA',), ('CONFIG',), ('SYNC', 'last'), ('SYNC', 'first')]

def _compiler_driver():
    """the real compiler._compile_ql_transaction on a minimal compile context (what Compiler._compile_dispatch_ql hands it)"""
    import types
    from edb.edgeql import ast as qlast, qltypes
    from edb.server.compiler import compiler as C
    class _Iso:
        def to_qltypes(self): return qltypes.TransactionIsolationLevel.SERIALIZABLE
    class _Acc:
        def to_qltypes(self): return qltypes.TransactionAccessMode.READ_WRITE
    C._get_config_val = lambda ctx, name: _Iso() if 'isolation' in name else _Acc()       # (session config lookup needs the std schema)
    C.ddl.produce_feature_used_metrics = lambda compiler_state, schema: None                 # (metrics need the std schema as well)
    mk = {'START': lambda n: qlast.StartTransaction(), 'COMMIT': lambda n: qlast.CommitTransaction(), 'ROLLBACK': lambda n: qlast.RollbackTransaction(),
          'DECLARE': lambda n: qlast.DeclareSavepoint(name=n), 'RELEASE': lambda n: qlast.ReleaseSavepoint(name=n), 'ROLLBACK_TO': lambda n: qlast.RollbackToSavepoint(name=n)}
    def run(cs, op):
        ctx = types.SimpleNamespace(state=cs, expect_rollback=False, compiler_state=None, _assert_not_in_migration_block=lambda ql: None)
        return C._compile_ql_transaction(ctx, mk[op[0]](op[1] if len(op) > 1 else None))
    # the prologue every statement inside a transaction goes through: the real Compiler.compile_in_tx up to the point where the statement itself is
    # compiled (the statement compiler `compile` is replaced by a no-op; CompileContext is the real class)
    from edb.server.compiler import enums as cenums
    class _Req:
        input_language = cenums.InputLanguage.EDGEQL; modaliases = None; session_config = None; source = None
        output_format = cenums.OutputFormat.BINARY; expect_one = False; implicit_limit = 0; inline_typeids = False; inline_typenames = False
        inline_objectids = True; protocol_version = (3, 0); input_format = cenums.InputFormat.BINARY
        def get_cache_key(self): return None
    C.compile = lambda ctx, source: 'unit-group'
    def prologue(cs, txid):
        dummy = types.SimpleNamespace(state=None, _try_compile_rollback=C.Compiler._try_compile_rollback)
        return C.Compiler.compile_in_tx(dummy, state=cs, txid=txid, request=_Req())
    run.prologue = prologue
    return run

def sql_scripts():
    """SQL over the binary protocol: the REAL compiler.compile_sql_as_unit_group on every script of <= 3 transaction-control statements, from each of three starting
    positions (outside a transaction / inside one / inside one with savepoint `a`).  Only the text -> SQLQueryUnit step (sql.compile_sql: native PostgreSQL parser) is replaced,
    by units carrying the transaction action of each statement.  Reference: PostgreSQL -- savepoint commands outside a transaction block and unknown savepoints are rejected,
    a script is rejected as a whole iff one of its statements is.  Returns (number of scripts, failure or None)."""
    import types, itertools
    from edb.server.compiler import compiler as C, dbstate as D, enums as E
    C._get_config_val = lambda ctx, name: None
    A = D.TxAction
    STMTS = [('BEGIN', A.START, None), ('COMMIT', A.COMMIT, None), ('ROLLBACK', A.ROLLBACK, None), ('SAVEPOINT a', A.DECLARE_SAVEPOINT, 'a'), ('SAVEPOINT b', A.DECLARE_SAVEPOINT, 'b'),
             ('RELEASE a', A.RELEASE_SAVEPOINT, 'a'), ('ROLLBACK TO a', A.ROLLBACK_TO_SAVEPOINT, 'a'), ('ROLLBACK TO b', A.ROLLBACK_TO_SAVEPOINT, 'b')]
    def ref(in_tx, sps, script):
        """PostgreSQL-style reference: returns (accepted, in_tx, savepoints)"""
        for _, act, nm in script:
            if act is A.START:
                if in_tx: return False, None, None      # (the compiler's Transaction refuses START inside a transaction; PostgreSQL only warns -- such scripts are skipped)
                in_tx = True
            elif act is A.COMMIT:
                if not in_tx: return False, in_tx, sps      # (COMMIT outside a transaction block: rejected by the compiler state, as for EdgeQL)
                in_tx = False; sps = []
            elif act is A.ROLLBACK: in_tx = False; sps = []
            elif act is A.DECLARE_SAVEPOINT:
                if not in_tx: return False, in_tx, sps
                sps = sps + [nm]
            else:
                if not in_tx or nm not in sps: return False, in_tx, sps
                k = len(sps) - 1 - sps[::-1].index(nm)
                sps = sps[:k] if act is A.RELEASE_SAVEPOINT else sps[:k + 1]
        return True, in_tx, sps
    n = 0
    for start in ('out', 'in', 'in+a'):
        for ln in (1, 2, 3):
            for script in itertools.product(STMTS, repeat=ln):
                if any(act is A.START for _, act, _ in script) and start != 'out' and script[0][1] is A.START: continue
                cs, _ = fresh_state(); in_tx = False; sps = []
                if start != 'out': cs.start_tx(); in_tx = True
                if start == 'in+a': cs.current_tx().declare_savepoint('a'); sps = ['a']
                ok_ref, in_tx2, sps2 = ref(in_tx, sps, script)
                if in_tx2 is None: continue
                units = [D.SQLQueryUnit(query=t, orig_query=t, fe_settings=D.DEFAULT_SQL_FE_SETTINGS, tx_action=act, sp_name=nm) for t, act, nm in script]
                C.sql.compile_sql = lambda *a, **k: (units, False)
                ctx = types.SimpleNamespace(state=cs, compiler_state=types.SimpleNamespace(std_schema=s_schema.FlatSchema()), branch_name=None, role_name=None,
                                            backend_runtime_params=None, protocol_version=(3, 0), implicit_limit=0, output_format=E.OutputFormat.BINARY)
                n += 1
                try: C.compile_sql_as_unit_group(ctx=ctx, source=None); ok = True
                except Exception as e: ok = False; err = e
                text = '; '.join(t for t, _, _ in script)
                if ok != ok_ref:
                    return n, dict(problem='SQL script %r from position %r: PostgreSQL %s it, the compiler %s it%s' % (text, start, 'accepts' if ok_ref else 'rejects', 'accepted' if ok else 'rejected',
                                                                                                              '' if ok else ' (%r)' % (err,)))
                if ok:
                    tx = cs.current_tx(); got_in = not tx.is_implicit(); got_sps = [sp.name for sp in tx._savepoints.values()]
                    if got_in != in_tx2 or got_sps != sps2:
                        return n, dict(problem='after SQL script %r from position %r the compiler is %s a transaction with savepoints %r, expected %s with %r' % (
                            text, start, 'inside' if got_in else 'outside', got_sps, 'inside' if in_tx2 else 'outside', sps2))
    return n, None

_DRIVER = []

def sql_settings():
    """bounded stand-in for SQLTransactionState.apply: every history of <= 5 SET / BEGIN / COMMIT / ROLLBACK / SAVEPOINT / ROLLBACK TO statements (two savepoint names),
    from a session with a non-default setting and no transaction in progress, against a reference model of what PostgreSQL exposes: the value visible after every statement,
    the live savepoints after every ROLLBACK TO, and which ROLLBACK TO statements are accepted"""
    import immutables
    TA = dbstate.TxAction
    class U:
        def __init__(self, action, sp_name=None, set_vars=None, is_local=False):
            self.tx_action = action; self.sp_name = sp_name; self.frontend_only = bool(set_vars); self.set_vars = set_vars; self.is_local = is_local
    def run(history):
        st = dbstate.SQLTransactionState(in_tx=False, settings=immutables.Map({'x': ('session',)}), in_tx_settings=None, in_tx_local_settings=None, savepoints=[])
        cur = base = ('session',); ref = []; n = 0      # cur: visible value; base: value a ROLLBACK goes back to; ref: live savepoints (name, value)
        for op, name in history:
            if op == 'set':
                n += 1; cur = ('v%d' % n,); st.apply(U(None, set_vars={'x': cur}))
            elif op == 'begin': st.apply(U(TA.START))
            elif op == 'commit': st.apply(U(TA.COMMIT)); base = cur; ref = []
            elif op == 'rollback': st.apply(U(TA.ROLLBACK)); cur = base; ref = []
            elif op == 'sp':
                try: st.apply(U(TA.DECLARE_SAVEPOINT, name))
                except AssertionError: return None      # no transaction of any kind yet (first statement of the request): outside this model
                ref.append((name, cur))
            else:
                idx = max([i for i, (nm, _) in enumerate(ref) if nm == name], default=None)
                try: st.apply(U(TA.ROLLBACK_TO_SAVEPOINT, name)); ok = True; err = None
                except errors.TransactionError as e: ok = False; err = str(e)
                if idx is None:
                    if ok: return 'ROLLBACK TO %s accepted although no such savepoint exists' % name
                    return None
                if not ok: return 'ROLLBACK TO SAVEPOINT %s rejected (%s) although the savepoint exists (live savepoints: %s)' % (name, err, [nm for nm, _ in ref])
                del ref[idx + 1:]; cur = ref[idx][1]
                if [s_[0] for s_ in st.savepoints] != [nm for nm, _ in ref]:
                    return 'after ROLLBACK TO %s the live savepoints are %s, expected %s' % (name, [s_[0] for s_ in st.savepoints], [nm for nm, _ in ref])
            got = st.current_fe_settings().get('x')
            if got != cur: return 'after `%s` the setting x visible to the next statement is %r, expected %r' % (('%s %s' % (op, name or '')).strip(), got, cur)
        return None
    OPS = [('set', None), ('begin', None), ('commit', None), ('rollback', None), ('sp', 'a'), ('sp', 'b'), ('rb', 'a'), ('rb', 'b')]
    n = 0
    for L in range(1, 6):
        for h in itertools.product(OPS, repeat=L):
            n += 1
            p = run(h)
            if p: return n, dict(problem='SQL settings history %s: %s' % (' ; '.join(('%s %s' % (o, nm or '')).strip() for o, nm in h), p))
    return n, None

def run_history(hist, rnd, via_compiler=False):
    if via_compiler and not _DRIVER: _DRIVER.append(_compiler_driver())
    cs, base_schema = fresh_state()
    m = Model(observe(cs))
    counter = [0]
    for step, op in enumerate(hist):
        tx = cs.current_tx(); kind = op[0]; exp_reject = False; got_reject = False; ret = None
        try:
            unit = None
            if via_compiler and m.in_tx and kind != 'SYNC':
                # the server is in step with the compiler (it presents the position the compiler reported last): compiling the next statement must start
                # from exactly the current state -- nothing set since the last savepoint operation may be lost by the synchronisation step
                before = observe(cs); sp_before = [s_.name for s_ in cs.current_tx()._savepoints.values()]
                _DRIVER[0].prologue(cs, cs.current_tx().id)
                after = observe(cs)
                for k_ in ('aliases', 'schema', 'config'):
                    if after[k_] is not before[k_]:
                        return dict(step=step, op=op, problem='Compiler.compile_in_tx re-synchronised a state that was in sync: %s set after the last savepoint operation were lost before this statement' % k_)
                if [s_.name for s_ in cs.current_tx()._savepoints.values()] != sp_before:
                    return dict(step=step, op=op, problem='Compiler.compile_in_tx changed the savepoint list of a state that was in sync')
            if via_compiler and kind in ('START', 'COMMIT', 'ROLLBACK', 'DECLARE', 'RELEASE', 'ROLLBACK_TO'):
                # the statement goes through the real compiler entry point; the reference model is updated below and the
                # unit the compiler reports to the server (aliases, schema, savepoint name / id) is compared with it
                idx = [i for i, s_ in enumerate(m.sps) if len(op) > 1 and s_[1] == op[1]]
                exp_reject = {'START': m.in_tx, 'COMMIT': not m.in_tx, 'ROLLBACK': False, 'DECLARE': not m.in_tx,
                              'RELEASE': (not m.in_tx) or not idx, 'ROLLBACK_TO': (not m.in_tx) or not idx}[kind]
                schema_changed = m.cur['schema'] is not m.base['schema']
                unit = _DRIVER[0](cs, op)
                if exp_reject: pass
                elif kind == 'START': m.in_tx = True
                elif kind == 'COMMIT':
                    m.base = dict(m.cur); m.in_tx = False; m.sps = []
                    if unit.modaliases is not m.cur['aliases']: return dict(step=step, op=op, problem='COMMIT reports aliases that are not the committed ones')
                    if (unit.user_schema is not None) != schema_changed or (schema_changed and unit.user_schema is not m.cur['schema']):
                        return dict(step=step, op=op, problem='COMMIT reports the wrong user schema')
                elif kind == 'ROLLBACK':
                    m.cur = dict(m.base); m.in_tx = False; m.sps = []
                    if unit.modaliases is not m.cur['aliases']: return dict(step=step, op=op, problem='ROLLBACK reports aliases that are not those at transaction start')
                elif kind == 'DECLARE':
                    if unit.sp_name != op[1] or unit.sp_id is None: return dict(step=step, op=op, problem='DECLARE SAVEPOINT reports the wrong savepoint name / id')
                    m.sps.append((unit.sp_id, op[1], dict(m.cur)))
                elif kind == 'RELEASE': m.sps = m.sps[:idx[-1]]
                elif kind == 'ROLLBACK_TO':
                    m.cur = dict(m.sps[idx[-1]][2]); m.sps = m.sps[:idx[-1] + 1]
                    if unit.modaliases is not m.cur['aliases'] or unit.sp_name != op[1]:
                        return dict(step=step, op=op, problem='ROLLBACK TO SAVEPOINT reports aliases / name that are not those of the savepoint (the server applies the reported aliases to the session)')
            elif kind == 'START':
                exp_reject = m.in_tx
                cs.start_tx()
                if not exp_reject: m.in_tx = True
            elif kind == 'COMMIT':
                exp_reject = not m.in_tx
                cs.commit_tx()
                if not exp_reject: m.base = dict(m.cur); m.in_tx = False; m.sps = []
            elif kind == 'ROLLBACK':
                cs.rollback_tx(); m.cur = dict(m.base); m.in_tx = False; m.sps = []
            elif kind == 'DECLARE':
                exp_reject = not m.in_tx
                spid = tx.declare_savepoint(op[1])
                if not exp_reject: m.sps.append((spid, op[1], dict(m.cur)))
            elif kind in ('RELEASE', 'ROLLBACK_TO'):
                idx = [i for i, s in enumerate(m.sps) if s[1] == op[1]]
                exp_reject = (not m.in_tx) or not idx
                if kind == 'RELEASE':
                    tx.release_savepoint(op[1])
                    if not exp_reject: m.sps = m.sps[:idx[-1]]
                else:
                    ret = tx.rollback_to_savepoint(op[1])
                    if not exp_reject:
                        m.cur = dict(m.sps[idx[-1]][2]); m.sps = m.sps[:idx[-1] + 1]
                        if ret.modaliases is not m.cur['aliases'] or ret.user_schema is not m.cur['schema'] or ret.session_config is not m.cur['config']:
                            return dict(step=step, op=op, problem='ROLLBACK TO returned a state that is not the state at that savepoint')
            elif kind == 'ALIAS':
                counter[0] += 1; v = immutables.Map({None: 'default', 'x': 'm%d' % counter[0]}); tx.update_modaliases(v); m.cur['aliases'] = v
            elif kind == 'CONFIG':
                counter[0] += 1; v = immutables.Map({'c': counter[0]}); tx.update_session_config(v); m.cur['config'] = v
            elif kind == 'SCHEMA':
                v = FS(); tx._current = tx._current._replace(local_user_schema=v); m.cur['schema'] = v     # what update_schema does, without a ChainedSchema
            elif kind == 'SYNC':
                if not m.sps: continue
                i = (len(m.sps) - 1) if op[1] == 'last' else 0; spid = m.sps[i][0]
                cs.sync_tx(spid)
                # position reported by the server: no-op if it is the position the state is already at,
                # else the state at that savepoint, newer savepoints discarded
                if spid != m.pos:
                    m.cur = dict(m.sps[i][2]); m.sps = m.sps[:i + 1]; m.pos = spid
        except errors.TransactionError:
            got_reject = True
        if kind in ('START', 'COMMIT', 'ROLLBACK') and not got_reject or m.pos is None: m.pos = cs.current_tx().id     # ids are arbitrary: take the new transaction's id from the implementation
        if exp_reject != got_reject:
            return dict(step=step, op=op, problem='expected %s, real code %s' % ('rejection' if exp_reject else 'acceptance', 'rejected' if got_reject else 'accepted'))
        tx = cs.current_tx(); o = observe(cs)
        for k in ('aliases', 'schema', 'config'):
            if o[k] is not m.cur[k]:
                return dict(step=step, op=op, problem='%s the next statement is compiled against differ from the reference model' % k)
        names = [s.name for s in tx._savepoints.values()]
        if names != [s[1] for s in m.sps]:
            return dict(step=step, op=op, problem='savepoints %r, reference model %r' % (names, [s[1] for s in m.sps]))
        if tx.is_implicit() != (not m.in_tx):
            return dict(step=step, op=op, problem='in-transaction flag differs')
    return None

DRIVE_COMPILER = True

def main():
    seed, exh, n_random, max_len, out = int(sys.argv[1]), int(sys.argv[2]), int(sys.argv[3]), int(sys.argv[4]), sys.argv[5]
    rnd = random.Random(seed); res = dict(histories=0, failure=None, exhaustive_len=exh)
    def go(h):
        res['histories'] += 1
        f = run_history(h, rnd)
        if f: res['failure'] = dict(history=[list(x) for x in h], **f); return f
        if DRIVE_COMPILER:
            res['histories'] += 1
            f = run_history(h, rnd, via_compiler=True)
            if f: res['failure'] = dict(history=[list(x) for x in h], via='compiler._compile_ql_transaction', **f)
        return f
    done = False
    for L in range(1, exh + 1):
        for h in itertools.product(ALPHABET, repeat=L):
            if L > 1 and h[0] != ('START',): continue      # interesting histories start a transaction block
            if go(list(h)): done = True; break
        if done: break
    if not done:
        for _ in range(n_random):
            h = [('START',)] + [rnd.choice(ALPHABET) for _ in range(rnd.randint(2, max_len))]
            if go(h): break
    if not res['failure']:
        res['sql_scripts'], f = sql_scripts()
        if f: res['failure'] = dict(history=[], via='compiler.compile_sql_as_unit_group', **f)
    if not res['failure']:
        res['sql_settings_histories'], f = sql_settings()
        if f: res['failure'] = dict(history=[], via='dbstate.SQLTransactionState.apply', **f)
    json.dump(res, open(out, 'w'), indent=1)

if __name__ == '__main__':
    main()
