"""C09 sidecar contracts: compiler session state follows transaction / savepoint semantics
(edb/server/compiler/dbstate.py Transaction, CompilerConnectionState; compiler.py driver).

Abstract view (PostgreSQL-style): a transaction is (state0, current, savepoints) where savepoints is the ordered list
(id, name, snapshot) = the insertion-ordered dict Transaction._savepoints.  Spec operations, from the property text:
  ROLLBACK TO n : reject if no savepoint named n; i = LAST index named n; current := snapshot_i; savepoints := savepoints[..i]  (the named one is kept)
  RELEASE n     : reject if none; savepoints := savepoints[..i-1] (named one and all later ones gone); current kept
  DECLARE n     : append (fresh id, n, current)
  savepoint commands outside a transaction block are rejected; START inside / COMMIT outside are rejected.
"""
from pyvc.engine import World

DB = 'edb/server/compiler/dbstate.py'

def build():
    w = World('C09')
    w.refclass('Obj', {}, truthy='uninterpreted', universal=True)
    w.refclass('Tx', {'_savepoints': 'OMap[int,TS]', '_constate': 'CS', '_id': 'int', '_implicit': 'bool', '_current': 'TS', '_state0': 'TS'}, DB, 'Transaction')
    w.refclass('CS', {'_savepoints_log': 'OMap[int,TS]', '_current_tx': 'Tx', '_tx_count': 'int', '_user_schema': 'Opt[Obj]'}, DB, 'CompilerConnectionState')

    w.rec('TS', [('id', 'int'), ('name', 'Opt[str]'), ('local_user_schema', 'Opt[Obj]'), ('global_schema', 'Obj'), ('modaliases', 'Obj'),
                 ('session_config', 'Obj'), ('database_config', 'Obj'), ('system_config', 'Obj'), ('cached_reflection', 'Obj'), ('tx', 'Tx'),
                 ('migration_state', 'Opt[Obj]'), ('migration_rewrite_state', 'Opt[Obj]')], DB, 'TransactionState')

    # representation invariant used by the savepoint operations: every stored snapshot carries its own key as id
    w.define('IDS(m)', 'forall(0, len(m), lambda j: oval(m, okey(m, j)).id == okey(m, j))')
    w.define('name_at(m, j)', 'oval(m, okey(m, j)).name')
    w.define('none_named(m, lo, hi, nm)', 'forall(lo, hi, lambda j: name_at(m, j) != nm)')

    SP = 'self._savepoints'; OSP = 'old(self._savepoints)'
    w.contract(DB, 'Transaction._rollback_to_savepoint', params={'self': 'Tx', 'name': 'str'}, returns='TS',
        requires=['IDS(%s)' % SP], modifies=['Tx._savepoints', 'Tx._current'],
        ensures=[
            # the result is a savepoint of this transaction named `name` ...
            'result.id in %s' % OSP, 'result == oval(%s, result.id)' % OSP, 'result.name == name',
            # ... the LAST such one
            'none_named(%s, opos(%s, result.id) + 1, len(%s), name)' % (OSP, OSP, OSP),
            # rollback restores the state at that savepoint
            'self._current == result',
            # later savepoints are discarded, the named one and everything before it is kept unchanged
            'len(%s) == opos(%s, result.id) + 1' % (SP, OSP), 'oprefix(%s, %s, opos(%s, result.id) + 1)' % (SP, OSP, OSP),
            'IDS(%s)' % SP,
            'heap_same_except("Tx._savepoints", self) and heap_same_except("Tx._current", self)'],
        raises={'TransactionError': dict(only_if='none_named(self._savepoints, 0, len(self._savepoints), name)',
                                         ensures=['osame(%s, %s)' % (SP, OSP), 'self._current == old(self._current)', 'heap_same("Tx._savepoints")', 'heap_same("Tx._current")'])},
        loops={0: dict(fingerprint='for sp in reversed(self._savepoints.values())', index='i', vars={'sp': 'TS'}, invariant=[
                    'osame(%s, %s)' % (SP, OSP), 'self._current == old(self._current)', 'heap_same_except("Tx._current", self)',
                    'len(sp_ids_to_erase) == i',
                    'forall(0, i, lambda j: sp_ids_to_erase[j] == okey(%s, len(%s) - 1 - j))' % (OSP, OSP),
                    'none_named(%s, len(%s) - i, len(%s), name)' % (OSP, OSP, OSP)]),
               1: dict(fingerprint='for sp_id in sp_ids_to_erase', index='k', invariant=[
                    'len(%s) == len(%s) - k' % (SP, OSP), 'oprefix(%s, %s, len(%s) - k)' % (SP, OSP, OSP),
                    'forall(0, len(%s) - k, lambda j: opos(%s, okey(%s, j)) == j)' % (OSP, SP, OSP),
                    'heap_same_except("Tx._savepoints", self)', 'self._current == sp'])},
        hints={'var_types': {'sp_ids_to_erase': 'Seq[int]'}})

    LOOP0_INV = ['osame(%s, %s)' % (SP, OSP), 'self._current == old(self._current)', 'heap_same_except("Tx._current", self)',
                 'len(sp_ids_to_erase) == i',
                 'forall(0, i, lambda j: sp_ids_to_erase[j] == okey(%s, len(%s) - 1 - j))' % (OSP, OSP),
                 'none_named(%s, len(%s) - i, len(%s), name)' % (OSP, OSP, OSP)]
    LOOP1_INV = ['len(%s) == len(%s) - k' % (SP, OSP), 'oprefix(%s, %s, len(%s) - k)' % (SP, OSP, OSP),
                 'forall(0, len(%s) - k, lambda j: opos(%s, okey(%s, j)) == j)' % (OSP, SP, OSP),
                 'heap_same_except("Tx._savepoints", self)']
    w.contract(DB, 'Transaction._release_savepoint', params={'self': 'Tx', 'name': 'str'}, returns='none',
        requires=['IDS(%s)' % SP], modifies=['Tx._savepoints'],
        ensures=[
            # RELEASE n: the LAST savepoint named n and every later one are gone, earlier ones untouched, changes are kept
            'exists(0, len(%s), lambda p: name_at(%s, p) == name and none_named(%s, p + 1, len(%s), name) and len(%s) == p and oprefix(%s, %s, p))' % (OSP, OSP, OSP, OSP, SP, SP, OSP),
            'self._current == old(self._current)', 'IDS(%s)' % SP,
            'heap_same_except("Tx._savepoints", self)', 'heap_same("Tx._current")'],
        raises={'TransactionError': dict(only_if='none_named(self._savepoints, 0, len(self._savepoints), name)',
                                         ensures=['osame(%s, %s)' % (SP, OSP), 'heap_same("Tx._savepoints")', 'heap_same("Tx._current")'])},
        loops={0: dict(fingerprint='for sp in reversed(self._savepoints.values())', index='i', vars={'sp': 'TS'},
                       invariant=[x for x in LOOP0_INV if '_current' not in x]),
               1: dict(fingerprint='for sp_id in sp_ids_to_erase', index='k', invariant=LOOP1_INV)},
        hints={'var_types': {'sp_ids_to_erase': 'Seq[int]'}})
    return build2(w)

def build2(w):
    """remaining Transaction / CompilerConnectionState operations"""
    SP = 'self._savepoints'; OSP = 'old(self._savepoints)'
    FRAME_TX = lambda fields: ' and '.join('heap_same_except("Tx.%s", self)' % f for f in fields)
    ALL_TX = ['_savepoints', '_constate', '_id', '_implicit', '_current', '_state0']
    def tx_unchanged_except(fields):
        return [('heap_same("Tx.%s")' % f) if f not in fields else ('heap_same_except("Tx.%s", self)' % f) for f in ALL_TX]
    w.contract(DB, 'CompilerConnectionState._new_txid', params={'self': 'CS'}, returns='int', modifies=['CS._tx_count'],
        ensures=['result == old(self._tx_count) + 1', 'self._tx_count == result', 'heap_same_except("CS._tx_count", self)'])
    # ids handed out by the connection are fresh: everything stored so far is <= _tx_count
    w.define('BOUNDED(m, c)', 'forall(0, len(m), lambda j: okey(m, j) <= c)')
    w.contract(DB, 'Transaction._declare_savepoint', params={'self': 'Tx', 'name': 'str'}, returns='int',
        requires=['IDS(%s)' % SP, 'BOUNDED(%s, self._constate._tx_count)' % SP],
        modifies=['Tx._savepoints', 'CS._tx_count', 'CS._savepoints_log'],
        ensures=['result == old(self._constate._tx_count) + 1', 'self._constate._tx_count == result',
                 # DECLARE n appends (fresh id, n, current state) and changes nothing else
                 'len(%s) == len(%s) + 1' % (SP, OSP), 'okey(%s, len(%s)) == result' % (SP, OSP), 'oprefix(%s, %s, len(%s))' % (SP, OSP, OSP),
                 'oval(%s, result).id == result' % SP, 'oval(%s, result).name == name' % SP,
                 'oval(%s, result).modaliases == self._current.modaliases and oval(%s, result).local_user_schema == self._current.local_user_schema' % (SP, SP),
                 'oval(%s, result).global_schema == self._current.global_schema and oval(%s, result).session_config == self._current.session_config' % (SP, SP),
                 'oval(%s, result).database_config == self._current.database_config and oval(%s, result).system_config == self._current.system_config' % (SP, SP),
                 'oval(%s, result).cached_reflection == self._current.cached_reflection and oval(%s, result).tx == self._current.tx' % (SP, SP),
                 'oval(%s, result).migration_state == self._current.migration_state and oval(%s, result).migration_rewrite_state == self._current.migration_rewrite_state' % (SP, SP),
                 'IDS(%s)' % SP, 'BOUNDED(%s, self._constate._tx_count)' % SP,
                 'result in self._constate._savepoints_log', 'self._constate._savepoints_log[result] == oval(%s, result)' % SP,
                 'heap_same("Tx._current")', 'heap_same_except("Tx._savepoints", self)',
                 'heap_same_except("CS._tx_count", self._constate)', 'heap_same_except("CS._savepoints_log", self._constate)'])
    IMPL = {'TransactionError': dict(only_if='self._implicit', ensures=['heap_same("Tx._savepoints")', 'heap_same("Tx._current")', 'heap_same("CS._savepoints_log")'])}
    dc = w.contracts[DB + ':Transaction._declare_savepoint']
    w.contract(DB, 'Transaction.declare_savepoint', params={'self': 'Tx', 'name': 'str'}, returns='int',
        requires=dc.requires, modifies=dc.modifies, ensures=['not self._implicit'] + dc.ensures, raises=IMPL)     # savepoint commands outside a transaction block are rejected
    rb = w.contracts[DB + ':Transaction._rollback_to_savepoint']
    w.contract(DB, 'Transaction.rollback_to_savepoint', params={'self': 'Tx', 'name': 'str'}, returns='TS',
        requires=rb.requires, modifies=rb.modifies, ensures=['not self._implicit'] + rb.ensures,
        raises={'TransactionError': dict(only_if='self._implicit or none_named(self._savepoints, 0, len(self._savepoints), name)', ensures=rb.raises['TransactionError']['ensures'])})
    rl = w.contracts[DB + ':Transaction._release_savepoint']
    w.contract(DB, 'Transaction.release_savepoint', params={'self': 'Tx', 'name': 'str'}, returns='none',
        requires=rl.requires, modifies=rl.modifies, ensures=['not self._implicit'] + rl.ensures,
        raises={'TransactionError': dict(only_if='self._implicit or none_named(self._savepoints, 0, len(self._savepoints), name)', ensures=rl.raises['TransactionError']['ensures'])})
    w.contract(DB, 'Transaction.is_implicit', params={'self': 'Tx'}, returns='bool', inline=True)
    w.contract(DB, 'Transaction.make_explicit', params={'self': 'Tx'}, returns='none', modifies=['Tx._implicit'],
        ensures=['old(self._implicit)', 'not self._implicit', 'heap_same_except("Tx._implicit", self)'],
        raises={'TransactionError': dict(only_if='not self._implicit', ensures=['heap_same("Tx._implicit")'])})
    # state updates: exactly one component of the current state changes
    FIELDS = ['id', 'name', 'local_user_schema', 'global_schema', 'modaliases', 'session_config', 'database_config', 'system_config',
              'cached_reflection', 'tx', 'migration_state', 'migration_rewrite_state']
    def upd(fn, param, field, pty='Obj'):
        others = ' and '.join('self._current.%s == old(self._current.%s)' % (f, f) for f in FIELDS if f != field)
        w.contract(DB, 'Transaction.' + fn, params={'self': 'Tx', param: pty}, returns='none', modifies=['Tx._current'],
                   ensures=['self._current.%s == %s' % (field, param), others, 'heap_same_except("Tx._current", self)'])
    upd('update_modaliases', 'new_modaliases', 'modaliases'); upd('update_session_config', 'new_config', 'session_config')
    upd('update_database_config', 'new_config', 'database_config'); upd('update_cached_reflection', 'new', 'cached_reflection')
    upd('update_migration_state', 'mstate', 'migration_state', 'Opt[Obj]'); upd('update_migration_rewrite_state', 'mrstate', 'migration_rewrite_state', 'Opt[Obj]')
    for fn, field in (('get_modaliases', 'modaliases'), ('get_session_config', 'session_config'), ('get_database_config', 'database_config'),
                      ('get_system_config', 'system_config'), ('get_global_schema', 'global_schema'), ('get_cached_reflection', 'cached_reflection')):
        w.contract(DB, 'Transaction.' + fn, params={'self': 'Tx'}, returns='Obj', ensures=['result == self._current.%s' % field])
    build3(w)
    return w

def build3(w):
    """transaction boundaries: start / commit / rollback / re-synchronisation"""
    COMPS = ['global_schema', 'modaliases', 'session_config', 'database_config', 'system_config', 'cached_reflection']
    KW = {'user_schema': 'Obj', 'global_schema': 'Obj', 'modaliases': 'Obj', 'session_config': 'Obj', 'database_config': 'Obj',
          'system_config': 'Obj', 'cached_reflection': 'Obj'}
    # user_schema of a state: the root schema of the connection unless the transaction changed it (TransactionState.user_schema)
    w.define('uschema(ts)', 'some(ts.tx._constate._user_schema) if is_none(ts.local_user_schema) else some(ts.local_user_schema)')
    w.contract(DB, 'TransactionState.user_schema', params={'self': 'TS'}, returns='Obj', inline=True)
    w.contract(DB, 'Transaction.root_user_schema', params={'self': 'Tx'}, returns='Obj', inline=True)
    w.contract(DB, 'CompilerConnectionState.root_user_schema', params={'self': 'CS'}, returns='Obj', inline=True)
    w.contract(DB, 'Transaction.id', params={'self': 'Tx'}, returns='int', inline=True)
    NEWTX = lambda t, cs='constate', impl='implicit': ['%s._constate == %s' % (t, cs), '%s._implicit == %s' % (t, impl), 'len(%s._savepoints) == 0' % t, '%s._state0 == %s._current' % (t, t),
                       '%s._current.tx == %s' % (t, t), '%s._current.id == %s._id' % (t, t), 'is_none(%s._current.name)' % t,
                       'is_none(%s._current.migration_state) and is_none(%s._current.migration_rewrite_state)' % (t, t)] + \
                      ['%s._current.%s == %s' % (t, c, c) for c in COMPS] + \
                      ['uschema(%s._current) == user_schema' % t]
    P = {'self': 'Tx', 'constate': 'CS', 'implicit': 'bool'}; P.update(KW)
    w.contract(DB, 'Transaction.__init__', params=P, returns='none',
        requires=['not isinstance(user_schema, s_schema.ChainedSchema)', 'not is_none(constate._user_schema)'],
        modifies=['Tx._savepoints', 'Tx._constate', 'Tx._id', 'Tx._implicit', 'Tx._current', 'Tx._state0', 'CS._tx_count'],
        ensures=NEWTX('self') + ['self._id == old(constate._tx_count) + 1', 'constate._tx_count == self._id'] +
                ['heap_same_except("Tx.%s", self)' % f for f in ('_savepoints', '_constate', '_id', '_implicit', '_current', '_state0')] +
                ['heap_same_except("CS._tx_count", constate)'])
    P = {'self': 'CS'}; P.update(KW)
    w.contract(DB, 'CompilerConnectionState._init_current_tx', params=P, returns='none',
        requires=['isinstance(user_schema, s_schema.FlatSchema)', 'isinstance(global_schema, s_schema.FlatSchema)',
                  'not isinstance(user_schema, s_schema.ChainedSchema)', 'not is_none(self._user_schema)'],
        modifies=['Tx._savepoints', 'Tx._constate', 'Tx._id', 'Tx._implicit', 'Tx._current', 'Tx._state0', 'CS._tx_count', 'CS._current_tx'],
        ensures=NEWTX('self._current_tx', 'self', 'True') +
                ['self._current_tx._id == old(self._tx_count) + 1', 'self._tx_count == self._current_tx._id',
                 'self._current_tx != old(self._current_tx)',
                 # a NEW transaction object: every existing transaction (and hence every logged savepoint) is untouched
                 'heap_same_except("CS._current_tx", self)', 'heap_same_except("CS._tx_count", self)'] +
                ['heap_same_except("Tx.%s", self._current_tx)' % f for f in ('_savepoints', '_constate', '_id', '_implicit', '_current', '_state0')])
    w.trusted.append('schema classes: a FlatSchema is not a ChainedSchema (isinstance predicates of opaque objects are uninterpreted; disjointness assumed where a contract requires both)')
    w.contract(DB, 'CompilerConnectionState.start_tx', params={'self': 'CS'}, returns='none', modifies=['Tx._implicit'],
        # START inside a transaction block is rejected; otherwise the block begins and nothing else changes
        ensures=['old(self._current_tx._implicit)', 'not self._current_tx._implicit', 'heap_same_except("Tx._implicit", self._current_tx)'],
        raises={'TransactionError': dict(only_if='not self._current_tx._implicit', ensures=['heap_same("Tx._implicit")'])})
    w.contract(DB, 'CompilerConnectionState.can_sync_to_savepoint', params={'self': 'CS', 'spid': 'int'}, returns='bool',
        ensures=['result == (spid in self._savepoints_log)'])
    TXF = ('_savepoints', '_constate', '_id', '_implicit', '_current', '_state0')
    def newtx_from(src):
        """the connection now runs a NEW implicit transaction whose start state and current state are `src` (an old TS value)"""
        t = 'self._current_tx'
        return ['%s != old(self._current_tx)' % t, '%s._constate == self' % t, '%s._implicit' % t, 'len(%s._savepoints) == 0' % t,
                '%s._state0 == %s._current' % (t, t)] + ['%s._current.%s == %s.%s' % (t, c, src, c) for c in COMPS] + \
               ['uschema(%s._current) == old(uschema(%s))' % (t, src.replace('old(', '').rstrip(')') if src.startswith('old(') else src)] + \
               ['heap_same_except("Tx.%s", self._current_tx)' % f for f in TXF] + ['heap_same_except("CS._current_tx", self)', 'heap_same("CS._savepoints_log")', 'heap_same("CS._user_schema")']
    PRE = ['not is_none(self._user_schema)', 'self._current_tx._constate == self', 'self._current_tx._current.tx == self._current_tx', 'self._current_tx._state0.tx == self._current_tx',
           # schema values held in transaction states are flat schemas (what update_schema stores)
           'isinstance(uschema(self._current_tx._current), s_schema.FlatSchema) and not isinstance(uschema(self._current_tx._current), s_schema.ChainedSchema)',
           'isinstance(uschema(self._current_tx._state0), s_schema.FlatSchema) and not isinstance(uschema(self._current_tx._state0), s_schema.ChainedSchema)',
           'isinstance(self._current_tx._current.global_schema, s_schema.FlatSchema) and isinstance(self._current_tx._state0.global_schema, s_schema.FlatSchema)']
    MOD = ['Tx._savepoints', 'Tx._constate', 'Tx._id', 'Tx._implicit', 'Tx._current', 'Tx._state0', 'CS._tx_count', 'CS._current_tx']
    w.contract(DB, 'CompilerConnectionState.rollback_tx', params={'self': 'CS'}, returns='TS', requires=PRE, modifies=MOD,
        # ROLLBACK (allowed outside a block, like Postgres): the state at transaction start becomes current again, savepoints are gone
        ensures=['result == old(self._current_tx._state0)'] + newtx_from('old(self._current_tx._state0)'))
    w.contract(DB, 'CompilerConnectionState.commit_tx', params={'self': 'CS'}, returns='TS', requires=PRE, modifies=MOD,
        # COMMIT: the current state becomes the new baseline; rejected outside a transaction block
        ensures=['not old(self._current_tx._implicit)', 'result == old(self._current_tx._current)'] + newtx_from('old(self._current_tx._current)'),
        raises={'TransactionError': dict(only_if='self._current_tx._implicit', ensures=['heap_same("CS._current_tx")'] + ['heap_same("Tx.%s")' % f for f in TXF])})
    T_ = 'self._current_tx._savepoints'; OT = 'old(self._savepoints_log[spid].tx._savepoints)'
    L_ = 'self._savepoints_log'; OL = 'old(self._savepoints_log)'
    def kept(cur, old_, bound):
        return ['forall(int, lambda k: (k in %s) == ((k in %s) and (k <= spid or opos(%s, k) >= %s)))' % (cur, old_, old_, bound),
                'forall(int, lambda k: implies(k in %s, oval(%s, k) == oval(%s, k)))' % (cur, cur, old_)]
    w.contract(DB, 'CompilerConnectionState.sync_to_savepoint', params={'self': 'CS', 'spid': 'int'}, returns='none',
        modifies=['CS._current_tx', 'CS._savepoints_log', 'Tx._current', 'Tx._id', 'Tx._savepoints'],
        ensures=[
            # the state at that savepoint becomes current ...
            'self._current_tx == old(self._savepoints_log[spid]).tx', 'self._current_tx._current == old(self._savepoints_log[spid])', 'self._current_tx._id == spid',
            # ... and every savepoint declared after it is discarded, in the transaction and in the connection-wide log; the others are kept unchanged
            'forall(int, lambda k: (k in %s) == ((k in %s) and k <= spid))' % (T_, OT), 'forall(int, lambda k: implies(k in %s, oval(%s, k) == oval(%s, k)))' % (T_, T_, OT),
            'forall(int, lambda k: (k in %s) == ((k in %s) and k <= spid))' % (L_, OL), 'forall(int, lambda k: implies(k in %s, oval(%s, k) == oval(%s, k)))' % (L_, L_, OL),
            'heap_same_except("Tx._savepoints", self._current_tx) and heap_same_except("Tx._current", self._current_tx) and heap_same_except("Tx._id", self._current_tx)',
            'heap_same_except("CS._current_tx", self) and heap_same_except("CS._savepoints_log", self)'],
        raises={'RuntimeError': dict(only_if='not (spid in self._savepoints_log)',
                                     ensures=['heap_same("CS._current_tx")', 'heap_same("CS._savepoints_log")', 'heap_same("Tx._current")', 'heap_same("Tx._id")', 'heap_same("Tx._savepoints")'])},
        loops={0: dict(fingerprint='for id in tuple(self._current_tx._savepoints)', index='i',
                       invariant=kept(T_, OT, 'i') + ['heap_same_except("Tx._savepoints", self._current_tx)', 'len(%s) >= 0' % T_]),
               1: dict(fingerprint='for id in tuple(self._savepoints_log)', index='i',
                       invariant=kept(L_, OL, 'i') + ['heap_same_except("CS._savepoints_log", self)'])})
    # second view of sync_to_savepoint, quantifier-free: one arbitrary savepoint id K followed through both clean-up loops (a wrong bound is refuted with a definite counter-model)
    def kept_g(cur, old_, bound):
        return ['(K in %s) == ((K in %s) and (K <= spid or opos(%s, K) >= %s))' % (cur, old_, old_, bound), 'implies(K in %s, oval(%s, K) == oval(%s, K))' % (cur, cur, old_)]
    w.contract(DB, 'CompilerConnectionState.sync_to_savepoint', view='ground', params={'self': 'CS', 'spid': 'int'}, returns='none', ghost={'K': 'int'},
        modifies=['CS._current_tx', 'CS._savepoints_log', 'Tx._current', 'Tx._id', 'Tx._savepoints'],
        ensures=['(K in %s) == ((K in %s) and K <= spid)' % (T_, OT), 'implies(K in %s, oval(%s, K) == oval(%s, K))' % (T_, T_, OT),
                 '(K in %s) == ((K in %s) and K <= spid)' % (L_, OL), 'implies(K in %s, oval(%s, K) == oval(%s, K))' % (L_, L_, OL)],
        # (that the pops never raise KeyError is proved in the quantified view; one tracked key cannot show it)
        raises={'RuntimeError': dict(only_if='not (spid in self._savepoints_log)'), 'KeyError': {}},
        loops={0: dict(fingerprint='for id in tuple(self._current_tx._savepoints)', index='i', invariant=kept_g(T_, OT, 'i') + ['heap_same_except("Tx._savepoints", self._current_tx)', 'len(%s) >= 0' % T_]),
               1: dict(fingerprint='for id in tuple(self._savepoints_log)', index='i', invariant=kept_g(L_, OL, 'i') + ['heap_same_except("CS._savepoints_log", self)'] + kept_g(T_, OT, 'len(%s)' % OT)[:0])})
    w.contract(DB, 'CompilerConnectionState.sync_tx', params={'self': 'CS', 'txid': 'int'}, returns='none',
        modifies=['CS._current_tx', 'CS._savepoints_log', 'Tx._current', 'Tx._id', 'Tx._savepoints'],
        ensures=[
            # SYNC(id): nothing happens if the state already is at that position; otherwise exactly sync_to_savepoint(id)
            'implies(old(self._current_tx._id) == txid, heap_same("CS._current_tx") and heap_same("CS._savepoints_log") and heap_same("Tx._current") and heap_same("Tx._id") and heap_same("Tx._savepoints"))',
            'implies(old(self._current_tx._id) != txid, old(txid in self._savepoints_log) and self._current_tx == old(self._savepoints_log[txid]).tx and self._current_tx._current == old(self._savepoints_log[txid]) and self._current_tx._id == txid)'],
        raises={'InternalServerError': dict(only_if='self._current_tx._id != txid and not (txid in self._savepoints_log)',
                                            ensures=['heap_same("CS._current_tx")', 'heap_same("CS._savepoints_log")', 'heap_same("Tx._current")', 'heap_same("Tx._savepoints")'])})
    build4(w, PRE, MOD, TXF)
    return w

def build4(w, PRE, MOD, TXF):
    """the compile-time driver: each transaction statement class performs exactly its state operation and reports its outcome"""
    COMP = 'edb/server/compiler/compiler.py'; QLAST = 'edb/edgeql/ast.py'; QLT = 'edb/edgeql/qltypes.py'
    w.enum('Iso', QLT, 'TransactionIsolationLevel'); w.enum('Acc', QLT, 'TransactionAccessMode'); w.enum('Defer', QLT, 'TransactionDeferMode')
    w.enum('TxAction', DB, 'TxAction')
    w.refclass('Ql', {'name': 'str', 'isolation': 'Opt[Iso]', 'access': 'Opt[Acc]', 'deferrable': 'Opt[Defer]', 'span': 'Obj'})
    w.hierarchies['Ql'] = QLAST
    w.refclass('Ctx', {'state': 'CS', 'expect_rollback': 'bool', 'compiler_state': 'Obj'}, COMP, 'CompileContext')
    w.refclass('IsoCfg', {}); w.refclass('AccCfg', {})
    w.ext_methods['IsoCfg.to_qltypes'] = dict(params={}, returns='Iso'); w.ext_methods['AccCfg.to_qltypes'] = dict(params={}, returns='Acc')
    w.ext_funcs['_get_config_val'] = dict(params={'ctx': 'Ctx', 'name': 'str'}, returns_seq=['IsoCfg', 'AccCfg'], returns='IsoCfg')
    w.ext_funcs['pg_common.quote_ident'] = dict(params={'ident': 'str'}, returns='str')
    w.ext_funcs['ddl.produce_feature_used_metrics'] = dict(params={'cs': 'Obj', 'schema': 'Obj'}, returns='Obj')
    w.rec('TCQ', [('sql', 'bytes'), ('action', 'TxAction'), ('cacheable', 'bool'), ('modaliases', 'Opt[Obj]'), ('user_schema', 'Opt[Obj]'),
                  ('cached_reflection', 'Opt[Obj]'), ('global_schema', 'Opt[Obj]'), ('sp_name', 'Opt[str]'), ('sp_id', 'Opt[int]'),
                  ('feature_used_metrics', 'Opt[Obj]')], DB, 'TxControlQuery')
    w.contract(DB, 'CompilerConnectionState.current_tx', params={'self': 'CS'}, returns='Tx', inline=True)
    w.contract(DB, 'Transaction.get_migration_state', params={'self': 'Tx'}, returns='Opt[Obj]', inline=True)
    w.contract(COMP, 'CompileContext._assert_not_in_migration_block', params={'self': 'Ctx', 'ql': 'Ql'}, returns='none', trusted=True,
               ensures=['is_none(self.state._current_tx._current.migration_state)'],
               raises={'QueryError': dict(only_if='not is_none(self.state._current_tx._current.migration_state)', ensures=[])})
    w.trusted.append('value equality (==) of opaque immutable maps is modelled as identity (get_cached_reflection_if_updated)')
    T = 'self._current'; S0 = 'self._state0'
    w.contract(DB, 'Transaction.get_user_schema_if_updated', params={'self': 'Tx'}, returns='Opt[Obj]',
        requires=['not is_none(self._constate._user_schema)', 'self._current.tx == self', 'self._state0.tx == self'],
        ensures=['is_none(result) == (uschema(%s) == uschema(%s))' % (T, S0), 'implies(not is_none(result), some(result) == uschema(%s))' % T])
    w.contract(DB, 'Transaction.get_global_schema_if_updated', params={'self': 'Tx'}, returns='Opt[Obj]',
        ensures=['is_none(result) == (%s.global_schema == %s.global_schema)' % (T, S0), 'implies(not is_none(result), some(result) == %s.global_schema)' % T])
    w.contract(DB, 'Transaction.get_cached_reflection_if_updated', params={'self': 'Tx'}, returns='Opt[Obj]',
        ensures=['is_none(result) == (%s.cached_reflection == %s.cached_reflection)' % (T, S0), 'implies(not is_none(result), some(result) == %s.cached_reflection)' % T])
    st = 'ctx.state'; tx = 'ctx.state._current_tx'; otx = 'old(ctx.state._current_tx)'
    ISA = lambda c: 'isinstance(ql, qlast.%s)' % c
    import re as _re
    req = [_re.sub(r'\bself\b', 'ctx.state', c) for c in PRE] + ['IDS(%s._savepoints)' % tx, 'BOUNDED(%s._savepoints, ctx.state._tx_count)' % tx, '%s._constate == ctx.state' % tx]
    w.contract(COMP, '_compile_ql_transaction', params={'ctx': 'Ctx', 'ql': 'Ql'}, returns='TCQ', requires=req,
        modifies=MOD + ['CS._savepoints_log'],
        ensures=[
            'implies(ctx.expect_rollback, %s or %s)' % (ISA('RollbackTransaction'), ISA('RollbackToSavepoint')),
            # START TRANSACTION
            'implies(%s, result.action == TxAction.START and old(%s._implicit) and not %s._implicit and %s == %s and is_none(result.modaliases) and heap_same("Tx._current") and heap_same("Tx._savepoints"))' % (ISA('StartTransaction'), tx, tx, tx, otx),
            # COMMIT: current state becomes the baseline of a new transaction; the unit reports the committed aliases and the schema iff it changed
            'implies(%s, result.action == TxAction.COMMIT and not old(%s._implicit) and %s != %s and %s._implicit and len(%s._savepoints) == 0)' % (ISA('CommitTransaction'), tx, tx, otx, tx, tx),
            'implies(%s, %s._state0 == %s._current and %s._current.modaliases == old(%s._current.modaliases) and uschema(%s._current) == old(uschema(%s._current)))' % (ISA('CommitTransaction'), tx, tx, tx, tx, tx, tx),
            'implies(%s, not is_none(result.modaliases) and some(result.modaliases) == old(%s._current.modaliases))' % (ISA('CommitTransaction'), tx),
            'implies(%s, is_none(result.user_schema) == old(uschema(%s._current) == uschema(%s._state0)) and implies(not is_none(result.user_schema), some(result.user_schema) == old(uschema(%s._current))))' % (ISA('CommitTransaction'), tx, tx, tx),
            # ROLLBACK: state at transaction start
            'implies(%s, result.action == TxAction.ROLLBACK and %s != %s and %s._implicit and len(%s._savepoints) == 0 and %s._current.modaliases == old(%s._state0.modaliases) and uschema(%s._current) == old(uschema(%s._state0)))' % (ISA('RollbackTransaction'), tx, otx, tx, tx, tx, tx, tx, tx),
            'implies(%s, not is_none(result.modaliases) and some(result.modaliases) == old(%s._state0.modaliases))' % (ISA('RollbackTransaction'), tx),
            # savepoints
            'implies(%s, result.action == TxAction.DECLARE_SAVEPOINT and not %s._implicit and result.sp_name == ql.name and not is_none(result.sp_id) and some(result.sp_id) in %s._savepoints and oval(%s._savepoints, some(result.sp_id)).name == ql.name and len(%s._savepoints) == old(len(%s._savepoints)) + 1 and heap_same("Tx._current"))' % (ISA('DeclareSavepoint'), tx, tx, tx, tx, tx),
            'implies(%s, result.action == TxAction.RELEASE_SAVEPOINT and not %s._implicit and heap_same("Tx._current") and len(%s._savepoints) < old(len(%s._savepoints)))' % (ISA('ReleaseSavepoint'), tx, tx, tx),
            'implies(%s, result.action == TxAction.ROLLBACK_TO_SAVEPOINT and not %s._implicit and result.sp_name == ql.name and %s._current.name == ql.name and (%s._current.id in old(%s._savepoints)) and not is_none(result.modaliases) and some(result.modaliases) == %s._current.modaliases)' % (ISA('RollbackToSavepoint'), tx, tx, tx, tx, tx),
            'heap_same("CS._current_tx") or %s or %s' % (ISA('CommitTransaction'), ISA('RollbackTransaction'))],
        raises={'TransactionError': dict(ensures=['heap_same("CS._current_tx")', 'heap_same("Tx._current")', 'heap_same("Tx._savepoints")']),
                'QueryError': dict(ensures=['heap_same("CS._current_tx")', 'heap_same("Tx._current")', 'heap_same("Tx._savepoints")', 'heap_same("Tx._implicit")']),
                'ValueError': dict(only_if='not isinstance(ql, qlast.Transaction) or not (%s)' % ' or '.join(ISA(c) for c in ('StartTransaction', 'CommitTransaction', 'RollbackTransaction', 'DeclareSavepoint', 'ReleaseSavepoint', 'RollbackToSavepoint')), ensures=['heap_same("CS._current_tx")'])})
    # session commands (SET ALIAS / SET MODULE / RESET ...): exactly the aliases of the current state of the current transaction change -- the savepoints taken so far,
    # the state at transaction start and every other component keep their values (so ROLLBACK / ROLLBACK TO restore the earlier aliases); nothing changes on failure
    w.refclass('Decl', {'module': 'Obj', 'alias': 'Obj'}); w.classes['Ql']['decl'] = 'Decl'; w.classes['Ql']['alias'] = 'Obj'
    w.ufunc('MSET', ['Obj', 'Opt[Obj]', 'Obj'], 'Obj'); w.ufunc('MDEL', ['Obj', 'Obj'], 'Obj')
    w.opaque_exprs['DEFAULT_MODULE_ALIASES_MAP'] = 'Obj'; w.opaque_exprs['s_mod.DEFAULT_MODULE_ALIAS'] = 'Obj'; w.opaque_exprs['s_mod.Module'] = 'Obj'
    w.ext_methods['Obj.set'] = dict(params={'k': 'Opt[Obj]', 'v': 'Obj'}, returns='Obj', returns_expr='MSET(self, k, v)')
    w.ext_methods['Obj.delete'] = dict(params={'k': 'Obj'}, returns='Obj', returns_expr='MDEL(self, k)', raises={'KeyError': {}})
    w.ext_methods['Obj.get_global'] = dict(params={'cls': 'Obj', 'name': 'Obj'}, returns='Obj', raises={'InvalidReferenceError': {}})
    w.ext_methods['Tx.get_schema'] = dict(params={'std': 'Obj'}, returns='Obj')
    w.ext_funcs['dbstate.SessionStateQuery'] = dict(params={}, returns='Obj')
    w.classes['Obj']['std_schema'] = 'Obj'
    OTH = ' and '.join('%s._current.%s == old(%s._current.%s)' % (tx, f, tx, f) for f in
                       ['id', 'name', 'local_user_schema', 'global_schema', 'session_config', 'database_config', 'system_config', 'cached_reflection', 'tx', 'migration_state', 'migration_rewrite_state'])
    SAME = ['heap_same("CS._current_tx")', 'heap_same("Tx._current")', 'heap_same("Tx._savepoints")', 'heap_same("Tx._state0")', 'heap_same("CS._savepoints_log")']
    w.contract(COMP, '_compile_ql_sess_state', params={'ctx': 'Ctx', 'ql': 'Ql'}, returns='Obj', modifies=['Tx._current'],
        ensures=['implies(%s, %s._current.modaliases == MSET(old(%s._current.modaliases), ql.decl.alias, ql.decl.module))' % (ISA('SessionSetAliasDecl'), tx, tx),
                 'implies(%s and not %s, %s._current.modaliases == MSET(old(%s._current.modaliases), None, s_mod.DEFAULT_MODULE_ALIAS))' % (ISA('SessionResetModule'), ISA('SessionSetAliasDecl'), tx, tx),
                 'implies(%s and not %s and not %s, %s._current.modaliases == DEFAULT_MODULE_ALIASES_MAP)' % (ISA('SessionResetAllAliases'), ISA('SessionSetAliasDecl'), ISA('SessionResetModule'), tx),
                 'implies(%s and not %s and not %s and not %s, %s._current.modaliases == MDEL(old(%s._current.modaliases), ql.alias))' % (ISA('SessionResetAliasDecl'), ISA('SessionSetAliasDecl'), ISA('SessionResetModule'), ISA('SessionResetAllAliases'), tx, tx),
                 OTH, 'heap_same_except("Tx._current", %s)' % tx, 'heap_same("CS._current_tx")', 'heap_same("Tx._savepoints")', 'heap_same("Tx._state0")', 'heap_same("CS._savepoints_log")'],
        raises={'UnknownModuleError': dict(ensures=SAME), 'KeyError': dict(ensures=SAME), 'InternalServerError': dict(ensures=SAME)})
    # configuration commands: CONFIGURE SESSION changes exactly the session config of the current state (to the operation applied to the old value),
    # CONFIGURE CURRENT DATABASE exactly the database config, CONFIGURE INSTANCE / SET GLOBAL nothing in the compiler's state; nothing changes on failure.
    # (that the savepoints / the state at transaction start are left alone is what makes ROLLBACK [TO] restore the earlier configuration)
    w.enum('Scope', QLT, 'ConfigScope'); w.classes['Ql']['scope'] = 'Scope'
    w.refclass('Op', {'setting_name': 'Obj'}); w.ufunc('APPLY', ['Op', 'Obj', 'Obj'], 'Obj'); w.ufunc('SPEC', ['Ctx', 'Op'], 'Obj')
    w.ext_methods['Op.apply'] = dict(params={'spec': 'Obj', 'storage': 'Obj'}, returns='Obj', returns_expr='APPLY(self, spec, storage)', raises={'ConfigurationError': {}})
    w.classes['Ctx'].update({'dump_restore_mode': 'bool', 'backend_runtime_params': 'Obj', 'bootstrap_mode': 'bool'})
    w.classes['Obj'].update({'globals': 'Obj', 'expr': 'Obj', 'ast': 'Obj', 'argmap': 'Obj', 'bytes': 'Obj'})
    XC = {'qlcompiler.compile_ast_to_ir': dict(params={'ql': 'Ql', 'schema': 'Obj', 'options': 'Obj'}, returns='Obj', raises={'QueryError': {}}),
          'qlcompiler.CompilerOptions': dict(params={'modaliases': 'Obj', 'in_server_config_op': 'bool', 'dump_restore_mode': 'bool'}, returns='Obj'),
          'pg_compiler.compile_ir_to_sql_tree': dict(params={'ir': 'Obj', 'backend_runtime_params': 'Obj'}, returns='Obj', raises={'QueryError': {}}),
          '_inject_config_cache_clear': dict(params={'a': 'Obj'}, returns='Obj'),
          'pg_codegen.generate_source': dict(params={'a': 'Obj', 'pretty': 'bool'}, returns='str'),
          'describe_params': dict(params={'ctx': 'Ctx', 'ir': 'Obj', 'argmap': 'Obj', 'si': 'none'}, returns='Tuple[Obj,Obj,Obj]'),
          'ireval.evaluate_to_config_op': dict(params={'ir': 'Obj', 'schema': 'Obj'}, returns='Op', raises={'UnsupportedExpressionError': {}, 'QueryError': {}}),
          '_get_config_spec': dict(params={'ctx': 'Ctx', 'op': 'Op'}, returns='Obj', returns_expr='SPEC(ctx, op)'),
          'dbstate.SessionStateQuery': dict(params={'sql': 'bytes', 'is_backend_setting': 'bool', 'is_system_config': 'bool', 'config_scope': 'Scope', 'requires_restart': 'bool',
                                                    'config_op': 'Opt[Op]', 'globals': 'Opt[Obj]', 'in_type_args': 'Obj', 'in_type_data': 'Obj', 'in_type_id': 'Obj'}, returns='Obj')}
    CUR = lambda f: '%s._current.%s == old(%s._current.%s)' % (tx, f, tx, f)
    ALLBUT = lambda skip: ' and '.join(CUR(f) for f in ['id', 'name', 'local_user_schema', 'global_schema', 'modaliases', 'session_config', 'database_config', 'system_config',
                                                        'cached_reflection', 'tx', 'migration_state', 'migration_rewrite_state'] if f not in skip)
    w.contract(COMP, '_compile_ql_config_op', params={'ctx': 'Ctx', 'ql': 'Ql'}, returns='Obj', modifies=['Tx._current'],
        ghost={'g_op': 'Op'},
        ensures=['implies(ql.scope == Scope.SESSION, %s._current.session_config == APPLY(g_op, SPEC(ctx, g_op), old(%s._current.session_config)) and %s)' % (tx, tx, CUR('database_config')),
                 'implies(ql.scope == Scope.DATABASE, (%s._current.database_config == APPLY(g_op, SPEC(ctx, g_op), old(%s._current.database_config)) or %s) and %s)' % (tx, tx, CUR('database_config'), CUR('session_config')),
                 'implies(ql.scope == Scope.INSTANCE or ql.scope == Scope.GLOBAL, %s and %s)' % (CUR('session_config'), CUR('database_config')),
                 ALLBUT(('session_config', 'database_config')), 'heap_same_except("Tx._current", %s)' % tx,
                 'heap_same("CS._current_tx")', 'heap_same("Tx._savepoints")', 'heap_same("Tx._state0")', 'heap_same("CS._savepoints_log")'],
        raises={k: dict(ensures=SAME) for k in ('QueryError', 'ConfigurationError', 'AssertionError')},
        ghost_after={'config_op = ireval.evaluate_to_config_op(ir, schema=schema)': [('g_op', 'config_op')],
                     },
        abstract={'if ir.globals:': dict(assigns={'globals': 'Opt[Obj]'}),
                  'if isinstance(ir, irast.Statement):': dict(assigns={'cfg_ir': 'Obj'}),
                  "is_backend_setting = bool(getattr(cfg_ir, 'backend_setting', None))": dict(assigns={'is_backend_setting': 'bool'}),
                  "requires_restart = bool(getattr(cfg_ir, 'requires_restart', False))": dict(assigns={'requires_restart': 'bool'}),
                  "is_system_config = bool(getattr(cfg_ir, 'is_system_config', False))": dict(assigns={'is_system_config': 'bool'}),
                  'pretty = bool(debug.flags.edgeql_compile or debug.flags.edgeql_compile_sql_text)': dict(assigns={'pretty': 'bool'}),
                  'if pretty:': dict(assigns={})},
        hints={'ext_funcs': XC, 'ghost_out': ['g_op']})
    # the entry point of a statement inside a transaction: Compiler.compile_in_tx.  What the statement is compiled against (ghost snapshot taken where the compile context is built):
    # the compiler state is at the position the server named; if it already was there, the session aliases / config the request carries are in effect;
    # the recovery path (expect_rollback with an unknown position) never reaches the compiler proper.
    w.enum('Lang', 'edb/server/compiler/enums.py', 'InputLanguage')
    w.refclass('Req', {'input_language': 'Lang', 'source': 'Obj', 'modaliases': 'Opt[Obj]', 'session_config': 'Opt[Obj]', 'protocol_version': 'Obj', 'output_format': 'Obj',
                       'expect_one': 'bool', 'implicit_limit': 'Obj', 'inline_typeids': 'bool', 'inline_typenames': 'bool', 'inline_objectids': 'bool', 'input_format': 'Obj'})
    w.ext_methods['Req.get_cache_key'] = dict(params={}, returns='Obj')
    w.refclass('Cmp', {'state': 'Obj'})
    w.ext_methods['Cmp._try_compile_rollback'] = dict(params={'src': 'Obj'}, returns='Tuple[Obj,int]', raises={'TransactionError': {}})
    w.ext_methods['Cmp.compile_sql_descriptors'] = dict(params={'a': 'Obj', 'b': 'Obj', 'c': 'Obj', 'd': 'Obj'}, returns='Obj')
    w.ext_methods['Tx.get_user_schema'] = dict(params={}, returns='Obj')
    w.classes['Obj']['types_in_out'] = 'Obj'
    w.classes['Ctx'].update({'output_format': 'Obj', 'expected_cardinality_one': 'bool', 'implicit_limit': 'Obj', 'inline_typeids': 'bool', 'inline_typenames': 'bool',
                             'inline_objectids': 'bool', 'source': 'Obj', 'protocol_version': 'Obj', 'json_parameters': 'bool', 'cache_key': 'Obj'})
    w.opaque_exprs['enums.InputFormat.JSON'] = 'Obj'
    stx = 'state._current_tx'
    import ast as _ast
    from pyvc import repo as _repo
    _fn, _ = _repo.find_def(COMP, 'Compiler.compile_in_tx')
    # the snapshot is taken where the compile context is built, i.e. at the last statement before the compiler proper runs
    CTX_ASSIGN = ([_ast.unparse(n) for n in _ast.walk(_fn) if isinstance(n, _ast.Assign) and _ast.unparse(n.targets[0]) == 'ctx'] or ['<ctx assignment not found>'])[0]
    w.contract(COMP, 'Compiler.compile_in_tx', params={'self': 'Cmp', 'state': 'CS', 'txid': 'int', 'request': 'Req', 'expect_rollback': 'bool'}, returns='Tuple[Obj,Opt[CS]]',
        requires=[_re.sub(r'\bself\b', 'state', c) for c in PRE] + ['not g_at'],
        ghost={'g_at': 'bool', 'g_id': 'int', 'g_al': 'Obj', 'g_sc': 'Obj'},
        modifies=MOD + ['CS._savepoints_log', 'Ctx.state', '$alloc'],
        ensures=[# whenever the compiler proper was reached (g_at), it ran at the position the server named ...
                 'implies(g_at, g_id == txid)',
                 # ... and, if no re-synchronisation was needed, under the aliases / session config carried by the request
                 'implies(g_at and old(%s._id) == txid and not is_none(request.modaliases), g_al == some(request.modaliases))' % stx,
                 'implies(g_at and old(%s._id) == txid and not is_none(request.session_config), g_sc == some(request.session_config))' % stx,
                 'implies(g_at and old(%s._id) == txid and is_none(request.modaliases), g_al == old(%s._current.modaliases))' % (stx, stx),
                 # SQL parameter descriptions and the recovery path leave the transaction position alone
                 'implies(not g_at, heap_same("CS._current_tx") and heap_same("Tx._savepoints") and heap_same("Tx._id"))'],
        raises={'InternalServerError': {}, 'CompileError': {}, 'AssertionError': {}, 'TransactionError': {}, 'NotImplementedError': {}},
        ghost_after={CTX_ASSIGN: [('g_at', 'True'), ('g_id', '%s._id' % stx), ('g_al', '%s._current.modaliases' % stx), ('g_sc', '%s._current.session_config' % stx)]},
        abstract={'match request.input_language:': dict(assigns={'unit_group': 'Obj'}, modifies=MOD + ['CS._savepoints_log'], raises=['CompileError', 'NotImplementedError'])},
        hints={'ghost_out': ['g_at', 'g_id', 'g_al', 'g_sc']})
    # what a unit reports back to the server (the server's view of the session follows the compiler's only through these fields): compiler._make_query_unit copies every
    # state component the compiled statement carries -- user schema, global schema, cached reflection (pickled), module aliases -- onto the unit, each independently of the others
    import ast as _ast2
    mk, _ = _repo.find_def(COMP, '_make_query_unit')
    ufields = sorted({n.attr for n in _ast2.walk(mk) if isinstance(n, _ast2.Attribute) and isinstance(n.value, _ast2.Name) and n.value.id == 'unit'})
    cfields = sorted({n.attr for n in _ast2.walk(mk) if isinstance(n, _ast2.Attribute) and isinstance(n.value, _ast2.Name) and n.value.id == 'comp'})
    OPTF = ('user_schema', 'cached_reflection', 'global_schema', 'modaliases', 'config_op', 'tx_id')
    w.refclass('QU9', {f: ('Seq[Obj]' if f == 'config_ops' else 'Opt[int]' if f == 'tx_id' else 'Opt[Obj]' if f in OPTF else 'bytes' if f in ('sql', 'status') else 'bool' if f in ('cacheable', 'is_transactional') else 'Obj') for f in ufields + ['status']}, DB, 'QueryUnit')
    w.refclass('CQ', {f: ('Seq[Obj]' if f == 'config_ops' else 'Opt[Obj]' if f in OPTF else 'bytes' if f == 'sql' else 'bool' if f in ('cacheable', 'is_transactional') else 'Obj') for f in cfields + ['action']})
    w.hierarchies['CQ'] = DB
    w.classes['Ctx'].update({'cache_key': 'Obj', 'output_format': 'Obj', 'dump_restore_mode': 'bool'})
    XM = {'_get_schema_version': dict(params={'s': 'Obj'}, returns='Obj', raises={'InvalidReferenceError': {}}),
          'status.get_status': dict(params={'q': 'Ql'}, returns='bytes'),
          '_extract_extensions': dict(params={'ctx': 'Ctx', 's': 'Obj'}, returns='Tuple[Obj,Obj]'),
          '_extract_roles': dict(params={'s': 'Obj'}, returns='Obj')}
    w.ufunc('pk', ['Obj'], 'Obj')      # pickle.dumps: a function of the pickled value
    CARRY = lambda cls, extra='': 'isinstance(comp, dbstate.%s) and not ctx.dump_restore_mode%s' % (cls, extra)
    ens = []
    for cls in ('TxControlQuery', 'MigrationControlQuery', 'DDLQuery'):
        ens.append('implies(%s and not is_none(comp.user_schema), result[0].user_schema == pk(some(comp.user_schema)) and result[1] == comp.user_schema)' % CARRY(cls))
        ens.append('implies(%s and not is_none(comp.cached_reflection), result[0].cached_reflection == pk(some(comp.cached_reflection)))' % CARRY(cls))
        if cls != 'MigrationControlQuery':
            ens.append('implies(%s and not is_none(comp.global_schema), result[0].global_schema == pk(some(comp.global_schema)))' % CARRY(cls))
        if cls != 'DDLQuery':
            ens.append('implies(isinstance(comp, dbstate.%s) and not is_none(comp.modaliases), result[0].modaliases == comp.modaliases)' % cls)
    w.contract(COMP, '_make_query_unit',
        params={'ctx': 'Ctx', 'stmt_ctx': 'Ctx', 'stmt': 'Ql', 'is_script': 'bool', 'is_trailing_stmt': 'bool', 'comp': 'CQ', 'capabilities': 'Obj'},
        returns='Tuple[QU9,Opt[Obj]]', modifies=['QU9.' + f for f in sorted(w.classes['QU9'])] + ['$alloc'],
        ensures=ens, raises={'QueryError': {}, 'InternalServerError': {}, 'InvalidReferenceError': {}},
        abstract={'if unit.in_type_args:': dict(assigns={}, modifies=['QU9.in_type_args_real_count']), 'if unit.warnings:': dict(assigns={}, modifies=[])},
        hints={'ext_funcs': XM})
    build5(w)
    return w

def build5(w):
    """SQL sessions: dbstate.SQLTransactionState.apply tracks, statement by statement of an SQL script (and for the single statement of a native-protocol SQL request, seeded
    with the transaction's live savepoints), the frontend settings a PostgreSQL transaction exposes.  Per transaction-control action, over the whole savepoint stack:
      COMMIT makes the transaction's non-local settings the baseline and drops all savepoints; ROLLBACK keeps the baseline and drops all savepoints;
      SAVEPOINT pushes (name, settings, local settings); ROLLBACK TO SAVEPOINT n restores the settings of the NEWEST savepoint named n, keeps it and everything older,
      discards everything newer, and is rejected only when no live savepoint has that name."""
    w.refclass('SQLTS', {'in_tx': 'bool', 'settings': 'Opt[Obj]', 'in_tx_settings': 'Opt[Obj]', 'in_tx_local_settings': 'Opt[Obj]', 'savepoints': 'Seq[Tuple[Opt[str],Opt[Obj],Opt[Obj]]]'}, DB, 'SQLTransactionState')
    w.refclass('SQLU', {'tx_action': 'Opt[TxAction]', 'sp_name': 'Opt[str]', 'frontend_only': 'bool', 'set_vars': 'Opt[Obj]', 'is_local': 'bool'})
    OLD = 'old(self.savepoints)'
    ACT = lambda a: '(query_unit.tx_action is not None and query_unit.tx_action == TxAction.%s)' % a
    PREFIX = lambda sp: 'len(%s) <= len(%s) and forall(0, len(%s), lambda k: %s[k] == %s[k])' % (sp, OLD, sp, sp, OLD)
    NONE_AFTER = lambda sp: 'forall(len(%s), len(%s), lambda k: %s[k][0] != query_unit.sp_name)' % (sp, OLD, OLD)
    def clauses(quant):
        out = ['implies(%s, len(self.savepoints) >= 1 and len(self.savepoints) <= len(%s)%s)' % (ACT('ROLLBACK_TO_SAVEPOINT'), OLD,
                                                                                                    (' and self.savepoints[len(self.savepoints) - 1] == %s[len(self.savepoints) - 1]' % OLD) if quant else ''),
               'implies(%s, self.savepoints[len(self.savepoints) - 1][0] == query_unit.sp_name)' % ACT('ROLLBACK_TO_SAVEPOINT'),
               # one arbitrary position K: kept iff it is not newer than the savepoint rolled back to
               'implies(%s and 0 <= K and K < len(self.savepoints), self.savepoints[K] == %s[K])' % (ACT('ROLLBACK_TO_SAVEPOINT'), OLD),
               'implies(%s and len(self.savepoints) <= K and K < len(%s), %s[K][0] != query_unit.sp_name)' % (ACT('ROLLBACK_TO_SAVEPOINT'), OLD, OLD),
               'implies(%s and not query_unit.frontend_only and old(self.in_tx), self.in_tx_settings == self.savepoints[len(self.savepoints) - 1][1] and self.in_tx_local_settings == self.savepoints[len(self.savepoints) - 1][2])' % ACT('ROLLBACK_TO_SAVEPOINT'),
               'implies(%s or %s, len(self.savepoints) == 0 and self.in_tx)' % (ACT('COMMIT'), ACT('ROLLBACK')),
               # COMMIT: the transaction's non-local settings become the baseline; with NO transaction in progress (first statement of a request) nothing is lost
               'implies(%s and not query_unit.frontend_only and old(self.in_tx), self.settings == old(self.in_tx_settings))' % ACT('COMMIT'),
               'implies(%s and not query_unit.frontend_only and not old(self.in_tx), self.settings == old(self.settings))' % ACT('COMMIT'),
               # whatever the action, the statement that follows runs in a transaction whose settings start from the baseline
               'implies((%s or %s) and not query_unit.frontend_only, self.in_tx_settings == self.settings and self.in_tx_local_settings == self.settings)' % (ACT('COMMIT'), ACT('ROLLBACK')),
               'implies(%s and not query_unit.frontend_only, self.settings == old(self.settings))' % ACT('ROLLBACK'),
               'implies(%s, len(self.savepoints) == len(%s) + 1 and self.savepoints[len(%s)][0] == query_unit.sp_name)' % (ACT('DECLARE_SAVEPOINT'), OLD, OLD),
               'implies(%s and 0 <= K and K < len(%s), self.savepoints[K] == %s[K])' % (ACT('DECLARE_SAVEPOINT'), OLD, OLD),
               'implies(not (%s or %s or %s or %s), self.savepoints == %s)' % (ACT('COMMIT'), ACT('ROLLBACK'), ACT('DECLARE_SAVEPOINT'), ACT('ROLLBACK_TO_SAVEPOINT'), OLD)]
        return out
    INV = ['len(self.savepoints) <= len(%s)' % OLD, 'forall(0, len(self.savepoints), lambda k: self.savepoints[k] == %s[k])' % OLD,
           'forall(len(self.savepoints), len(%s), lambda k: %s[k][0] != query_unit.sp_name)' % (OLD, OLD),
           'self.in_tx == old(self.in_tx) and self.settings == old(self.settings)']
    w.contract(DB, 'SQLTransactionState.apply', params={'self': 'SQLTS', 'query_unit': 'SQLU'}, returns='none', ghost={'K': 'int'},
        modifies=['SQLTS.in_tx', 'SQLTS.settings', 'SQLTS.in_tx_settings', 'SQLTS.in_tx_local_settings', 'SQLTS.savepoints'],
        ensures=clauses(True),
        # rejected only when no live savepoint carries the name (checked at the raise: the whole old stack has been looked at)
        raises={'TransactionError': {'only_if': ACT('ROLLBACK_TO_SAVEPOINT'), 'ensures': ['implies(0 <= K and K < len(%s), %s[K][0] != query_unit.sp_name)' % (OLD, OLD)]},
                # SAVEPOINT is refused (by assertion) only when there is no name or no transaction settings to snapshot
                'AssertionError': {'only_if': ACT('DECLARE_SAVEPOINT') + ' and (query_unit.sp_name is None or self.in_tx_settings is None or self.in_tx_local_settings is None)'}},
        loops={0: dict(fingerprint='while self.savepoints', invariant=INV)},
        abstract={'if query_unit.frontend_only and query_unit.set_vars:': dict(assigns={}, modifies=['SQLTS.settings', 'SQLTS.in_tx_settings', 'SQLTS.in_tx_local_settings'],
                      ensures=['implies(not query_unit.frontend_only, self.settings == old(self.settings) and self.in_tx_settings == old(self.in_tx_settings) '
                               'and self.in_tx_local_settings == old(self.in_tx_local_settings))'])})
    # second view, quantifier-free (one arbitrary stack position K throughout): refutes a wrong pop with a definite counter-model
    INV_G = ['len(self.savepoints) <= len(%s)' % OLD, 'implies(0 <= K and K < len(self.savepoints), self.savepoints[K] == %s[K])' % OLD,
             'implies(len(self.savepoints) <= K and K < len(%s), %s[K][0] != query_unit.sp_name)' % (OLD, OLD),
             'self.in_tx == old(self.in_tx) and self.settings == old(self.settings)']
    w.contract(DB, 'SQLTransactionState.apply', view='ground', params={'self': 'SQLTS', 'query_unit': 'SQLU'}, returns='none', ghost={'K': 'int'},
        modifies=['SQLTS.in_tx', 'SQLTS.settings', 'SQLTS.in_tx_settings', 'SQLTS.in_tx_local_settings', 'SQLTS.savepoints'],
        ensures=clauses(False),
        # rejected only when no live savepoint carries the name (checked at the raise: the whole old stack has been looked at)
        raises={'TransactionError': {'only_if': ACT('ROLLBACK_TO_SAVEPOINT'), 'ensures': ['implies(0 <= K and K < len(%s), %s[K][0] != query_unit.sp_name)' % (OLD, OLD)]},
                # SAVEPOINT is refused (by assertion) only when there is no name or no transaction settings to snapshot
                'AssertionError': {'only_if': ACT('DECLARE_SAVEPOINT') + ' and (query_unit.sp_name is None or self.in_tx_settings is None or self.in_tx_local_settings is None)'}},
        loops={0: dict(fingerprint='while self.savepoints', invariant=INV_G)},
        abstract={'if query_unit.frontend_only and query_unit.set_vars:': dict(assigns={}, modifies=['SQLTS.settings', 'SQLTS.in_tx_settings', 'SQLTS.in_tx_local_settings'],
                      ensures=['implies(not query_unit.frontend_only, self.settings == old(self.settings) and self.in_tx_settings == old(self.in_tx_settings) '
                               'and self.in_tx_local_settings == old(self.in_tx_local_settings))'])})

def scenarios(tier, seed, repo_root, outdir):
    """bounded stand-in: operation histories on the real Transaction / CompilerConnectionState vs a reference model"""
    import os, json, subprocess
    here = os.path.dirname(os.path.abspath(__file__)); root = os.path.dirname(os.path.dirname(here))
    out = os.path.join(outdir, 'scenario_out.json')
    if os.path.exists(out): os.unlink(out)
    exh, n, ln = (4, 3000, 9) if tier == 'quick' else (5, 60000, 12)
    env = dict(os.environ); env['PYTHONPATH'] = '%s:%s' % (os.path.join(root, 'stubs'), repo_root); env['VERIF_REPO'] = repo_root
    p = subprocess.run(['/venv/bin/python', os.path.join(here, 'scenario.py'), str(seed), str(exh), str(n), str(ln), out], capture_output=True, text=True, env=env, cwd=repo_root, timeout=3000)
    if not os.path.exists(out): raise RuntimeError('scenario runner failed: ' + (p.stderr or p.stdout)[-2000:])
    r = json.load(open(out))
    if not r['failure'] and r.get('sql_scripts', 0) < 500: raise RuntimeError('SQL-script explorer is vacuous: %r' % r.get('sql_scripts'))
    return dict(evaluations=r['histories'] + r.get('sql_scripts', 0), failure=r['failure'],
                label='every SQL script <= 3 transaction statements x 3 starting positions through the real compile_sql_as_unit_group; all histories <= %d ops (after START) + %d random histories <= %d ops over START/COMMIT/ROLLBACK/savepoints(2 names)/updates/SYNC (bounded)' % (exh, n, ln),
                clause='acceptance, compiled-against state and savepoint list agree with the PostgreSQL-style reference model after every operation')
