"""C06 sidecar contracts: cardinality bounds algebra (edb/edgeql/compiler/inference/cardinality.py),
qltypes.Cardinality helpers, enums.cardinality_from_ir_value.

Spec (from the property statement): gamma(AT_MOST_ONE)=[0,1], gamma(ONE)=[1,1], gamma(MANY)=[0,inf),
gamma(AT_LEAST_ONE)=[1,inf) over natural result sizes.  A rule is sound iff for all sizes n_i in
gamma(c_i) the size produced by the construct's set semantics lies in gamma(rule(c...)).
"""
import ast
from pyvc.engine import World
from pyvc import repo

CARD = 'edb/edgeql/compiler/inference/cardinality.py'
QLT = 'edb/edgeql/qltypes.py'
ENUMS = 'edb/server/compiler/enums.py'

MULT = 'edb/edgeql/compiler/inference/multiplicity.py'; INFCTX = 'edb/edgeql/compiler/inference/context.py'; IRAST = 'edb/ir/ast.py'

def build_ir_rules(w):
    """clause-level rules on IR nodes: the recursive inference of sub-expressions is the induction hypothesis (assumed sound, with
    ghost sizes for the sub-results); what is proved is that each rule derives a sound cardinality / multiplicity from them"""
    w.refclass('Obj', {}, universal=True)
    w.enum('Mult', QLT, 'Multiplicity', ordered=True)
    w.rec('MI', [('own', 'Mult'), ('disjoint_union', 'bool'), ('fresh_free_object', 'bool')], INFCTX, 'MultiplicityInfo')
    w.refclass('IrExpr', {'value': 'str'}); w.hierarchies['IrExpr'] = IRAST
    w.refclass('IrSet', {'expr': 'IrExpr', 'path_id': 'Obj'})
    w.refclass('Sort', {'expr': 'IrSet'})
    w.refclass('SelectStmt', {'result': 'IrSet', 'iterator_stmt': 'Opt[IrSet]', 'limit': 'Opt[IrSet]', 'offset': 'Opt[IrSet]', 'orderby': 'Opt[Seq[Sort]]', 'card_inference_override': 'Opt[IrSet]'})
    # ---- SELECT tail: LIMIT / OFFSET / FOR  (ghost: n0 body size, lim / off the run-time values, m iterations, x per-iteration size, ov override size)
    G = {'n0': 'int', 'lim': 'int', 'off': 'int', 'm': 'int', 'ov': 'int', 'ir__iter': 'Opt[IrSet]', 'ir__ovr': 'Opt[IrSet]'}
    w.ext_funcs['infer_cardinality'] = dict(params={'ir': 'Obj'}, optional=('scope_tree', 'ctx', 'is_mutation'), returns='Card', ghost={'m': 'int', 'ov': 'int'},
        state=['ir__iter', 'ir__ovr'],
        ensures=['known(result)', 'implies(ir == ir__iter, in_gamma(m, result))', 'implies(ir == ir__ovr, in_gamma(ov, result))'], raises={'QueryError': {}})
    w.ext_funcs['_infer_stmt_cardinality'] = dict(params={'ir': 'Obj'}, optional=('scope_tree', 'ctx'), returns='Card', ghost={'n0': 'int'},
        ensures=['known(result)', 'in_gamma(n0, result)'], raises={'QueryError': {}})
    w.ext_funcs['_infer_singleton_only'] = dict(params={'part': 'IrSet'}, optional=('scope_tree', 'ctx'), returns='none', raises={'QueryError': {}})
    w.trusted.append('select tail: a FOR body evaluated m times with per-iteration sizes in gamma(c) is represented by m equal iterations of size x in gamma(c) (gamma intervals are convex)')
    AFTER_LIMIT = 'ite(is_none(ir.limit), n0, min(n0, lim))'
    AFTER_OFFSET = 'ite(is_none(ir.offset), %s, max(%s - off, 0))' % (AFTER_LIMIT, AFTER_LIMIT)
    SIZE = 'ite(is_none(ir.iterator_stmt), %s, (%s) * m)' % (AFTER_OFFSET, AFTER_OFFSET)
    w.contract(CARD, '__infer_select_stmt', params={'ir': 'SelectStmt', 'scope_tree': 'Obj', 'ctx': 'Obj'}, ghost=G, returns='Card',
        requires=['n0 >= 0 and lim >= 0 and off >= 0 and m >= 0 and ov >= 0',
                  # the run-time value of a constant LIMIT is that constant
                  'implies(not is_none(ir.limit) and isinstance(some(ir.limit).expr, irast.IntegerConstant) and some(ir.limit).expr.value == "1", lim == 1)',
                  'implies(not is_none(ir.limit) and isinstance(some(ir.limit).expr, irast.IntegerConstant) and some(ir.limit).expr.value != "1" and some(ir.limit).expr.value != "0", lim >= 1)',
                  'ir__iter == ir.iterator_stmt and ir__ovr == ir.card_inference_override',
                  'implies(not is_none(ir.iterator_stmt) and not is_none(ir.card_inference_override), some(ir.iterator_stmt) != some(ir.card_inference_override))'],
        ensures=['known(result)', 'implies(is_none(ir.card_inference_override), in_gamma(%s, result))' % SIZE,
                 'implies(not is_none(ir.card_inference_override), in_gamma(ov, result))'],
        raises={'QueryError': {}},
        loops={0: dict(fingerprint='for part in [ir.limit, ir.offset] + [sort.expr for sort in ir.orderby or ()]', index='i', invariant=['True'])},
        call_ghost={'cartesian_cardinality': {'ns': '[%s, m]' % AFTER_OFFSET}})
    # ---- multiplicity lattice helpers and the operator rules (all operators except UNION, whose rule depends on the schema's type lineages)
    w.define('gM(mu, ml)', 'mu >= 0 and ml != Mult.UNKNOWN and implies(ml == Mult.EMPTY, mu == 0) and implies(ml == Mult.UNIQUE, mu <= 1)')
    for fn, op in (('_max_multiplicity', 'max'), ('_min_multiplicity', 'min')):
        w.contract(MULT, fn, params={'args': 'Seq[MI]'}, returns='MI', requires=['forall(0, len(args), lambda k: args[k].own != Mult.UNKNOWN)'],
            ensures=['result.own != Mult.UNKNOWN',
                     'forall(0, len(args), lambda k: %s)' % ('args[k].own <= result.own' if op == 'max' else 'result.own <= args[k].own'),
                     'implies(len(args) > 0, exists(0, len(args), lambda k: args[k].own == result.own))', 'implies(len(args) == 0, result.own == Mult.UNIQUE)'])
    # ---- operator calls
    w.refclass('CallArg', {'expr': 'IrSet', 'cardinality': 'Card', 'multiplicity': 'Mult', 'param_typemod': 'TypeMod'})
    w.refclass('OperCall', {'args': 'OMap[int,CallArg]', 'func_shortname': 'str', 'typemod': 'TypeMod'})
    w.refclass('InfCtx', {'make_updates': 'bool'})
    # ghost: ncs[k] / mus[k] = actual size / worst multiplicity of the k-th argument set; nr, mr the same for the result
    GS = {'ncs': 'Seq[int]', 'mus': 'Seq[int]', 'nr': 'int', 'mr': 'int'}
    ARGK = 'opos(ir.args, i)'
    # first call: the operator call itself (result size nr); later calls (inside the loop): the i-th argument
    w.ext_funcs['cardinality.infer_cardinality'] = dict(params={'ir': 'Obj'}, optional=('scope_tree', 'ctx'), returns='Card', ghost={'ncs': 'Seq[int]', 'nr': 'int'}, state=['i'],
        ensures=['known(result)'], ensures_seq=[['in_gamma(nr, result)'], ['in_gamma(ncs[i], result)']], raises={'QueryError': {}})
    w.ext_funcs['infer_multiplicity'] = dict(params={'ir': 'Obj'}, optional=('scope_tree', 'ctx'), returns='MI', ghost={'mus': 'Seq[int]'}, state=['i'],
        ensures=['gM(mus[i], result.own)'], raises={'QueryError': {}})
    OP = 'ir.func_shortname'
    SEM = [  # worst-case multiplicity of the result of each operator, from EdgeQL's set semantics
        'implies(%s == "std::EXCEPT", mr <= mus[0])' % OP,
        'implies(%s == "std::INTERSECT", mr <= min(mus[0], mus[1]))' % OP,
        'implies(%s == "std::DISTINCT", mr <= min(mus[0], 1))' % OP,
        # IF: the chosen branch is emitted once per element of the condition
        'implies(%s == "std::IF", mr <= ncs[1] * max(mus[0], mus[2]))' % OP,
        'implies(%s == "std::??", mr <= max(mus[0], mus[1]))' % OP,
        'mr <= nr']             # no value can occur more often than there are elements
    ARITY = ['implies(%s == "std::EXCEPT" or %s == "std::INTERSECT" or %s == "std::??", len(ir.args) == 2)' % (OP, OP, OP),
             'implies(%s == "std::DISTINCT", len(ir.args) == 1)' % OP, 'implies(%s == "std::IF", len(ir.args) == 3)' % OP]
    w.contract(MULT, '__infer_oper_call', params={'ir': 'OperCall', 'scope_tree': 'Obj', 'ctx': 'InfCtx'}, ghost=GS, returns='MI',
        requires=['%s != "std::UNION"' % OP, '%s != "std::++" and %s != "std::+"' % (OP, OP), 'len(ncs) == len(ir.args) and len(mus) == len(ir.args)', 'mr >= 0 and nr >= 0',
                  'forall(0, len(mus), lambda k: mus[k] >= 0 and ncs[k] >= 0 and mus[k] <= ncs[k])'] + ARITY + SEM,
        modifies=['CallArg.multiplicity'],
        ensures=['gM(mr, result.own)'],
        raises={'QueryError': {}},
        loops={0: dict(fingerprint='for arg in ir.args.values()', index='i', vars={'m': 'MI'},
                       invariant=['len(mult) == i and len(cards) == i', 'forall(0, i, lambda k: gM(mus[k], mult[k].own) and known(cards[k]) and in_gamma(ncs[k], cards[k]))'])},
        hints={'var_types': {'mult': 'Seq[MI]', 'cards': 'Seq[Card]'}})
    return w

def build_disjointness(w):
    """duplicate-freedom across iterations: multiplicity._infer_for_multiplicity and the std::UNION rule.

    Meaning of a MultiplicityInfo r returned for expression e under ctx (taken from the comments in inference/context.py and from the
    places that set the flags):   r.own in {UNIQUE, EMPTY} => UNIQ(e): e is duplicate-free in every environment;   r.own == EMPTY =>
    e is always empty;   r.disjoint_union => DISJ(e, ctx.distinct_iterator): the results of e for different values of the tracked
    iterator are pairwise disjoint (nothing is claimed when no iterator is tracked);   r.fresh_free_object => FRESH(e): every
    evaluation yields values that occur nowhere else.  UNIQ / DISJ / FRESH are uninterpreted; the set semantics of FOR and UNION
    enter as hypotheses (SEM_*), the recursive inference of sub-expressions is the induction hypothesis."""
    w.rec('ICtx', [('env', 'Obj'), ('inferred_cardinality', 'Obj'), ('inferred_multiplicity', 'Obj'), ('singletons', 'Obj'),
                   ('distinct_iterator', 'Opt[Obj]'), ('ignore_computed_cards', 'bool'), ('make_updates', 'bool')], INFCTX, 'InfCtx')
    for nm, a in (('UNIQ', ['IrSet']), ('EMPTYS', ['IrSet']), ('FRESH', ['IrSet']), ('DISJ', ['IrSet', 'Opt[Obj]']),
                  ('UNIQ_ST', ['SelectStmt']), ('EMPTY_ST', ['SelectStmt']), ('FRESH_ST', ['SelectStmt']), ('DISJ_ST', ['SelectStmt', 'Opt[Obj]'])):
        w.ufunc(nm, a, 'bool')
    w.trusted.append('multiplicity flags are read as: own in {UNIQUE, EMPTY} => duplicate-free in every environment; disjoint_union => results for different values '
                     'of ctx.distinct_iterator are pairwise disjoint; fresh_free_object => every evaluation yields values occurring nowhere else (UNIQ / DISJ / FRESH uninterpreted)')
    w.trusted.append('set semantics of FOR (SEM_FOR*): the result is the multiset union of the body over the iterator values; hence duplicate-free if iterator and body are '
                     'and the body is disjoint across iterator values, or the body is fresh, or the body is an INSERT; always empty if iterator or body is')
    IH = dict(params={'ir': 'IrSet', 'ctx': 'ICtx'}, optional=('scope_tree',), returns='MI',
              ensures=['result.own != Mult.UNKNOWN',
                       'implies(result.own == Mult.UNIQUE or result.own == Mult.EMPTY, UNIQ(ir))', 'implies(result.own == Mult.EMPTY, EMPTYS(ir))',
                       'implies(result.disjoint_union, DISJ(ir, ctx.distinct_iterator))', 'implies(result.fresh_free_object, FRESH(ir))'],
              raises={'QueryError': {}})
    IT = 'some(ir.iterator_stmt)'
    SEM_FOR = ['not is_none(ir.iterator_stmt)',
               'implies(UNIQ(%s) and UNIQ(ir.result) and DISJ(ir.result, %s.path_id), UNIQ_ST(ir))' % (IT, IT),
               'implies(FRESH(ir.result) and UNIQ(ir.result), UNIQ_ST(ir))', 'implies(FRESH(ir.result), FRESH_ST(ir) and DISJ_ST(ir, ctx.distinct_iterator))',
               'implies(isinstance(ir.result.expr, irast.InsertStmt), UNIQ_ST(ir))',
               'implies(EMPTYS(ir.result) or EMPTYS(%s), UNIQ_ST(ir) and EMPTY_ST(ir))' % IT,
               'DISJ_ST(ir, None)']                      # nothing is claimed when no iterator is tracked
    # recorded finding C06-KF1: a FOR that does not track its own iterator (an enclosing FOR does) trusts the disjoint_union flag of its
    # body, which then speaks about some other iterator -- carved out by its exact outcome class
    KFA = '(not is_none(ctx.distinct_iterator) and result.disjoint_union and not result.fresh_free_object)'
    w.contract(MULT, '_infer_for_multiplicity', params={'ir': 'SelectStmt', 'scope_tree': 'Obj', 'ctx': 'ICtx'}, returns='MI',
        requires=SEM_FOR,
        ensures=['result.own != Mult.UNKNOWN',
                 'implies((result.own == Mult.UNIQUE or result.own == Mult.EMPTY) and not %s, UNIQ_ST(ir))' % KFA,
                 'implies(result.own == Mult.EMPTY and not %s, EMPTY_ST(ir))' % KFA,
                 'implies(result.disjoint_union and not %s, DISJ_ST(ir, ctx.distinct_iterator))' % KFA,
                 'implies(result.fresh_free_object, FRESH_ST(ir))'],
        raises={'QueryError': {}, 'AssertionError': dict(only_if='False')},
        hints={'ext_funcs': {'infer_multiplicity': IH}})
    w._kfa = KFA

    # ---- std::UNION (binary infix operator): view `union` of __infer_oper_call
    for nm, a in (('UNIQ_OC', ['OperCall']), ('EMPTY_OC', ['OperCall']), ('DISJ_OC', ['OperCall', 'Opt[Obj]']), ('TD', ['OperCall'])):
        w.ufunc(nm, a, 'bool')
    w.trusted.append('set semantics of UNION (SEM_U*): a UNION b is duplicate-free if both are and one of them is always empty or their object types have disjoint lineages (TD); '
                     'it is always empty iff both are; it is disjoint across iterations if one operand is always empty and the other is disjoint across iterations, or the types are disjoint and both operands are')
    A = lambda k: 'oval(ir.args, okey(ir.args, %s)).expr' % k
    Q = 'ctx.distinct_iterator'
    SEM_U = ['implies(EMPTYS(%s) and EMPTYS(%s), UNIQ_OC(ir) and EMPTY_OC(ir))' % (A(0), A(1)),
             'implies(EMPTYS(%s) and UNIQ(%s), UNIQ_OC(ir))' % (A(0), A(1)), 'implies(EMPTYS(%s) and UNIQ(%s), UNIQ_OC(ir))' % (A(1), A(0)),
             'implies(TD(ir) and UNIQ(%s) and UNIQ(%s), UNIQ_OC(ir))' % (A(0), A(1)),
             'implies(EMPTYS(%s) and DISJ(%s, %s), DISJ_OC(ir, %s))' % (A(0), A(1), Q, Q), 'implies(EMPTYS(%s) and DISJ(%s, %s), DISJ_OC(ir, %s))' % (A(1), A(0), Q, Q),
             # operands of disjoint types never meet: the union is disjoint across iterations iff every operand is
             'implies(TD(ir) and DISJ(%s, %s) and DISJ(%s, %s), DISJ_OC(ir, %s))' % (A(0), Q, A(1), Q, Q)]
    # recorded finding C06-KF2: two non-empty UNIQUE operands that are each "disjoint across iterations" are taken to be disjoint from each other
    KFB = '(mult[0].own == Mult.UNIQUE and mult[1].own == Mult.UNIQUE and not types_disjoint and mult[0].disjoint_union and mult[1].disjoint_union)'
    CARD_EXT = dict(params={'ir': 'Obj'}, optional=('scope_tree', 'ctx'), returns='Card', ensures=['known(result)'], raises={'QueryError': {}})
    OPU = 'ir.func_shortname'
    w.contract(MULT, '__infer_oper_call', view='union', params={'ir': 'OperCall', 'scope_tree': 'Obj', 'ctx': 'ICtx'}, returns='MI',
        requires=['%s == "std::UNION"' % OPU, 'len(ir.args) == 2'] + SEM_U,
        modifies=['CallArg.multiplicity'],
        ensures=['result.own != Mult.UNKNOWN',
                 'implies((result.own == Mult.UNIQUE or result.own == Mult.EMPTY) and not %s, UNIQ_OC(ir))' % KFB,
                 'implies(result.own == Mult.EMPTY, EMPTY_OC(ir))',
                 'implies(result.disjoint_union and not %s, DISJ_OC(ir, %s))' % (KFB, Q)],
        raises={'QueryError': {}},
        loops={0: dict(fingerprint='for arg in ir.args.values()', index='i', vars={'m': 'MI'},
                       invariant=['len(mult) == i and len(cards) == i',
                                  'forall(0, i, lambda k: mult[k].own != Mult.UNKNOWN and implies(mult[k].own == Mult.UNIQUE or mult[k].own == Mult.EMPTY, UNIQ(%s)) '
                                  'and implies(mult[k].own == Mult.EMPTY, EMPTYS(%s)) and implies(mult[k].disjoint_union, DISJ(%s, %s)))' % (A('k'), A('k'), A('k'), Q)])},
        abstract={'arg_type = ctx.env.set_types[ir.args[0].expr]': dict(assigns={'arg_type': 'Obj'}),
                  'if isinstance(arg_type, s_objtypes.ObjectType):': dict(assigns={'types_disjoint': 'bool'}, ensures=['implies(types_disjoint, TD(ir))'])},
        hints={'var_types': {'mult': 'Seq[MI]', 'cards': 'Seq[Card]'}, 'ext_funcs': {'infer_multiplicity': IH, 'cardinality.infer_cardinality': CARD_EXT}})
    w._kfb = KFB

    # ---- n-ary element-wise constructs (slices, indexes, arrays ...): the result has one element per combination of the operands' elements
    # SZ(e): the actual size of the set expression e evaluates to (uninterpreted); the recursive inference is the induction hypothesis
    w.refclass('IrB', {}, universal=True)
    w.ufunc('SZ', ['IrB'], 'int')
    IHC = dict(params={'ir': 'IrB'}, optional=('scope_tree', 'ctx'), returns='Card', ensures=['known(result)', 'SZ(ir) >= 0', 'in_gamma(SZ(ir), result)'], raises={'QueryError': {}})
    w.ext_funcs['_check_op_volatility'] = dict(params={'args': 'Seq[IrB]', 'cards': 'Seq[Card]', 'ctx': 'Obj'}, returns='none', raises={'QueryError': {}})
    w.contract(CARD, '_common_cardinality', params={'args': 'Seq[IrB]', 'scope_tree': 'Obj', 'ctx': 'Obj'}, returns='Card',
        ensures=['known(result)', 'in_gamma(prodn(seq_tab(len(args), lambda k: SZ(args[k])), len(args)), result)',
                 # closed forms for the arities that occur (index: 2, slice: 1..3)
                 'implies(len(args) == 1, in_gamma(SZ(args[0]), result))', 'implies(len(args) == 2, in_gamma(SZ(args[0]) * SZ(args[1]), result))',
                 'implies(len(args) == 3, in_gamma(SZ(args[0]) * SZ(args[1]) * SZ(args[2]), result))'],
        raises={'QueryError': {}},
        loops={'comp#0': dict(elem_type='Card', acc='acc', index='i', seq='its', invariant=['len(acc) == i', 'forall(0, i, lambda k: known(acc[k]) and SZ(its[k]) >= 0 and in_gamma(SZ(its[k]), acc[k]))'])},
        call_ghost={'cartesian_cardinality': {'ns': 'seq_tab(len(args), lambda k: SZ(args[k]))'}},
        hints={'ext_funcs': {'infer_cardinality': IHC},
               'lemmas': ['prodn_def(seq_tab(len(args), lambda k: SZ(args[k])), 0)', 'prodn_def(seq_tab(len(args), lambda k: SZ(args[k])), 1)', 'prodn_def(seq_tab(len(args), lambda k: SZ(args[k])), 2)']})
    w.refclass('SliceInd', {'expr': 'IrB', 'start': 'Opt[IrB]', 'stop': 'Opt[IrB]'})
    SZO = lambda f: '(SZ(some(ir.%s)) if not is_none(ir.%s) else 1)' % (f, f)
    w.contract(CARD, '__infer_slice', params={'ir': 'SliceInd', 'scope_tree': 'Obj', 'ctx': 'Obj'}, returns='Card',
        # e[a:b] is evaluated once per combination of an element of e, of a and of b (an absent bound counts as one)
        ensures=['known(result)', 'in_gamma(SZ(ir.expr) * %s * %s, result)' % (SZO('start'), SZO('stop'))],
        raises={'QueryError': {}}, hints={'var_types': {'args': 'Seq[IrB]'}})
    w.refclass('IndexInd', {'expr': 'IrB', 'index': 'IrB'})
    w.contract(CARD, '__infer_index', params={'ir': 'IndexInd', 'scope_tree': 'Obj', 'ctx': 'Obj'}, returns='Card',
        ensures=['known(result)', 'in_gamma(SZ(ir.expr) * SZ(ir.index), result)'], raises={'QueryError': {}})

    # ---- tuple constructor: per-element multiplicities of the projections (a.0, a.1, ...) of the tuple set
    # The tuple set is the cartesian product of the element sets, so projecting element k repeats each of its values once per combination
    # of the OTHER elements: the projection is duplicate-free only if element k is and every other element is a singleton.
    w.refclass('TupleEl', {'val': 'IrSet'})
    w.refclass('IrTuple', {'elements': 'Seq[TupleEl]'})
    w.rec('CMI', [('own', 'Mult'), ('disjoint_union', 'bool'), ('fresh_free_object', 'bool'), ('elements', 'Seq[MI]')], MULT, 'ContainerMultiplicityInfo')
    w.trusted.append('tuple projection: element k of a tuple set occurs once per combination of the other elements, so its worst multiplicity is at most its own when all other elements have size <= 1')
    TG = {'ncs': 'Seq[int]', 'mus': 'Seq[int]'}
    T_MULT = dict(params={'ir': 'Obj'}, optional=('scope_tree', 'ctx'), returns='MI', ghost={'mus': 'Seq[int]'}, state=['i'], ensures=['gM(mus[i], result.own)'], raises={'QueryError': {}})
    T_CARD = dict(params={'ir': 'Obj'}, optional=('scope_tree', 'ctx'), returns='Card', ghost={'ncs': 'Seq[int]'}, state=['i'], ensures=['known(result)', 'in_gamma(ncs[i], result)'], raises={'QueryError': {}})
    RULE = ('implies(%s[k].own != Mult.DUPLICATE, gM(mus[k], %s[k].own) and forall(0, len(cards), lambda j: implies(j != k, bounded(cards[j]))))')
    w.contract(MULT, '__infer_tuple', params={'ir': 'IrTuple', 'scope_tree': 'Obj', 'ctx': 'Obj'}, ghost=TG, returns='CMI',
        requires=['len(ncs) == len(ir.elements) and len(mus) == len(ir.elements)', 'forall(0, len(mus), lambda k: mus[k] >= 0 and ncs[k] >= 0)'],
        ensures=['len(result.elements) == len(ir.elements)', 'result.own != Mult.UNKNOWN',
                 # an element keeps a non-DUPLICATE multiplicity only if it is its own and every other element is single (cards = the inferred cardinalities, sound for the sizes ncs)
                 'forall(0, len(ir.elements), lambda k: ' + RULE % ('result.elements', 'result.elements') + ')',
                 'forall(0, len(ir.elements), lambda k: known(cards[k]) and in_gamma(ncs[k], cards[k]))',
                 # the tuple set itself: no tuple occurs more often than ... (its own multiplicity is the maximum of its elements')
                 'forall(0, len(ir.elements), lambda k: els[k].own <= result.own)'],
        raises={'QueryError': {}},
        loops={'comp#0': dict(elem_type='MI', acc='acc', index='i', seq='its', invariant=['len(acc) == i', 'forall(0, i, lambda k: gM(mus[k], acc[k].own))']),
               'comp#1': dict(elem_type='Card', acc='acc', index='i', seq='its', invariant=['len(acc) == i', 'forall(0, i, lambda k: known(acc[k]) and in_gamma(ncs[k], acc[k]))']),
               'sum#0': dict(acc='acc', index='i', acc_type='int', invariant=['acc >= 0',
                          'implies(acc == 0, forall(0, i, lambda k: bounded(cards[k])))',
                          'implies(acc <= 1, forall(0, i, lambda j: forall(0, i, lambda k: implies(j != k, bounded(cards[j]) or bounded(cards[k])))))']),
               0: dict(fingerprint='for (el, card) in zip(els, cards)', index='i', invariant=[
                          'len(new_els) == i', 'forall(0, i, lambda k: ' + RULE % ('new_els', 'new_els') + ')'])},
        hints={'var_types': {'new_els': 'Seq[MI]'}, 'ext_funcs': {'infer_multiplicity': T_MULT, 'cardinality.infer_cardinality': T_CARD}})

def build_pointer_card(w):
    """cardinality._infer_pointer_cardinality: the cardinality recorded for a computed pointer / a shape assignment (it is written into the schema and into the
    pointer reference, and decides `required` / `single` of the result descriptor) contains the actual size of the assigned expression.
    g_card: the value of the local `ptr_card` as computed from the expression and the explicit specifier (before the merge with an overloaded pointer)."""
    w.enum('ShapeOp', 'edb/edgeql/ast.py', 'ShapeOp')
    w.contract(QLT, 'SchemaCardinality.is_known', params={'self': 'SCard'}, returns='bool', pure=True, ensures=['result == (self != SCard.Unknown)'])
    w.refclass('PtrC', {}); w.refclass('PEnv', {'schema': 'Obj', 'pointer_specified_info': 'Obj'}); w.refclass('PCtx', {'env': 'PEnv', 'make_updates': 'bool'})
    w.ufunc('PSC', ['PtrC', 'Obj'], 'SCard')
    w.ext_methods['PtrC.get_cardinality'] = dict(params={'schema': 'Obj'}, returns='SCard', returns_expr='PSC(self, schema)', modifies=[])
    w.ext_methods['PtrC.get_verbosename'] = dict(params={'schema': 'Obj'}, returns='str', modifies=[])
    IHP = dict(params={'ir': 'IrB'}, optional=('scope_tree', 'ctx'), returns='Card', ensures=['known(result)', 'SZ(ir) >= 0', 'in_gamma(SZ(ir), result)'], raises={'QueryError': {}}, modifies=[])
    ASSIGN = '(shape_op != ShapeOp.APPEND and shape_op != ShapeOp.SUBTRACT)'
    w.contract(CARD, '_infer_pointer_cardinality',
        params={'ptrcls': 'PtrC', 'ptrref': 'Opt[Obj]', 'irexpr': 'IrB', 'specified_required': 'Opt[bool]', 'specified_card': 'Opt[SCard]', 'is_mut_assignment': 'bool',
                'shape_op': 'ShapeOp', 'source_ctx': 'Opt[Obj]', 'scope_tree': 'Obj', 'ctx': 'PCtx'},
        ghost={'g_card': 'Card', 'g_up': 'bool', 'g_inf': 'Card'}, returns='none',
        requires=['implies(specified_card is not None, specified_card != SCard.Unknown)', 'not g_up'],
        modifies=['PEnv.schema', '$alloc'],
        ghost_after={'ptr_card = inferred_card': [('g_card', 'ptr_card')], 'ptr_card = _bounds_to_card(lower_bound, upper_bound)': [('g_card', 'ptr_card')],
                     'desc = ptrcls.get_verbosename(env.schema)': [('g_up', 'True')], 'inf_lower_bound, inf_upper_bound = _card_to_bounds(inferred_card)': [('g_inf', 'inferred_card')]},
        ensures=['known(g_card)',
                 # `required` is recorded only when the expression cannot be empty (for mutations the explicit `required` is left to the run-time check and NOT recorded)
                 'implies(%s, SZ(irexpr) >= lo(g_card))' % ASSIGN,
                 # `single` is recorded only when the expression yields at most one element (or the pointer is already known to be single in the schema)
                 'implies(%s and old(PSC(ptrcls, ctx.env.schema)) == SCard.Unknown and bounded(g_card), SZ(irexpr) <= 1)' % ASSIGN,
                 # `+=` never yields a single pointer, `-=` never a required one (whatever the expression)
                 'implies(shape_op == ShapeOp.APPEND, not bounded(g_card))', 'implies(shape_op == ShapeOp.SUBTRACT, lo(g_card) == 0)',
                 # an explicit specifier is obeyed
                 'implies(specified_card is not None and specified_card == SCard.One, bounded(g_card))',
                 'implies(specified_required is not None and specified_required and not is_mut_assignment, lo(g_card) == 1)'],
        # "possibly more than one element" is raised (g_up: the branch that builds that message) only when the inferred cardinality really is multi and `single` was specified
        raises={'QueryError': {'ensures': ['implies(g_up, specified_card is not None and specified_card == SCard.One and not bounded(g_inf))']}},
        abstract={'if not ptrcls_schema_card.is_known() or ptrcls in ctx.env.pointer_specified_info:': dict(assigns={'ptr_card': 'Card'}, modifies=['PEnv.schema', '$alloc']),
                  'if ptrref and ctx.make_updates:': dict(assigns={}, modifies=['$alloc'])},
        hints={'ext_funcs': {'infer_cardinality': IHP}, 'ghost_out': ['g_card', 'g_up', 'g_inf']})

def build_funccall(w):
    """cardinality.__infer_func_call, functions that preserve the optionality / upper cardinality of their SET OF argument (assert_exists, assert_distinct, ...):
    an argument bound to an OPTIONAL (element-wise) parameter makes the call run once per element, so if such an argument may have more than one element the call may too --
    whatever the preserved upper bound of the SET OF argument is.  (The recursive inference of the arguments is the induction hypothesis: CARDOF.)"""
    w.refclass('CArg', {'expr': 'Obj', 'param_typemod': 'TypeMod', 'cardinality': 'Card'})
    w.refclass('ArgsD', {}); w.ufunc('ARGV', ['ArgsD'], 'Seq[CArg]'); w.ufunc('CARDOF', ['Obj'], 'Card')
    w.ext_methods['ArgsD.values'] = dict(params={}, returns='Seq[CArg]', returns_expr='ARGV(self)')
    w.refclass('FCall', {'args': 'ArgsD', 'global_args': 'Opt[Seq[Obj]]', 'preserves_optionality': 'bool', 'preserves_upper_cardinality': 'bool', 'typemod': 'TypeMod',
                         'func_shortname': 'Obj', 'body': 'Opt[Obj]', 'volatility': 'Obj', 'span': 'Obj'})
    w.refclass('FCtx', {'make_updates': 'bool'})
    XF = {'infer_cardinality': dict(params={'ir': 'Obj'}, optional=('scope_tree', 'ctx', 'is_mutation'), returns='Card', returns_expr='CARDOF(ir)', ensures=['known(result)'], raises={'QueryError': {}}),
          '_standard_call_cardinality': dict(params={'ir': 'FCall', 'cards': 'Seq[Card]', 'ctx': 'FCtx'}, returns='Card', raises={'QueryError': {}})}
    AV = 'ARGV(ir.args)'
    OPTMULTI = lambda hi: 'exists(0, %s, lambda j: %s[j].param_typemod == TypeMod.OptionalType and CARDOF(%s[j].expr).is_multi())' % (hi, AV, AV)
    w.contract(CARD, '__infer_func_call', params={'ir': 'FCall', 'scope_tree': 'Obj', 'ctx': 'FCtx'}, returns='Card', modifies=['CArg.cardinality'],
        ensures=['implies((ir.preserves_optionality or ir.preserves_upper_cardinality) and %s, result.is_multi())' % OPTMULTI('len(%s)' % AV)],
        raises={'QueryError': {}, 'ValueError': {}},
        loops={1: dict(fingerprint='for arg in ir.args.values()', index='i', invariant=['len(cards) == i', 'len(arg_typemods) == i',
                       'forall(0, i, lambda j: cards[j] == CARDOF(%s[j].expr) and known(cards[j]) and arg_typemods[j] == %s[j].param_typemod)' % (AV, AV)]),
               2: dict(fingerprint='for (arg, card) in zip(ir.args.values(), cards)', index='i', invariant=['forall(0, i, lambda j: implies(%s[j].param_typemod == TypeMod.OptionalType and CARDOF(%s[j].expr).is_multi(), force_multi))' % (AV, AV)])},
        abstract={'for glob_arg in ir.global_args or ():': dict(assigns={}, raises=['QueryError']),
                  'arg_card = zip(*(_card_to_bounds(card) for card in arg_cards))': dict(assigns={}),
                  'arg_lower, arg_upper = arg_card': dict(assigns={'arg_lower': 'Seq[CB]', 'arg_upper': 'Seq[CB]'}, raises=['ValueError']),
                  "lower = min(arg_lower) if ir.preserves_optionality else CB_ONE if ir.func_shortname == sn.QualName('std', 'assert_exists') else ret_lower_bound": dict(assigns={'lower': 'CB'}),
                  'if ir.body is not None:': dict(assigns={}, raises=['QueryError']),
                  'if ir.volatility == MODIFYING:': dict(assigns={}, raises=['QueryError'])},
        hints={'ext_funcs': XF, 'var_types': {'cards': 'Seq[Card]', 'arg_typemods': 'Seq[TypeMod]', 'arg_cards': 'Seq[Card]'}})
    return w

def build_constset(w):
    """multiplicity.__infer_const_set: a literal set reported UNIQUE has pairwise different run-time values.  RV(el) = the value element el evaluates to (uninterpreted);
    what is known about it: a string / bytes / boolean constant denotes its own text, a float constant float(text), an integer / bigint / decimal constant Decimal(text)
    (assumed semantics of literals, listed as trusted); nothing is known about the value of a query parameter or any other element."""
    w.refclass('CEl', {'value': 'Obj', 'name': 'Obj', 'is_global': 'bool'}); w.hierarchies['CEl'] = IRAST
    w.refclass('CSet', {'elements': 'Seq[CEl]'})
    w.ufunc('RV', ['CEl'], 'Obj'); w.ufunc('FLT', ['Obj'], 'Obj'); w.ufunc('DEC', ['Obj'], 'Obj'); w.ufunc('TXT', ['Obj'], 'Obj')
    w.trusted.append('run-time value of literals (RV): FloatConstant -> float(text); Integer / Bigint / DecimalConstant -> Decimal(text); any other constant -> its text / bytes; '
                     'values of different kinds of key (FLT / DEC / TXT images) are only compared within one kind: the elements of a ConstantSet have one type')
    ISF = lambda e: 'isinstance(%s, irast.FloatConstant)' % e
    ISD = lambda e: '(isinstance(%s, irast.IntegerConstant) or isinstance(%s, irast.BigintConstant) or isinstance(%s, irast.DecimalConstant))' % (e, e, e)
    ISC = lambda e: 'isinstance(%s, irast.BaseConstant)' % e
    KEYOF = lambda e: '(FLT(%s.value) if %s else DEC(%s.value) if %s else %s.value)' % (e, ISF(e), e, ISD(e), e)
    SEM = ('forall(0, len(ir.elements), lambda j: implies(%s, RV(ir.elements[j]) == %s))' % (ISC('ir.elements[j]'), KEYOF('ir.elements[j]')))
    XC = {'float': dict(params={'s': 'Obj'}, returns='Obj', returns_expr='FLT(s)'),
          'decimal.Decimal': dict(params={'s': 'Obj'}, returns='Obj', returns_expr='DEC(s)', raises={'InvalidOperation': {}})}
    w.contract(MULT, '__infer_const_set', params={'ir': 'CSet', 'scope_tree': 'Obj', 'ctx': 'Obj'}, returns='MI',
        requires=[SEM],
        ensures=['implies(result.own == Mult.UNIQUE, forall(0, len(ir.elements), lambda a: forall(0, len(ir.elements), lambda b: implies(a != b, RV(ir.elements[a]) != RV(ir.elements[b])))))',
                 'result.own == Mult.UNIQUE or result.own == Mult.DUPLICATE'],
        loops={0: dict(fingerprint='for el in ir.elements', index='i', invariant=[
                       'card(els) <= i', 'forall(0, i, lambda j: %s and RV(ir.elements[j]) in els)' % ISC('ir.elements[j]'),
                       'implies(card(els) == i, forall(0, i, lambda a: forall(0, i, lambda b: implies(a != b, RV(ir.elements[a]) != RV(ir.elements[b])))))'])},
        hints={'ext_funcs': XC, 'var_types': {'els': 'Set[Obj]'}})
    return w

def build_exclusive(w):
    """cardinality.get_object_exclusive_constraints (which object-level exclusive constraints may be used to conclude AT_MOST_ONE from a filter): every constraint it
    returns is exclusive, has no EXCEPT clause, is not delegated, and all pointers of its subject expression are among the filtered ones -- a constraint with an EXCEPT
    clause or a delegated one does not make the filtered value unique across the type.   typeutils.is_json: decided on the BASE type (a scalar extending json is json)."""
    IRTU = 'edb/ir/typeutils.py'
    w.refclass('ECon', {}); w.refclass('ESub', {'refs': 'Opt[ERefs]'}); w.refclass('ERefs', {}); w.refclass('EPtr', {}, universal=True); w.refclass('ETyp', {}, universal=True)
    w.refclass('ESch', {}); w.refclass('EEnv', {'schema': 'ESch'})
    w.ufunc('XCL', ['ECon'], 'bool'); w.ufunc('XEXC', ['ECon'], 'Opt[Obj]'); w.ufunc('XDEL', ['ECon'], 'bool'); w.ufunc('XSUB', ['ECon'], 'Opt[ESub]'); w.ufunc('XREFS', ['ERefs'], 'Seq[EPtr]')
    w.ufunc('XCONS', ['ETyp'], 'Seq[ECon]')
    w.ext_methods['ESch.get'] = dict(params={'n': 'str', 'type': 'Obj'}, returns='Obj')
    w.ext_methods['ETyp.get_nearest_non_derived_parent'] = dict(params={'s': 'ESch'}, returns='ETyp')
    w.refclass('EColl', {}); w.ufunc('ECOLL', ['EColl'], 'Seq[ECon]')
    w.ext_methods['ETyp.get_constraints'] = dict(params={'s': 'ESch'}, returns='EColl')
    w.ext_methods['EColl.objects'] = dict(params={'s': 'ESch'}, returns='Seq[ECon]', returns_expr='ECOLL(self)')
    w.ext_methods['ECon.issubclass'] = dict(params={'s': 'ESch', 'p': 'Obj'}, returns='bool', returns_expr='XCL(self)')
    w.ext_methods['ECon.get_subjectexpr'] = dict(params={'s': 'ESch'}, returns='Opt[ESub]', returns_expr='XSUB(self)')
    w.ext_methods['ECon.get_except_expr'] = dict(params={'s': 'ESch'}, returns='Opt[Obj]', returns_expr='XEXC(self)')
    w.ext_methods['ECon.get_delegated'] = dict(params={'s': 'ESch'}, returns='bool', returns_expr='XDEL(self)')
    w.ext_methods['ERefs.objects'] = dict(params={'s': 'ESch'}, returns='Seq[EPtr]', returns_expr='XREFS(self)')
    # (stated for one arbitrary constraint K and one arbitrary pointer P -- ghost constants -- so that the VCs stay ground and a broken body gets a definite verdict)
    GOODK = lambda m: 'implies(K in %s, XCL(K) and is_none(XEXC(K)) and not XDEL(K) and implies(P in %s[K], P in ptr_set))' % (m, m)
    w.contract(CARD, 'get_object_exclusive_constraints', params={'typ': 'ETyp', 'ptr_set': 'Set[EPtr]', 'env': 'EEnv'}, returns='Map[ECon,Set[EPtr]]',
        ghost={'K': 'ECon', 'P': 'EPtr'}, ensures=[GOODK('result')],
        loops={0: dict(fingerprint='for constr in typ.get_constraints(schema).objects(schema)', index='i', invariant=[GOODK('cnstrs')])},
        hints={'var_types': {'cnstrs': 'Map[ECon,Set[EPtr]]'}})
    w.refclass('JRef', {'real_base_type': 'JRef', 'real_material_type': 'JRef', 'id': 'Obj'})
    w.ufunc('KTID', ['str'], 'Obj'); w.ext_funcs['s_obj.get_known_type_id'] = dict(params={'n': 'str'}, returns='Obj', returns_expr='KTID(n)')
    w.contract(IRTU, 'is_json', params={'typeref': 'JRef'}, returns='bool', ensures=['result == (typeref.real_base_type.id == KTID("std::json"))'])
    w.contract(IRTU, 'is_bytes', params={'typeref': 'JRef'}, returns='bool', ensures=['result == (typeref.real_base_type.id == KTID("std::bytes"))'])
    # cardinality.__infer_typecast: a cast is element-wise, except that a json `null` casts to the empty set -- so for an operand of n0 elements the result has n elements with
    # n == n0, or 0 <= n <= n0 when the source type is json (by its base type) and the cast is not marked `required`; the reported cardinality contains every such n
    w.enum('CMod', 'edb/edgeql/ast.py', 'CardinalityModifier')
    w.refclass('TCast', {'expr': 'Obj', 'from_type': 'JRef', 'cardinality_mod': 'Opt[CMod]'})
    ISJ = '(ir.from_type.real_base_type.id == KTID("std::json"))'
    REQD = '(not is_none(ir.cardinality_mod) and some(ir.cardinality_mod) == CMod.Required)'
    w.contract(CARD, '__infer_typecast', params={'ir': 'TCast', 'scope_tree': 'Obj', 'ctx': 'Obj'}, ghost={'n0': 'int', 'n': 'int'}, returns='Card',
        requires=['n0 >= 0', 'in_gamma(n0, CARDOF(ir.expr))', 'implies(%s and not %s, 0 <= n and n <= n0)' % (ISJ, REQD), 'implies(not (%s and not %s), n == n0)' % (ISJ, REQD)],
        ensures=['known(result)', 'in_gamma(n, result)'], raises={'QueryError': {}},
        hints={'ext_funcs': {'infer_cardinality': dict(params={'ir': 'Obj'}, optional=('scope_tree', 'ctx', 'is_mutation'), returns='Card', returns_expr='CARDOF(ir)', ensures=['known(result)'],
                                                       raises={'QueryError': {}})}})
    return w

def build():
    w = World('C06')
    w.enum('Card', QLT, 'Cardinality')
    w.enum('SCard', QLT, 'SchemaCardinality', ordered=True)
    w.enum('CB', CARD, 'CardinalityBound')
    w.enum('TypeMod', QLT, 'TypeModifier')
    w.enum('OutCard', 'edb/protocol/enums.py', 'Cardinality')
    w.rec('Bounds', [('lower', 'CB'), ('upper', 'CB')], CARD, 'CardinalityBounds')
    w.trusted.append('OrderedEnumMixin comparisons = definition order of members (edb/common/enum.py), modelled not verified')

    # ---- spec vocabulary
    w.define('known(c)', 'c != Card.UNKNOWN')
    w.define('lo(c)', '1 if (c == Card.ONE or c == Card.AT_LEAST_ONE) else 0')          # least size in gamma(c)
    w.define('bounded(c)', 'c == Card.ONE or c == Card.AT_MOST_ONE')                      # sizes <= 1
    w.define('in_gamma(n, c)', 'n >= lo(c) and implies(bounded(c), n <= 1)')
    w.define('cb_ok(n, l, u)', 'n >= int(l) and implies(int(u) < 2, n <= int(u))')       # size n within bounds (l,u); 2 = unbounded
    w.ufunc('prodn', ['Seq[int]', 'int'], 'int')     # product of the first k sizes
    w.ufunc('sumn', ['Seq[int]', 'int'], 'int')      # sum of the first k sizes
    # definitional unfoldings (instantiated explicitly where needed)
    w.define('prodn_def(ns, k)', 'prodn(ns, 0) == 1 and implies(k >= 0, prodn(ns, k + 1) == prodn(ns, k) * ns[k])')
    w.define('sumn_def(ns, k)', 'sumn(ns, 0) == 0 and implies(k >= 0, sumn(ns, k + 1) == sumn(ns, k) + ns[k])')
    w.definitional |= {'prodn_def', 'sumn_def'}
    w.exec_defs = {'prodn': 'lambda ns, k: math.prod(ns[:k])', 'sumn': 'lambda ns, k: sum(ns[:k])'}
    w.gen = {'int': [0, 1, 2, 3], 'maxlen': 3}
    w.trusted.append('prodn/sumn: recursive spec functions (product/sum of a prefix of natural sizes) introduced by their defining equations')

    # ---- CardinalityBound methods
    w.contract(CARD, 'CardinalityBound.__add__', params={'self': 'CB', 'other': 'int'}, returns='CB',
               requires=['other >= 0'], pure=True,
               ensures=['int(result) == min(int(self) + other, 2)'])
    w.contract(CARD, 'CardinalityBound.__mul__', params={'self': 'CB', 'other': 'int'}, returns='CB',
               requires=['other >= 0'], pure=True,
               ensures=['int(result) == min(int(self) * other, 2)'])
    w.contract(CARD, 'CardinalityBound.as_required', params={'self': 'CB'}, returns='bool', pure=True,
               ensures=['result == (int(self) >= 1)'])
    w.contract(CARD, 'CardinalityBound.as_schema_cardinality', params={'self': 'CB'}, returns='SCard', pure=True,
               ensures=['result == (SCard.Many if int(self) >= 2 else SCard.One)'])
    w.contract(CARD, 'CardinalityBound.from_required', params={'cls': 'none', 'required': 'bool'}, returns='CB', pure=True,
               ensures=['int(result) == (1 if required else 0)'])
    w.contract(CARD, 'CardinalityBound.from_schema_value', params={'cls': 'none', 'card': 'SCard'}, returns='CB', pure=True,
               ensures=['result == (CB.ONE if card == SCard.One else CB.MANY)'])

    # ---- qltypes.Cardinality
    w.contract(QLT, 'Cardinality.is_single', params={'self': 'Card'}, returns='bool', pure=True,
               ensures=['implies(known(self), result == bounded(self))'])
    w.contract(QLT, 'Cardinality.is_multi', params={'self': 'Card'}, returns='bool', pure=True,
               ensures=['implies(known(self), result == (not bounded(self)))'])
    w.contract(QLT, 'Cardinality.can_be_zero', params={'self': 'Card'}, returns='bool', pure=True,
               ensures=['implies(known(self), result == (lo(self) == 0))'])
    w.contract(QLT, 'Cardinality.to_schema_value', params={'self': 'Card'}, returns='Tuple[bool,SCard]', pure=True,
               requires=['known(self)'],
               ensures=['result[0] == (lo(self) == 1)', 'result[1] == (SCard.One if bounded(self) else SCard.Many)'])
    w.contract(QLT, 'Cardinality.from_schema_value', params={'cls': 'none', 'required': 'bool', 'card': 'SCard'}, returns='Card', pure=True,
               requires=['card != SCard.Unknown'],
               ensures=['known(result)', 'lo(result) == (1 if required else 0)', 'bounded(result) == (card == SCard.One)'])

    # ---- bounds <-> cardinality
    w.contract(CARD, '_card_to_bounds', params={'card': 'Card'}, returns='Bounds', pure=True,
               requires=['known(card)'],
               ensures=['int(result.lower) == lo(card)', 'int(result.upper) == (1 if bounded(card) else 2)'])
    w.contract(CARD, '_bounds_to_card', params={'lower': 'CB', 'upper': 'CB'}, returns='Card', pure=True,
               ensures=['known(result)', 'lo(result) == (1 if int(lower) >= 1 else 0)', 'bounded(result) == (int(upper) < 2)',
                        # property-level: every size within (lower, upper) is in gamma(result); exactly those when upper >= 1
                        'forall(int, lambda n: implies(n >= 0 and cb_ok(n, lower, upper), in_gamma(n, result)))',
                        'forall(int, lambda n: implies(n >= 0 and int(upper) >= 1 and in_gamma(n, result), n >= min(int(lower), 1) and implies(int(upper) < 2, n <= 1)))'])
    w.contract(CARD, '_typemod_to_card', params={'typemod': 'TypeMod'}, returns='Card', pure=True,
               ensures=['result == (Card.MANY if typemod == TypeMod.SetOfType else (Card.AT_MOST_ONE if typemod == TypeMod.OptionalType else Card.ONE))'])

    # ---- n-ary rules: argument lists of any length, ghost `ns` = the actual sizes of the argument sets
    NS = ['len(ns) == len(args)', 'forall(0, len(args), lambda k: known(args[k]) and ns[k] >= 0 and in_gamma(ns[k], args[k]))']
    w.contract(CARD, '_card_unzip', params={'args': 'Seq[Card]'}, returns='Tuple[Seq[CB],Seq[CB]]', pure=True,
               requires=['forall(0, len(args), lambda k: known(args[k]))'],
               ensures=['len(result[0]) == len(args)', 'len(result[1]) == len(args)',
                        'forall(0, len(args), lambda k: int(result[0][k]) == lo(args[k]) and int(result[1][k]) == (1 if bounded(args[k]) else 2))'])
    w.contract(CARD, 'product', params={'arg': 'Seq[CB]'}, ghost={'ns': 'Seq[int]'}, returns='CB',
               requires=['len(ns) == len(arg)', 'forall(0, len(arg), lambda k: ns[k] >= 0)'],
               ensures=['prodn(ns, len(arg)) >= 0',
                        'implies(forall(0, len(arg), lambda k: ns[k] >= int(arg[k])), implies(int(result) >= 1, prodn(ns, len(arg)) >= 1))',
                        'implies(forall(0, len(arg), lambda k: implies(int(arg[k]) < 2, ns[k] <= int(arg[k]))), implies(int(result) < 2, prodn(ns, len(arg)) <= int(result)))',
                        'implies(forall(0, len(arg), lambda k: int(arg[k]) >= 1), int(result) >= 1)'],
               loops={0: dict(fingerprint='for x in arg', index='i', lemmas=['prodn_def(ns, i)'], invariant=[
                        'prodn(ns, i) >= 0', 'prodn(ns, 0) == 1',
                        'implies(forall(0, len(arg), lambda k: ns[k] >= int(arg[k])), implies(int(res) >= 1, prodn(ns, i) >= 1))',
                        'implies(forall(0, len(arg), lambda k: implies(int(arg[k]) < 2, ns[k] <= int(arg[k]))), implies(int(res) < 2, prodn(ns, i) <= int(res)))',
                        'implies(forall(0, len(arg), lambda k: int(arg[k]) >= 1), int(res) >= 1)'])})
    w.contract(CARD, 'cartesian_cardinality', params={'args': 'Seq[Card]'}, ghost={'ns': 'Seq[int]'}, returns='Card',
               requires=NS,
               ensures=['known(result)', 'in_gamma(prodn(ns, len(args)), result)',
                        # closed forms of the product for the arities used by the clause-level rules
                        'implies(len(args) == 1, prodn(ns, 1) == ns[0])', 'implies(len(args) == 2, prodn(ns, 2) == ns[0] * ns[1])'],
               hints={'lemmas': ['prodn_def(ns, 0)', 'prodn_def(ns, 1)']})
    # coalesce (??): the result is the first non-empty argument, or empty if all are
    w.contract(CARD, 'max_cardinality', params={'args': 'Seq[Card]'}, ghost={'ns': 'Seq[int]', 'n': 'int'}, returns='Card',
               requires=NS + ['len(args) > 0',
                              '(n == 0 and forall(0, len(ns), lambda k: ns[k] == 0)) or exists(0, len(ns), lambda k: n == ns[k] and n > 0)'],
               ensures=['known(result)', 'in_gamma(n, result)'])
    # INTERSECT uses only the upper bound of min_cardinality: the result is no larger than any argument
    w.contract(CARD, 'min_cardinality', params={'args': 'Seq[Card]'}, ghost={'ns': 'Seq[int]', 'n': 'int'}, returns='Card',
               requires=NS + ['len(args) > 0', 'n >= 0', 'forall(0, len(ns), lambda k: n <= ns[k])'],
               ensures=['known(result)', 'implies(bounded(result), n <= 1)',
                        'lo(result) == 1 implies forall(0, len(args), lambda k: lo(args[k]) == 1)' if False else 'implies(lo(result) == 1, forall(0, len(args), lambda k: lo(args[k]) == 1))'])
    w.contract(CARD, '_union_cardinality', params={'args': 'Seq[Card]'}, ghost={'ns': 'Seq[int]'}, returns='Card',
               requires=NS,
               ensures=['known(result)', 'in_gamma(sumn(ns, len(args)), result)'],
               loops={'sum#0': dict(acc='acc', index='i', lemmas=['sumn_def(ns, i)'], invariant=[
                          'sumn(ns, i) >= 0', 'sumn(ns, 0) == 0', 'implies(int(acc) >= 1, sumn(ns, i) >= 1)']),
                      'sum#1': dict(acc='acc', index='i', lemmas=['sumn_def(ns, i)'], invariant=[
                          'sumn(ns, i) >= 0', 'sumn(ns, 0) == 0', 'implies(int(acc) < 2, sumn(ns, i) <= int(acc))'])})

    build_ir_rules(w)
    build_pointer_card(w)
    build_disjointness(w)
    build_funccall(w)
    build_constset(w)
    build_exclusive(w)
    # ---- what is sent to clients
    w.contract(ENUMS, 'cardinality_from_ir_value', params={'card': 'Card'}, returns='OutCard',
               requires=['known(card)'],
               ensures=['(result == OutCard.AT_MOST_ONE) == (card == Card.AT_MOST_ONE)', '(result == OutCard.ONE) == (card == Card.ONE)',
                        '(result == OutCard.MANY) == (card == Card.MANY)', '(result == OutCard.AT_LEAST_ONE) == (card == Card.AT_LEAST_ONE)',
                        'result != OutCard.NO_RESULT'])
    return w

def scenarios(tier, seed, repo_root, outdir):
    """bounded stand-in: real rule functions on concrete multisets vs the set semantics of the construct (see scenario.py)"""
    import os, json, subprocess
    here = os.path.dirname(os.path.abspath(__file__)); root = os.path.dirname(os.path.dirname(here))
    out = os.path.join(outdir, 'scenario_out.json')
    if os.path.exists(out): os.unlink(out)
    nmax = 3 if tier == 'quick' else 4
    env = dict(os.environ); env['PYTHONPATH'] = '%s:%s' % (os.path.join(root, 'stubs'), repo_root); env['VERIF_REPO'] = repo_root
    p = subprocess.run(['/venv/bin/python', os.path.join(here, 'scenario.py'), str(seed), str(nmax), out], capture_output=True, text=True, env=env, cwd=repo_root, timeout=3000)
    if not os.path.exists(out): raise RuntimeError('scenario runner failed: ' + (p.stderr or p.stdout)[-2000:])
    r = json.load(open(out))
    return dict(evaluations=r['cases'], failure=r['failure'],
                label='tuple constructor rule on all tuples of <= %d elements over 5 concrete multisets x exact / loose cardinalities (bounded)' % nmax,
                clause='per-element and own multiplicity of a tuple set bound the duplicates of its projections / of the tuples')


def extra_obligations(w, tier, seed):
    """AST obligations that back assumed blocks of the contracts above."""
    out = []
    def ob(oid, clause, ok, where, undecided=False):
        return dict(id=oid, kind='shape', clause=clause, tag='property', paths=1, status='discharged' if ok else ('unknown' if undecided else 'failed'), backend='ast-scan', seconds=0.0,
                    model=None if ok else {'offending_source_location': where}, where=where, function='ast-scan')
    # __infer_oper_call, UNION of object sets: the block that computes `types_disjoint` is assumed in the contract with  types_disjoint ==> TD(ir)
    #   (no object can be in two operands).  With multiple inheritance two types neither of which is a subtype of the other still share objects (a common descendant),
    #   so the test has to be made on the WHOLE lineages: every operand type together with all its descendants, no type twice in the concatenation.
    fn, _ = repo.find_def('edb/edgeql/compiler/inference/multiplicity.py', '__infer_oper_call')
    blocks = [n for n in ast.walk(fn) if isinstance(n, ast.If) and ast.unparse(n.test) == 'isinstance(arg_type, s_objtypes.ObjectType)']
    st = None; where = 'block `if isinstance(arg_type, s_objtypes.ObjectType):` not found'
    if len(blocks) == 1:
        b = blocks[0]
        defs = {}
        for n in b.body:
            if isinstance(n, (ast.Assign, ast.AnnAssign)) and n.value is not None:
                t = n.targets[0] if isinstance(n, ast.Assign) else n.target
                if isinstance(t, ast.Name): defs.setdefault(t.id, []).append(n.value)
        td = defs.get('types_disjoint', [])
        els = [n for n in b.orelse if isinstance(n, ast.Assign) and ast.unparse(n.targets[0]) == 'types_disjoint']
        if len(td) == 1 and len(els) == 1:
            # transitive closure of the expressions the flag is computed from (inside the block)
            seen = set(); work = [td[0]]; exprs = []
            while work:
                e = work.pop(); exprs.append(e)
                for x in ast.walk(e):
                    if isinstance(x, ast.Name) and x.id in defs and x.id not in seen:
                        seen.add(x.id); work.extend(defs[x.id])
            txt = ' ;; '.join(ast.unparse(e) for e in exprs)
            uses_desc = any(isinstance(x, ast.Call) and isinstance(x.func, ast.Attribute) and x.func.attr == 'descendants' for e in exprs for x in ast.walk(e))
            canonical = (ast.unparse(td[0]) == 'len(flattened) == len(frozenset(flattened))' and 'flattened' in defs and 'lineages' in defs
                         and ast.unparse(defs['flattened'][0]) == 'tuple(itertools.chain.from_iterable(lineages))'
                         and ast.unparse(defs['lineages'][0]) == '[(t,) + tuple(t.descendants(ctx.env.schema)) for t in types]')
            else_false = isinstance(els[0].value, ast.Constant) and els[0].value.value is False
            where = 'line %d: types_disjoint = %s' % (b.lineno, ast.unparse(td[0])[:120])
            if canonical and else_false: st = True
            elif not uses_desc: st = False; where += ' (the descendants of the operand types are not consulted)'
            elif not else_false: st = False; where += ' (non-object operands: %s)' % ast.unparse(els[0].value)
    out.append(ob('scan/__infer_oper_call/types-disjoint-by-lineage', 'multiplicity.__infer_oper_call (UNION): types_disjoint is True only when no type occurs twice among the operand types '
                  'and all their descendants (and False for non-object operands); this backs the assumed block  types_disjoint ==> TD(ir)', st is True, where, undecided=st is None))
    return out
