"""C06 bounded stand-in / counterexample finder (native; never counted as proof).

Rule-level oracle from the property text: the REAL rule functions of inference/multiplicity.py are run on small IR nodes whose
sub-expressions are *concrete multisets*; the recursive inference of a sub-expression is replaced by the exact classification of its
multiset (cardinality / multiplicity of that concrete value -- the induction hypothesis made concrete), and the verdict of the rule is
compared with the multiset the construct evaluates to under EdgeQL's set semantics.
  tuple constructor  (e0, e1, ..): the tuple set is the cartesian product; the per-element descriptors must bound the duplicates
                     of every projection .k, the tuple's own multiplicity those of the tuples
usage: scenario.py <seed> <max_elements> <out.json>
"""
import sys, json, itertools, types, collections
from edb.edgeql import qltypes
from edb.edgeql.compiler.inference import multiplicity as M, cardinality as C

Card = qltypes.Cardinality
POOL = [[], [1], [1, 2], [1, 1], [1, 2, 2]]        # concrete multisets an element can evaluate to

def card_of(ms, exact):
    """a sound cardinality for the multiset: the tightest one if `exact`, else a looser sound one"""
    n = len(ms)
    if exact: return Card.AT_MOST_ONE if n == 0 else Card.ONE if n == 1 else Card.AT_LEAST_ONE
    return Card.AT_MOST_ONE if n <= 1 else Card.MANY

def mult_of(ms):
    if not ms: return M.EMPTY
    return M.UNIQUE if max(collections.Counter(ms).values()) <= 1 else M.DUPLICATE

def dup(ms): return bool(ms) and max(collections.Counter(ms).values()) > 1

def check_tuple(values, exact):
    els = [types.SimpleNamespace(val=types.SimpleNamespace(ms=v)) for v in values]
    ir = types.SimpleNamespace(elements=els)
    orig_m, orig_c = M.infer_multiplicity, C.infer_cardinality
    M.infer_multiplicity = lambda s, **kw: mult_of(s.ms)
    C.infer_cardinality = lambda s, **kw: card_of(s.ms, exact)
    try: res = vars(M)['__infer_tuple'](ir, scope_tree=None, ctx=None)
    finally: M.infer_multiplicity, C.infer_cardinality = orig_m, orig_c
    tuples = list(itertools.product(*values))
    if len(res.elements) != len(values): return 'descriptor has %d elements for a %d-tuple' % (len(res.elements), len(values))
    for k in range(len(values)):
        proj = [t[k] for t in tuples]
        if dup(proj) and not res.elements[k].is_duplicate():
            return 'projection .%d of the tuple set evaluates to %r (duplicates) but its descriptor is %s' % (k, proj, res.elements[k].own)
    if dup(tuples) and not res.is_duplicate():
        return 'the tuple set %r has duplicates but is classified %s' % (tuples, res.own)
    return None

def main():
    seed, nmax, out = int(sys.argv[1]), int(sys.argv[2]), sys.argv[3]
    res = dict(cases=0, failure=None)
    for n in range(1, nmax + 1):
        for values in itertools.product(POOL, repeat=n):
            for exact in (True, False):
                res['cases'] += 1
                f = check_tuple(list(values), exact)
                if f:
                    res['failure'] = dict(rule='__infer_tuple', element_values=[list(v) for v in values], exact_cardinalities=exact, problem=f)
                    json.dump(res, open(out, 'w'), indent=1); return
    json.dump(res, open(out, 'w'), indent=1)

if __name__ == '__main__':
    main()
