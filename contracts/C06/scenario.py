"""C06 bounded stand-in / counterexample finder (native; never counted as proof).

Rule-level oracle from the property text: the REAL rule functions of inference/multiplicity.py are run on small IR nodes whose
sub-expressions are *concrete multisets*; the recursive inference of a sub-expression is replaced by the exact classification of its
multiset (cardinality / multiplicity of that concrete value -- the induction hypothesis made concrete), and the verdict of the rule is
compared with the multiset the construct evaluates to under EdgeQL's set semantics.
  tuple constructor  (e0, e1, ..): the tuple set is the cartesian product; the per-element descriptors must bound the duplicates
                     of every projection .k, the tuple's own multiplicity those of the tuples
usage: scenario.py <seed> <max_elements> <out.json>
"""
import sys, json, itertools, types, collections
from edb.edgeql import qltypes
from edb.edgeql.compiler.inference import multiplicity as M, cardinality as C

Card = qltypes.Cardinality
POOL = [[], [1], [1, 2], [1, 1], [1, 2, 2]]        # concrete multisets an element can evaluate to

def card_of(ms, exact):
    """a sound cardinality for the multiset: the tightest one if `exact`, else a looser sound one"""
    n = len(ms)
    if exact: return Card.AT_MOST_ONE if n == 0 else Card.ONE if n == 1 else Card.AT_LEAST_ONE
    return Card.AT_MOST_ONE if n <= 1 else Card.MANY

def mult_of(ms):
    if not ms: return M.EMPTY
    return M.UNIQUE if max(collections.Counter(ms).values()) <= 1 else M.DUPLICATE

def dup(ms): return bool(ms) and max(collections.Counter(ms).values()) > 1

def check_tuple(values, exact):
    els = [types.SimpleNamespace(val=types.SimpleNamespace(ms=v)) for v in values]
    ir = types.SimpleNamespace(elements=els)
    orig_m, orig_c = M.infer_multiplicity, C.infer_cardinality
    M.infer_multiplicity = lambda s, **kw: mult_of(s.ms)
    C.infer_cardinality = lambda s, **kw: card_of(s.ms, exact)
    try: res = vars(M)['__infer_tuple'](ir, scope_tree=None, ctx=None)
    finally: M.infer_multiplicity, C.infer_cardinality = orig_m, orig_c
    tuples = list(itertools.product(*values))
    if len(res.elements) != len(values): return 'descriptor has %d elements for a %d-tuple' % (len(res.elements), len(values))
    for k in range(len(values)):
        proj = [t[k] for t in tuples]
        if dup(proj) and not res.elements[k].is_duplicate():
            return 'projection .%d of the tuple set evaluates to %r (duplicates) but its descriptor is %s' % (k, proj, res.elements[k].own)
    if dup(tuples) and not res.is_duplicate():
        return 'the tuple set %r has duplicates but is classified %s' % (tuples, res.own)
    return None

def in_gamma(n, card):
    lo = 1 if card in (Card.ONE, Card.AT_LEAST_ONE) else 0
    return n >= lo and (n <= 1 if card in (Card.ONE, Card.AT_MOST_ONE) else True)

def check_slice(base, start, stop, exact):
    """e[a:b] / e[i]: one result per combination of an element of e, of a and of b (an absent bound counts once)"""
    mk = lambda ms: None if ms is None else types.SimpleNamespace(ms=ms)
    orig_c = C.infer_cardinality; orig_v = C._check_op_volatility
    C.infer_cardinality = lambda s, **kw: card_of(s.ms, exact); C._check_op_volatility = lambda *a, **k: None
    try:
        if stop == 'INDEX':
            res = vars(C)['__infer_index'](types.SimpleNamespace(expr=mk(base), index=mk(start)), scope_tree=None, ctx=None); n = len(base) * len(start); what = 'e[i]'
        else:
            res = vars(C)['__infer_slice'](types.SimpleNamespace(expr=mk(base), start=mk(start), stop=mk(stop)), scope_tree=None, ctx=None)
            n = len(base) * (1 if start is None else len(start)) * (1 if stop is None else len(stop)); what = 'e[a:b]'
    finally: C.infer_cardinality = orig_c; C._check_op_volatility = orig_v
    if not in_gamma(n, res): return '%s over sets of sizes %r evaluates to %d elements but is reported %s' % (what, (len(base), None if start is None else len(start), stop if stop in (None, 'INDEX') else len(stop)), n, res)
    return None

def main():
    seed, nmax, out = int(sys.argv[1]), int(sys.argv[2]), sys.argv[3]
    res = dict(cases=0, failure=None)
    for base in POOL:
        for start in [None] + POOL:
            for stop in [None, 'INDEX'] + POOL:
                if stop == 'INDEX' and start is None: continue
                for exact in (True, False):
                    res['cases'] += 1
                    f = check_slice(base, start, stop, exact)
                    if f:
                        res['failure'] = dict(rule='__infer_index' if stop == 'INDEX' else '__infer_slice', base=base, start=start, stop=stop, exact_cardinalities=exact, problem=f)
                        json.dump(res, open(out, 'w'), indent=1); return
    for n in range(1, nmax + 1):
        for values in itertools.product(POOL, repeat=n):
            for exact in (True, False):
                res['cases'] += 1
                f = check_tuple(list(values), exact)
                if f:
                    res['failure'] = dict(rule='__infer_tuple', element_values=[list(v) for v in values], exact_cardinalities=exact, problem=f)
                    json.dump(res, open(out, 'w'), indent=1); return
    json.dump(res, open(out, 'w'), indent=1)

if __name__ == '__main__':
    main()
