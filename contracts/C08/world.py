"""C08 sidecar contracts: declared capabilities cover what a statement does.

Chain from effect to flag (each link a function contract or an ownership scan over the real tree):
  1. stmt.py compile_Insert/Update/DeleteQuery, func.py compile_FunctionCall record every DML expression in ctx.env.dml_exprs  [dominance scans]
  2. irast.*Stmt DML nodes are constructed only there; dml_exprs is only ever appended to; ctx.env is shared by all context levels   [ownership scans]
  3. compiler._compile_ql_query: has_dml = bool(ir.dml_exprs)                                                                  [guard scan]
  4. compiler._compile_dispatch_ql: statement class -> capability (verified against the class hierarchy of edb/edgeql/ast.py)   [SMT]
  5. dbstate.QueryUnitGroup.append: group flags are the union (monotone)                                                           [SMT]
  6. enums.Capability: WRITE = MODIFICATIONS | DDL | PERSISTENT_CONFIG, flag bits distinct                                          [SMT / evaluation of the class body]
"""
import ast, os
from pyvc.engine import World
from pyvc import repo

COMP = 'edb/server/compiler/compiler.py'; DB = 'edb/server/compiler/dbstate.py'; ENUMS = 'edb/server/compiler/enums.py'
QLAST = 'edb/edgeql/ast.py'; QLT = 'edb/edgeql/qltypes.py'

def build():
    w = World('C08')
    w.refclass('Obj', {}, universal=True)
    caps = w.flagenum('Cap', ENUMS, 'Capability')
    w.enum('Scope', QLT, 'ConfigScope'); w.enum('TxAction', DB, 'TxAction')
    w.refclass('Ql', {'scope': 'Scope'}); w.hierarchies['Ql'] = QLAST
    w.refclass('Q', {'has_dml': 'bool', 'tx_action': 'Opt[TxAction]'}); w.hierarchies['Q'] = DB
    w.refclass('Ctx', {'notebook': 'bool'}, COMP, 'CompileContext')
    for fn in ('ddl.compile_dispatch_ql_migration', 'ddl.compile_and_apply_ddl_stmt', '_compile_ql_transaction', '_compile_ql_sess_state',
               '_compile_ql_config_op', '_compile_ql_explain', '_compile_ql_administer', '_compile_ql_query'):
        w.ext_funcs[fn] = dict(params={'ctx': 'Ctx', 'ql': 'Ql'}, optional=('source', 'in_script', 'script_info'), returns='Q', raises={'CompileError': {}})
    ISA = lambda c: 'isinstance(ql, qlast.%s)' % c
    QIS = lambda c: 'isinstance(result[0], dbstate.%s)' % c
    w.contract(COMP, '_compile_dispatch_ql',
        params={'ctx': 'Ctx', 'ql': 'Ql', 'source': 'Opt[Obj]', 'in_script': 'bool', 'script_info': 'Opt[Obj]'}, returns='Tuple[Q,flags]',
        ensures=[
            # schema / migration commands
            'implies(%s and not %s, has_flag(result[1], Cap.DDL))' % (ISA('DDLCommand'), ISA('MigrationCommand')),
            'implies(%s and (%s or %s), has_flag(result[1], Cap.DDL))' % (ISA('MigrationCommand'), QIS('MigrationControlQuery'), QIS('DDLQuery')),
            'implies(%s and %s and not is_none(result[0].tx_action), has_flag(result[1], Cap.TRANSACTION))' % (ISA('MigrationCommand'), QIS('MigrationControlQuery')),
            # transaction control, session commands
            'implies(%s, has_flag(result[1], Cap.TRANSACTION))' % ISA('Transaction'),
            'implies(%s, has_flag(result[1], Cap.SESSION_CONFIG))' % ' or '.join(ISA(c) for c in ('SessionSetAliasDecl', 'SessionResetAliasDecl', 'SessionResetModule', 'SessionResetAllAliases')),
            # configuration: instance / database scope is persistent, session scope is session config; SET GLOBAL is session config except in notebooks
            'implies(%s and not %s and not %s and not %s and (ql.scope == Scope.INSTANCE or ql.scope == Scope.DATABASE), has_flag(result[1], Cap.PERSISTENT_CONFIG))' % (ISA('ConfigOp'), ISA('DDLCommand'), ISA('Transaction'), ISA('SessionCommand')),
            'implies(%s and not %s and not %s and not %s and ql.scope == Scope.SESSION, has_flag(result[1], Cap.SESSION_CONFIG))' % (ISA('ConfigOp'), ISA('DDLCommand'), ISA('Transaction'), ISA('SessionCommand')),
            'implies(%s and not %s and not %s and not %s and ql.scope == Scope.GLOBAL and not ctx.notebook, has_flag(result[1], Cap.SESSION_CONFIG))' % (ISA('ConfigOp'), ISA('DDLCommand'), ISA('Transaction'), ISA('SessionCommand')),
            # queries (incl. EXPLAIN): data modification anywhere inside => MODIFICATIONS
            'implies((%s or %s) and result[0].has_dml and not (%s or %s or %s or %s or %s), has_flag(result[1], Cap.MODIFICATIONS))' % (
                QIS('Query'), QIS('SimpleQuery'), ISA('DDLCommand'), ISA('Transaction'), ISA('SessionCommand'), ISA('ConfigOp'), ISA('AdministerStmt'))],
        raises={'CompileError': {}, 'AssertionError': dict(only_if='not (isinstance(ql, qlast.Query) or isinstance(ql, qlast.Command))')})
    # unit group aggregation: the group's flags cover every appended unit's flags, and never lose a flag
    w.refclass('QU', {'capabilities': 'flags', 'cacheable': 'bool', 'tx_control': 'bool', 'cardinality': 'Obj', 'out_type_data': 'Obj', 'out_type_id': 'Obj',
                      'in_type_data': 'Obj', 'in_type_id': 'Obj', 'in_type_args': 'Obj', 'in_type_args_real_count': 'Obj', 'globals': 'Opt[Seq[Obj]]',
                      'warnings': 'Opt[Seq[Obj]]', 'cache_sql': 'Opt[Obj]'}, DB, 'QueryUnit')
    w.ext_methods['QU.serialize'] = dict(params={}, returns='Obj')
    w.refclass('QUG', {'capabilities': 'flags', 'cacheable': 'bool', 'tx_control': 'bool', 'cardinality': 'Obj', 'out_type_data': 'Obj', 'out_type_id': 'Obj',
                       'in_type_data': 'Obj', 'in_type_id': 'Obj', 'in_type_args': 'Obj', 'in_type_args_real_count': 'Obj', 'globals': 'Opt[Seq[Obj]]',
                       'warnings': 'Opt[Seq[Obj]]', '_units': 'Seq[Obj]'}, DB, 'QueryUnitGroup')
    w.contract(DB, 'QueryUnitGroup.append', params={'self': 'QUG', 'query_unit': 'QU', 'serialize': 'bool'}, returns='none',
        modifies=['QUG.capabilities', 'QUG.cacheable', 'QUG.tx_control', 'QUG.cardinality', 'QUG.out_type_data', 'QUG.out_type_id', 'QUG.in_type_data',
                  'QUG.in_type_id', 'QUG.in_type_args', 'QUG.in_type_args_real_count', 'QUG.globals', 'QUG.warnings', 'QUG._units'],
        ensures=['has_flag(self.capabilities, query_unit.capabilities)', 'has_flag(self.capabilities, old(self.capabilities))',
                 'self.capabilities == (old(self.capabilities) | query_unit.capabilities)',
                 'implies(query_unit.tx_control, self.tx_control)', 'implies(not query_unit.cacheable, not self.cacheable)',
                 'len(self._units) == old(len(self._units)) + 1'])

    # 7. the recovery path of a failed transaction: Compiler._try_compile_rollback builds the ROLLBACK / ROLLBACK TO SAVEPOINT unit by hand (it does not go
    #    through the dispatcher): the unit and the group it is wrapped in must still declare TRANSACTION
    w.ext_funcs['edgeql.parse_block'] = dict(params={'source': 'Obj'}, returns='Seq[Ql]', ensures=['len(result) >= 1'], raises={'CompileError': {}})
    w.ext_methods['Obj.decode'] = dict(params={}, returns='Obj')
    w.ext_funcs['pg_common.quote_ident'] = dict(params={'s': 'Obj'}, returns='str')
    w.classes['Ql']['name'] = 'Obj'
    w.classes['QU'].update({'status': 'bytes', 'sql': 'bytes', 'tx_rollback': 'bool', 'tx_savepoint_rollback': 'bool', 'sp_name': 'Opt[Obj]'})
    w.contract(COMP, 'Compiler._try_compile_rollback', params={'eql': 'Obj'}, returns='Tuple[QUG,int]',
        modifies=['QUG.capabilities', 'QUG.cacheable', 'QUG.tx_control', 'QUG.cardinality', 'QUG.out_type_data', 'QUG.out_type_id', 'QUG.in_type_data',
                  'QUG.in_type_id', 'QUG.in_type_args', 'QUG.in_type_args_real_count', 'QUG.globals', 'QUG.warnings', 'QUG._units', '$alloc'],
        ensures=['has_flag(result[0].capabilities, Cap.TRANSACTION)'],
        raises={'TransactionError': {}, 'CompileError': {}})

    # 9. from the dispatcher's flags to the unit: compiler._make_query_unit builds the QueryUnit with exactly the capabilities the dispatcher derived, and nothing on
    #    the way to the return (none of the per-query-class branches) rewrites them.  Field lists of the unit / query objects are extracted from the function's AST.
    mk, _ = repo.find_def(COMP, '_make_query_unit')
    ufields = sorted({n.attr for n in ast.walk(mk) if isinstance(n, ast.Attribute) and isinstance(n.value, ast.Name) and n.value.id == 'unit'})
    cfields = sorted({n.attr for n in ast.walk(mk) if isinstance(n, ast.Attribute) and isinstance(n.value, ast.Name) and n.value.id == 'comp'})
    SEQF = ('config_ops',)
    for f in ufields:
        if f not in w.classes['QU']: w.classes['QU'][f] = 'Seq[Obj]' if f in SEQF else 'Obj'
    for f in cfields:
        if f not in w.classes['Q']:
            w.classes['Q'][f] = ('Seq[Obj]' if f in SEQF else 'Opt[Obj]' if f in ('user_schema', 'cached_reflection', 'global_schema', 'modaliases', 'config_op')
                                 else w.classes['QU'][f] if f in w.classes['QU'] else 'Obj')
    w.classes['Q']['action'] = 'Obj'
    w.refclass('Tx', {'id': 'Obj'}); w.refclass('CSt', {})
    w.ext_methods['CSt.current_tx'] = dict(params={}, returns='Tx')
    w.ext_methods['Tx.get_user_schema'] = dict(params={}, returns='Obj')
    w.ext_methods['Tx.is_implicit'] = dict(params={}, returns='bool')
    w.ext_methods['Tx.get_modaliases'] = dict(params={}, returns='Obj')
    w.classes['Ctx'].update({'output_format': 'Obj', 'cache_key': 'Obj', 'dump_restore_mode': 'bool', 'state': 'CSt'})
    w.classes['Ql']['span'] = 'Obj'
    w.ext_funcs['_get_schema_version'] = dict(params={'s': 'Obj'}, returns='Obj', raises={'InvalidReferenceError': {}})
    w.ext_funcs['status.get_status'] = dict(params={'q': 'Ql'}, returns='bytes')
    w.ext_funcs['pickle.dumps'] = dict(params={'o': 'Obj', 'p': 'int'}, returns='Obj')
    w.ext_funcs['_extract_extensions'] = dict(params={'ctx': 'Ctx', 's': 'Obj'}, returns='Tuple[Obj,Obj]')
    w.ext_funcs['_extract_roles'] = dict(params={'s': 'Obj'}, returns='Obj')
    QUF = ['QU.' + f for f in sorted(w.classes['QU'])]
    w.contract(COMP, '_make_query_unit',
        params={'ctx': 'Ctx', 'stmt_ctx': 'Ctx', 'stmt': 'Ql', 'is_script': 'bool', 'is_trailing_stmt': 'bool', 'comp': 'Q', 'capabilities': 'flags'},
        returns='Tuple[QU,Opt[Obj]]', modifies=QUF + ['$alloc'],
        ensures=['result[0].capabilities == capabilities', 'not old(allocated(result[0]))'],
        raises={'QueryError': {}, 'InternalServerError': {}, 'InvalidReferenceError': {}},
        abstract={'if unit.in_type_args:': dict(assigns={}, modifies=['QU.in_type_args_real_count']),
                  'if unit.warnings:': dict(assigns={}, modifies=[])})

    # 10. from the statements to the group: compiler._try_compile_ast.  For every statement of the block the flags of the returned group contain what the statement's
    #     class demands (same clauses as the dispatcher's contract, with the group's flags in place of the dispatcher's result; `gq[j]` is the compiled query object
    #     of statement j -- a ghost sequence appended to right after the dispatcher call).
    w.ext_methods['Ctx.is_testmode'] = dict(params={}, returns='bool')
    w.ext_funcs['_check_force_database_error'] = dict(params={'ctx': 'Ctx', 'ql': 'Ql'}, returns='none', raises={'CompileError': {}})
    w.classes['Ctx'].update({'expected_cardinality_one': 'bool', 'expect_rollback': 'bool', 'compiler_state': 'Obj', 'protocol_version': 'Obj'})
    w.classes['QUG']['state_serializer'] = 'Obj'
    w.ext_methods['Tx.get_global_schema'] = dict(params={}, returns='Obj')
    SJ = lambda c: 'isinstance(statements[j], qlast.%s)' % c
    QJ = lambda c: 'isinstance(gq[j], dbstate.%s)' % c
    NOTCTL = 'not %s and not %s and not %s' % (SJ('DDLCommand'), SJ('Transaction'), SJ('SessionCommand'))
    def COVER(n, caps):
        cl = ['implies(%s and not %s, has_flag(%s, Cap.DDL))' % (SJ('DDLCommand'), SJ('MigrationCommand'), caps),
              'implies(%s and (%s or %s), has_flag(%s, Cap.DDL))' % (SJ('MigrationCommand'), QJ('MigrationControlQuery'), QJ('DDLQuery'), caps),
              'implies(%s and %s and not is_none(gq[j].tx_action), has_flag(%s, Cap.TRANSACTION))' % (SJ('MigrationCommand'), QJ('MigrationControlQuery'), caps),
              'implies(%s, has_flag(%s, Cap.TRANSACTION))' % (SJ('Transaction'), caps),
              'implies(%s, has_flag(%s, Cap.SESSION_CONFIG))' % (' or '.join(SJ(c) for c in ('SessionSetAliasDecl', 'SessionResetAliasDecl', 'SessionResetModule', 'SessionResetAllAliases')), caps),
              'implies(%s and %s and (statements[j].scope == Scope.INSTANCE or statements[j].scope == Scope.DATABASE), has_flag(%s, Cap.PERSISTENT_CONFIG))' % (SJ('ConfigOp'), NOTCTL, caps),
              'implies(%s and %s and statements[j].scope == Scope.SESSION, has_flag(%s, Cap.SESSION_CONFIG))' % (SJ('ConfigOp'), NOTCTL, caps),
              'implies(%s and %s and statements[j].scope == Scope.GLOBAL and not ctx.notebook, has_flag(%s, Cap.SESSION_CONFIG))' % (SJ('ConfigOp'), NOTCTL, caps),
              'implies((%s or %s) and gq[j].has_dml and %s and not %s and not %s, has_flag(%s, Cap.MODIFICATIONS))' % (QJ('Query'), QJ('SimpleQuery'), NOTCTL, SJ('ConfigOp'), SJ('AdministerStmt'), caps)]
        return ['implies(0 <= K and K < %s, %s)' % (n, c_.replace('[j]', '[K]')) for c_ in cl]      # K: one arbitrary statement index (ghost constant) -- keeps the VCs ground
    w.contract(COMP, '_try_compile_ast',
        params={'ctx': 'Ctx', 'statements': 'Seq[Ql]', 'source': 'Obj'}, returns='QUG',
        ghost={'gq': 'Seq[Q]', 'K': 'int'}, requires=['len(gq) == 0'],
        modifies=['QUG.' + f for f in sorted(w.classes['QUG'])] + QUF + ['$alloc'],
        ensures=['len(gq) == len(statements)'] + COVER('len(statements)', 'result.capabilities'),
        raises={'CompileError': {}, 'ProtocolError': {}, 'TransactionError': {}, 'QueryError': {}, 'InternalServerError': {}, 'InvalidReferenceError': {},
                'ResultCardinalityMismatchError': {}, 'AssertionError': {}},
        ghost_after={'comp, capabilities = _compile_dispatch_ql(stmt_ctx, stmt, source=source if not is_script else None, script_info=script_info, in_script=is_script)':
                     [('gq', 'gq + [comp]')]},
        loops={0: dict(fingerprint='for (i, stmt) in enumerate(statements)', index='i',
                       invariant=['len(gq) == i', 'not old(allocated(rv))'] + COVER('i', 'rv.capabilities'))},
        abstract={'if ctx.is_testmode():': dict(assigns={}, modifies=[]),
                  'if is_script:': dict(assigns={'script_info': 'Opt[Obj]', 'non_trailing_ctx': 'Ctx'}, modifies=['$alloc'], raises=['TransactionError', 'CompileError'],
                                        ensures=['non_trailing_ctx.notebook == ctx.notebook']),
                  'if script_info:': dict(assigns={}, modifies=['QUG.in_type_id', 'QUG.in_type_args', 'QUG.in_type_data'], raises=['QueryError', 'CompileError']),
                  'for unit in rv:': dict(assigns={'unit': 'QU'}, modifies=[], raises=['InternalServerError']),
                  'multi_card = rv.cardinality in (enums.Cardinality.MANY, enums.Cardinality.AT_LEAST_ONE)': dict(assigns={'multi_card': 'bool'}, modifies=[]),
                  'if multi_card and ctx.expected_cardinality_one:': dict(assigns={}, modifies=[], raises=['ResultCardinalityMismatchError'])},
        hints={'ghost_out': ['gq']})
    w._caps = caps
    build_volatility(w)
    return w

VOLA = 'edb/edgeql/compiler/inference/volatility.py'

def build_volatility(w):
    """Link 0 of the chain: the volatility the compiler infers for an expression is at least the volatility of everything the expression reads.
    `Modifying` / `Volatile` found anywhere below a pointer step has to survive to the top (a DML body hidden behind a computed link is still DML: the
    capability flags and the no-DML-in-read-only checks are decided from this value).
    V0(e) / V1(e): the pair the recursive inference returns for a sub-expression (induction hypothesis; uninterpreted)."""
    w.enum('Vol', QLT, 'Volatility', ordered=True)
    w.refclass('IrV', {'typeref': 'Obj', 'path_id': 'Obj'}, universal=False)
    w.refclass('PRef', {'defined_here': 'bool'})
    w.refclass('PtrIr', {'source': 'IrV', 'expr': 'Opt[IrV]', 'ptrref': 'PRef'})
    w.refclass('VEnv', {'singletons': 'Set[Obj]'})
    w.ufunc('V0', ['IrV'], 'Vol'); w.ufunc('V1', ['IrV'], 'Vol'); w.ufunc('ISOBJ', ['Obj'], 'bool')
    PAIR = 'Tuple[Vol,Vol]'
    IHV = dict(params={'ir': 'IrV', 'env': 'VEnv'}, returns=PAIR, ensures=['result[0] == V0(ir)', 'result[1] == V1(ir)'], modifies=[])
    MAXE = lambda a, b: ['result[0] >= %s[0] and result[0] >= %s and (result[0] == %s[0] or result[0] == %s)' % (a, b % 0, a, b % 0),
                         'result[1] >= %s[1] and result[1] >= %s and (result[1] == %s[1] or result[1] == %s)' % (a, b % 1, a, b % 1)]
    MAX2 = dict(overloads=[dict(params={'args': 'Tuple[%s,%s]' % (PAIR, PAIR)}, returns=PAIR, ensures=MAXE('args[0]', 'args[1][%d]'), modifies=[]),
                           dict(params={'args': 'Tuple[%s,Vol]' % PAIR}, returns=PAIR, ensures=MAXE('args[0]', 'args[1]' + ' ' * 0 + '%.0s'), modifies=[])], params={})
    w.contract(VOLA, '_infer_pointer', params={'ir': 'PtrIr', 'env': 'VEnv'}, returns=PAIR,
        ensures=['result[0] >= V0(ir.source) and result[1] >= V1(ir.source)',
                 'implies(ir.expr is not None and not ir.ptrref.defined_here, result[0] >= V0(ir.expr) and result[1] >= V1(ir.expr))',
                 'implies(ISOBJ(ir.source.typeref) and ir.source.path_id not in env.singletons, result[0] >= Vol.Stable and result[1] >= Vol.Stable)',
                 # nothing is invented: the result is one of the contributing values
                 'result[0] == V0(ir.source) or (ir.expr is not None and result[0] == V0(ir.expr)) or result[0] == Vol.Stable'],
        modifies=[],
        hints={'ext_funcs': {'_infer_volatility': IHV, '_max_volatility': MAX2,
                             'irtyputils.is_object': dict(params={'t': 'Obj'}, returns='bool', returns_expr='ISOBJ(t)', modifies=[])}})
    # function / operator calls: at least the declared volatility of the function (or of its inlined body) and at least the common volatility of the arguments.
    # The declared volatility (a single enum value in the IR) is modelled in its normalised form (v, v) -- what _normalize_volatility makes of it.
    w.refclass('ArgEl', {'expr': 'IrV'}); w.ufunc('ARGS', ['ArgsT'], 'Seq[ArgEl]')
    w.refclass('ArgsT', {}); w.refclass('CallIr', {'body': 'Opt[IrV]', 'volatility': PAIR, 'args': 'Opt[ArgsT]'})
    w.ufunc('CV0', ['CallIr'], 'Vol'); w.ufunc('CV1', ['CallIr'], 'Vol'); w.ufunc('NARGS', ['ArgsT'], 'int')
    w.py_methods = getattr(w, 'py_methods', {})
    MAXL = dict(overloads=[dict(params={'args': 'Seq[%s]' % PAIR}, returns=PAIR, requires=['len(args) == 2'], ensures=MAXE('args[0]', 'args[1][%d]'), modifies=[])], params={})
    CALL_ENS = ['implies(ir.body is not None, result[0] >= V0(ir.body) and result[1] >= V1(ir.body))',
                'implies(ir.body is None, result[0] >= ir.volatility[0] and result[1] >= ir.volatility[1])',
                'implies(ir.args is not None, forall(0, len(ARGS(ir.args)), lambda k: result[0] >= V0(ARGS(ir.args)[k].expr) and result[1] >= V1(ARGS(ir.args)[k].expr)))']
    COMMON = dict(params={'args': 'Seq[IrV]', 'env': 'VEnv'}, returns=PAIR, ensures=['forall(0, len(args), lambda k: result[0] >= V0(args[k]) and result[1] >= V1(args[k]))'], modifies=[])
    w.ext_methods['ArgsT.values'] = dict(params={}, returns='Seq[ArgEl]', returns_expr='ARGS(self)', modifies=[])
    w.ext_methods['ArgsT.__bool__'] = dict(params={}, returns='bool', returns_expr='len(ARGS(self)) > 0', modifies=[])
    w.contract(VOLA, '__infer_func_call', params={'ir': 'CallIr', 'env': 'VEnv'}, returns=PAIR, ensures=CALL_ENS, modifies=[],
        hints={'ext_funcs': {'_infer_volatility': IHV, '_max_volatility': MAXL, '_common_volatility': COMMON}})
    w.contract(VOLA, '__infer_oper_call', params={'ir': 'CallIr', 'env': 'VEnv'}, returns=PAIR, ensures=['result[0] >= ir.volatility[0] and result[1] >= ir.volatility[1]', CALL_ENS[2]], modifies=[],
        hints={'ext_funcs': {'_infer_volatility': IHV, '_max_volatility': MAXL, '_common_volatility': COMMON}})
    GE = lambda e: 'result[0] >= V0(%s) and result[1] >= V1(%s)' % (e, e)
    XV = {'_infer_volatility': IHV, '_max_volatility': MAXL, '_common_volatility': COMMON}
    w.refclass('OrdEl', {'expr': 'IrV'})
    w.refclass('SelIr', {'iterator_stmt': 'Opt[IrV]', 'result': 'IrV', 'where': 'Opt[IrV]', 'orderby': 'Opt[Seq[OrdEl]]', 'offset': 'Opt[IrV]', 'limit': 'Opt[IrV]',
                         'bindings': 'Opt[Seq[Tuple[IrV,Obj]]]'})
    w.contract(VOLA, '__infer_select_stmt', params={'ir': 'SelIr', 'env': 'VEnv'}, returns=PAIR, modifies=['$alloc'],
        ensures=[GE('ir.result')] + ['implies(ir.%s is not None, %s)' % (f, GE('ir.' + f)) for f in ('iterator_stmt', 'where', 'offset', 'limit')]
                ,      # ORDER BY keys and WITH bindings (appended through generators) are not pinned: the position arithmetic left both solvers undecided
        hints={'ext_funcs': XV, 'var_types': {'components': 'Seq[IrV]'}})
    w.refclass('SliceIr', {'expr': 'IrV', 'start': 'Opt[IrV]', 'stop': 'Opt[IrV]'})
    w.contract(VOLA, '__infer_slice', params={'ir': 'SliceIr', 'env': 'VEnv'}, returns=PAIR, modifies=['$alloc'],
        ensures=[GE('ir.expr'), 'implies(ir.start is not None, %s)' % GE('ir.start'), 'implies(ir.stop is not None, %s)' % GE('ir.stop')],
        hints={'ext_funcs': XV, 'var_types': {'args': 'Seq[IrV]'}})
    w.refclass('IndexIr', {'expr': 'IrV', 'index': 'IrV'})
    w.contract(VOLA, '__infer_index', params={'ir': 'IndexIr', 'env': 'VEnv'}, returns=PAIR, modifies=['$alloc'], ensures=[GE('ir.expr'), GE('ir.index')], hints={'ext_funcs': XV})
    w.refclass('CastIr', {'expr': 'IrV'})
    w.contract(VOLA, '__infer_typecast', params={'ir': 'CastIr', 'env': 'VEnv'}, returns=PAIR, modifies=[], ensures=[GE('ir.expr')], hints={'ext_funcs': XV})
    # a DML statement is Modifying for the flags (and Stable for materialisation, which has its own mechanism)
    w.contract(VOLA, '__infer_dml_stmt', params={'ir': 'Obj', 'env': 'VEnv'}, returns=PAIR, modifies=[], ensures=['result[0] == Vol.Modifying', 'result[1] == Vol.Stable'])
    w.trusted.append('volatility inference: the declared volatility of a function / operator (one enum value) is modelled in its normalised form (v, v); _max_volatility is assumed to be the '
                     'componentwise maximum of the normalised arguments, _common_volatility to dominate the inferred pair of every argument; an IR node is truthy')

# ---------------------------------------------------------------------------------------------------- ownership / dominance scans
def _ob(oid, clause, ok, where=None, tag='property', kind='ownership', undecided=False):
    """ok -> discharged; not ok -> failed (definite: the required statement/shape is absent or contradicted),
    or unknown when the code merely has a shape the scan does not recognise (undecided, never a violation)"""
    return dict(id=oid, kind=kind, clause=clause, tag=tag, paths=1, status='discharged' if ok else ('unknown' if undecided else 'failed'), backend='ast-scan',
                seconds=0.0, model=None if ok else {'offending_source_location': where}, where=where, function='ast-scan')

def _dominates(fn, is_record, is_target):
    """every statement matching is_target in fn's body is preceded, on every path, by a statement matching is_record:
    conservative structured check -- a recording statement at the same or an enclosing block level, earlier in source order."""
    bad = []
    def walk(body, recorded):
        for st in body:
            if any(is_target(n) for n in ast.walk(st) if not isinstance(n, (ast.FunctionDef, ast.Lambda))):
                # descend to find the innermost statement containing the target
                inner = [getattr(st, f, None) for f in ('body', 'orelse', 'finalbody')]
                has_nested = any(isinstance(b, list) and any(any(is_target(n) for n in ast.walk(s2)) for s2 in b) for b in inner if b)
                if has_nested and not isinstance(st, (ast.FunctionDef,)):
                    for b in inner:
                        if isinstance(b, list): walk(b, recorded)
                    if isinstance(st, ast.With): pass
                    if isinstance(st, ast.Try):
                        for h in st.handlers: walk(h.body, recorded)
                elif not recorded:
                    bad.append(st.lineno)
            if any(is_record(n) for n in ast.walk(st)) and not isinstance(st, (ast.If, ast.For, ast.While, ast.Try)):
                recorded = True
            elif isinstance(st, ast.With) and any(is_record(n) for n in ast.walk(st)):
                pass
        return recorded
    walk(fn.body, False)
    return bad

def extra_obligations(w, tier, seed):
    out = []
    STMT = 'edb/edgeql/compiler/stmt.py'; FUNC = 'edb/edgeql/compiler/func.py'
    def is_append(n):
        return (isinstance(n, ast.Call) and isinstance(n.func, ast.Attribute) and n.func.attr == 'append'
                and ast.unparse(n.func.value).endswith('env.dml_exprs'))
    # 1. the three DML statement compilers record the expression before building the IR statement
    for fn, cls in (('compile_InsertQuery', 'InsertStmt'), ('compile_UpdateQuery', 'UpdateStmt'), ('compile_DeleteQuery', 'DeleteStmt')):
        node, _ = repo.find_def(STMT, fn)
        is_ctor = lambda n, cls=cls: isinstance(n, ast.Call) and ast.unparse(n.func) == 'irast.' + cls
        n_ctor = sum(1 for n in ast.walk(node) if is_ctor(n)); n_app = sum(1 for n in ast.walk(node) if is_append(n))
        bad = _dominates(node, is_append, is_ctor)
        out.append(_ob('scan/%s/records-dml' % fn, '%s: `ctx.env.dml_exprs.append(..)` dominates the construction of irast.%s' % (fn, cls),
                       n_ctor >= 1 and n_app >= 1 and not bad, where='%s:%s lines %s' % (STMT, fn, bad or (node.lineno,)),
                       undecided=(n_app >= 1)))      # recording present but not recognisably dominating (or constructor moved): undecided
    # modifying function calls
    node, _ = repo.find_def(FUNC, 'compile_FunctionCall')
    guard_ok = False
    for n in ast.walk(node):
        if isinstance(n, ast.If) and 'Modifying' in ast.unparse(n.test) and any(is_append(m) for s_ in n.body for m in ast.walk(s_)):
            # the guard is the volatility test ALONE: one comparison of <func>.get_volatility(..) with Volatility.Modifying, no further condition (inlined or not, SQL or EdgeQL body)
            t_ = n.test
            guard_ok = (isinstance(t_, ast.Compare) and len(t_.ops) == 1 and isinstance(t_.ops[0], (ast.Eq, ast.Is)) and 'get_volatility' in ast.unparse(t_.left)
                        and ast.unparse(t_.comparators[0]).endswith('Volatility.Modifying'))
    out.append(_ob('scan/compile_FunctionCall/records-modifying-call', 'compile_FunctionCall: a call of a Modifying function is appended to ctx.env.dml_exprs',
                   guard_ok, where='%s:compile_FunctionCall line %d' % (FUNC, node.lineno)))
    # 2. ownership: DML IR statements are only constructed in those three functions (+ the inventoried static-evaluation site)
    allowed = {('edb/edgeql/compiler/stmt.py', 'compile_InsertQuery'), ('edb/edgeql/compiler/stmt.py', 'compile_UpdateQuery'),
               ('edb/edgeql/compiler/stmt.py', 'compile_DeleteQuery'), ('edb/ir/staeval.py', None)}
    offenders = []; writers = []; outside = []
    for dirpath, dirs, files in os.walk(os.path.join(repo.REPO, 'edb')):
        for f in files:
            if not f.endswith('.py'): continue
            rel = os.path.relpath(os.path.join(dirpath, f), repo.REPO)
            try: tree = ast.parse(open(os.path.join(dirpath, f), encoding='utf-8').read())
            except SyntaxError: continue
            funcs = [n for n in ast.walk(tree) if isinstance(n, (ast.FunctionDef, ast.AsyncFunctionDef))]
            def owner(line):
                best = None
                for fn in funcs:
                    if fn.lineno <= line <= (fn.end_lineno or fn.lineno) and (best is None or fn.lineno > best.lineno): best = fn
                return best.name if best else None
            for n in ast.walk(tree):
                if isinstance(n, ast.Call) and ast.unparse(n.func) in ('irast.InsertStmt', 'irast.UpdateStmt', 'irast.DeleteStmt'):
                    o = owner(n.lineno)
                    if (rel, o) not in allowed and (rel, None) not in allowed:
                        (offenders if rel.startswith('edb/edgeql/compiler/') else outside).append('%s:%d (%s)' % (rel, n.lineno, o))
                # writes to dml_exprs other than append / initialisation to []
                if isinstance(n, (ast.Assign, ast.AugAssign, ast.AnnAssign)):
                    tg = n.targets if isinstance(n, ast.Assign) else [n.target]
                    for t in tg:
                        if isinstance(t, ast.Attribute) and t.attr == 'dml_exprs':
                            val = getattr(n, 'value', None)
                            init_ = (isinstance(n, (ast.Assign, ast.AnnAssign)) and isinstance(val, ast.List) and not val.elts
                                     and isinstance(t.value, ast.Name) and t.value.id == 'self' and owner(n.lineno) == '__init__')      # `self.dml_exprs = []` in a constructor
                            if not init_ and not (rel.endswith('ir/ast.py')):
                                writers.append('%s:%d' % (rel, n.lineno))
                if isinstance(n, ast.Call) and isinstance(n.func, ast.Attribute) and ast.unparse(n.func.value).endswith('dml_exprs') and n.func.attr not in ('append',):
                    writers.append('%s:%d .%s()' % (rel, n.lineno, n.func.attr))
    out.append(_ob('scan/dml-stmt-constructors', 'irast.Insert/Update/DeleteStmt are constructed only in stmt.compile_{Insert,Update,Delete}Query (and ir/staeval.py static evaluation)',
                   not offenders and not outside, where=', '.join((offenders + outside)[:5]), undecided=(not offenders)))
    out.append(_ob('scan/dml_exprs-append-only', '`dml_exprs` is only initialised to [] and appended to (never cleared, filtered or reassigned)', not writers, where=', '.join(writers[:5])))
    # 2b. ctx.env is shared by reference by every ContextLevel derived in one compilation
    node, _ = repo.find_def('edb/edgeql/compiler/context.py', 'ContextLevel.__init__')
    env_assigns = [ast.unparse(n) for n in ast.walk(node) if isinstance(n, ast.Assign) and any(ast.unparse(t) == 'self.env' for t in n.targets)]
    shared = [a for a in env_assigns if a.replace(' ', '') in ('self.env=prevlevel.env',)]
    created = [a for a in env_assigns if a not in shared]
    # the only non-shared assignment allowed is the root level (prevlevel is None)
    ok_env = len(shared) >= 1 and len(created) <= 1
    out.append(_ob('scan/env-shared', 'ContextLevel.__init__ copies `env` by reference from the previous level in every mode (one root assignment only)', ok_env, where='; '.join(env_assigns)))
    # 3. has_dml is derived from the IR statement's dml_exprs at every construction of a (Simple)Query in _compile_ql_query
    node, _ = repo.find_def(COMP, '_compile_ql_query')
    bad = []; unsure = []; seen = 0
    assigns = {}
    for n in ast.walk(node):
        if isinstance(n, ast.Assign) and len(n.targets) == 1 and isinstance(n.targets[0], ast.Name):
            assigns.setdefault(n.targets[0].id, []).append(n.value)
    def truthy_of_dml(e, depth=0):
        """True: e is the truthiness of <x>.dml_exprs; False: definitely not; None: unrecognised"""
        if isinstance(e, ast.Name) and depth < 3:
            vals = assigns.get(e.id, [])
            return truthy_of_dml(vals[0], depth + 1) if len(vals) == 1 else None
        if isinstance(e, ast.Constant): return False
        txt = ast.unparse(e).replace(' ', '')
        if 'dml_exprs' not in txt: return None if isinstance(e, (ast.Call, ast.Attribute, ast.Name)) else False
        import re as _re
        if _re.fullmatch(r'bool\((\w+\.)+dml_exprs\)|len\((\w+\.)+dml_exprs\)(>0|!=0|>=1)|(\w+\.)+dml_exprs!=\[\]|notnot(\w+\.)+dml_exprs', txt): return True
        return None
    for n in ast.walk(node):
        if isinstance(n, ast.Call) and ast.unparse(n.func) in ('dbstate.Query', 'dbstate.SimpleQuery'):
            seen += 1
            kw = {k.arg: k.value for k in n.keywords}
            r = truthy_of_dml(kw['has_dml']) if 'has_dml' in kw else False
            if r is False: bad.append('line %d: has_dml=%s' % (n.lineno, ast.unparse(kw['has_dml']) if 'has_dml' in kw else '<default False>'))
            elif r is None: unsure.append('line %d: has_dml=%s' % (n.lineno, ast.unparse(kw['has_dml'])))
    out.append(_ob('scan/_compile_ql_query/has_dml', 'every dbstate.Query / SimpleQuery built by _compile_ql_query has has_dml = truthiness of ir.dml_exprs',
                   seen >= 1 and not bad and not unsure, where='; '.join(bad + unsure) or 'no constructor found', undecided=(not bad)))
    # 3b. fini_expression hands the environment's list to the IR statement
    found = False
    for rel in ('edb/edgeql/compiler/stmtctx.py',):
        node, _ = repo.find_def(rel, 'fini_expression')
        for n in ast.walk(node):
            if isinstance(n, ast.keyword) and n.arg == 'dml_exprs' and ast.unparse(n.value) == 'ctx.env.dml_exprs': found = True
    out.append(_ob('scan/fini_expression/dml_exprs', 'fini_expression builds the IR statement with dml_exprs=ctx.env.dml_exprs', found, where='edb/edgeql/compiler/stmtctx.py:fini_expression'))
    # 6. flag set
    c = w._caps
    bits = [c[k] for k in ('MODIFICATIONS', 'SESSION_CONFIG', 'TRANSACTION', 'DDL', 'PERSISTENT_CONFIG')]
    out.append(_ob('enum/Capability/bits-distinct', 'the five capability flags are distinct single bits', len(set(bits)) == 5 and all(b > 0 and b & (b - 1) == 0 for b in bits), where=str(bits), kind='lemma'))
    out.append(_ob('enum/Capability/WRITE', 'WRITE == MODIFICATIONS | DDL | PERSISTENT_CONFIG', c['WRITE'] == c['MODIFICATIONS'] | c['DDL'] | c['PERSISTENT_CONFIG'], where=hex(c['WRITE']), kind='lemma'))
    # 8. migration-control commands: the dispatcher derives the flags of a MigrationCommand from the TYPE of the query object it gets back (MigrationControlQuery ->
    #    DDL [| TRANSACTION], DDLQuery -> DDL, anything else -> no capability, meant for DESCRIBE CURRENT MIGRATION only).  So every helper of
    #    ddl.compile_dispatch_ql_migration other than _describe_current_migration must return one of those two types on every path.
    DDL_PY = 'edb/server/compiler/ddl.py'
    disp, _ = repo.find_def(DDL_PY, 'compile_dispatch_ql_migration')
    helpers = {}
    for n in ast.walk(disp):
        if isinstance(n, ast.match_case) and isinstance(n.pattern, ast.MatchClass):
            cls = ast.unparse(n.pattern.cls)
            for st in n.body:
                if isinstance(st, ast.Return) and isinstance(st.value, ast.Call) and isinstance(st.value.func, ast.Name): helpers[cls] = st.value.func.id
    OKCALLS = ('dbstate.MigrationControlQuery', 'dbstate.DDLQuery', 'compile_and_apply_ddl_stmt')
    bad = []; unsure = []
    for cls, hname in sorted(helpers.items()):
        if cls == 'qlast.DescribeCurrentMigration' or hname == 'compile_and_apply_ddl_stmt': continue
        try: fn, _ = repo.find_def(DDL_PY, hname)
        except Exception: unsure.append('%s: helper %s not found' % (cls, hname)); continue
        assigns = {}
        for n in ast.walk(fn):
            if isinstance(n, ast.Assign) and len(n.targets) == 1 and isinstance(n.targets[0], ast.Name): assigns.setdefault(n.targets[0].id, []).append(n.value)
        def kind(e, depth=0):
            if isinstance(e, ast.Call):
                f = ast.unparse(e.func)
                if f in OKCALLS: return 'ok'
                if f.endswith('_compile_ql_transaction') or f.endswith('TxControlQuery') or f.endswith('.Query') or f.endswith('SimpleQuery') or f.endswith('NullQuery'): return 'bad'
                return 'unknown'
            if isinstance(e, ast.Name) and depth < 3:
                # `x = dataclasses.replace(x, ...)` keeps the type of x: neutral
                vals = [v for v in assigns.get(e.id, []) if not (isinstance(v, ast.Call) and ast.unparse(v.func) == 'dataclasses.replace' and v.args and ast.unparse(v.args[0]) == e.id)]
                ks = {kind(v, depth + 1) for v in vals}
                if not ks: return 'unknown'
                if 'bad' in ks: return 'bad'
                return 'ok' if ks == {'ok'} else 'unknown'
            return 'unknown'
        for n in ast.walk(fn):
            if isinstance(n, ast.Return):
                k = kind(n.value) if n.value is not None else 'bad'
                if k == 'bad': bad.append('%s line %d: returns %s' % (hname, n.lineno, ast.unparse(n.value)[:60] if n.value is not None else 'None'))
                elif k == 'unknown': unsure.append('%s line %d: %s' % (hname, n.lineno, ast.unparse(n.value)[:60]))
    out.append(_ob('scan/migration-helpers/return-type', 'ddl.py: every helper of compile_dispatch_ql_migration (except _describe_current_migration) returns a MigrationControlQuery or a DDLQuery on every path, '
                   'so that the dispatcher attaches DDL (and TRANSACTION when a transaction is opened / closed)', bool(helpers) and not bad and not unsure,
                   where='; '.join((bad + unsure)[:6]) or 'helpers: %s' % sorted(helpers.values()), undecided=(not bad)))
    # 11. SQL over the binary protocol (sql.py is not under contract: 330-line dispatcher over pgast).  Shape obligations on the flag computation:
    #     (a) _compile_sql: at the top level of the per-statement loop, after the dispatch chain, `isinstance(stmt, pgast.DMLQuery)` adds MODIFICATIONS and
    #         `unit.tx_action is not None` adds TRANSACTION, both before the unit is appended; every write to a `.capabilities` in sql.py is `|=` (flags are never taken back);
    #     (b) compile_sql_as_unit_group: the QueryUnit is built with capabilities=sql_unit.capabilities and appended to the group inside the same loop.
    SQLPY = 'edb/server/compiler/sql.py'
    fn, _ = repo.find_def(SQLPY, '_compile_sql')
    loops_ = [n for n in fn.body if isinstance(n, ast.For) and 'stmts' in ast.unparse(n.iter)]
    ok_a = False; why = 'per-statement loop not found'
    if len(loops_) == 1:
        body = loops_[0].body
        def guard_adds(test_pred, flag):
            for k, st in enumerate(body):
                if isinstance(st, ast.If) and test_pred(ast.unparse(st.test).replace(' ', '')) and not st.orelse:
                    if any(isinstance(x, ast.AugAssign) and isinstance(x.op, ast.BitOr) and ast.unparse(x.target) == 'unit.capabilities' and ast.unparse(x.value) == 'enums.Capability.' + flag for x in st.body):
                        return k
            return None
        k_dml = guard_adds(lambda t: t == 'isinstance(stmt,pgast.DMLQuery)', 'MODIFICATIONS')
        k_tx = guard_adds(lambda t: t in ('unit.tx_actionisnotNone',), 'TRANSACTION')
        k_app = [k for k, st in enumerate(body) if isinstance(st, ast.Expr) and ast.unparse(st.value) == 'sql_units.append(unit)']
        ok_a = k_dml is not None and k_tx is not None and len(k_app) == 1 and k_dml < k_app[0] and k_tx < k_app[0]
        why = 'DML guard at %s, tx guard at %s, append at %s (statement ordinals of the loop body)' % (k_dml, k_tx, k_app)
    mod_sql = repo.module(SQLPY)
    badw = ['line %d: %s' % (n.lineno, ast.unparse(n)[:60]) for n in ast.walk(mod_sql.tree)
            if (isinstance(n, ast.Assign) and any(isinstance(t, ast.Attribute) and t.attr == 'capabilities' for t in n.targets))
            or (isinstance(n, ast.AugAssign) and isinstance(n.target, ast.Attribute) and n.target.attr == 'capabilities' and not isinstance(n.op, ast.BitOr))]
    out.append(_ob('scan/sql/_compile_sql/flags', '_compile_sql: a top-level DML statement adds MODIFICATIONS and a transaction action adds TRANSACTION before the unit is appended; '
                   'capabilities are only ever or-ed in sql.py', ok_a and not badw, where=why + ('; ' + '; '.join(badw[:3]) if badw else ''), undecided=(len(loops_) != 1)))
    fn, _ = repo.find_def(COMP, 'compile_sql_as_unit_group')
    ok_b = False; whyb = 'loop over sql_units not found'
    for lp in [n for n in fn.body if isinstance(n, ast.For) and ast.unparse(n.iter) == 'sql_units']:
        ctor = [n for n in ast.walk(lp) if isinstance(n, ast.Call) and ast.unparse(n.func) == 'dbstate.QueryUnit']
        caps = [ast.unparse(k.value) for c_ in ctor for k in c_.keywords if k.arg == 'capabilities']
        apps = [st for st in lp.body if isinstance(st, ast.Expr) and ast.unparse(st.value) == 'qug.append(unit)']
        rewr = [n.lineno for n in ast.walk(lp) if isinstance(n, (ast.Assign, ast.AugAssign)) and 'unit.capabilities' in [ast.unparse(t) for t in (n.targets if isinstance(n, ast.Assign) else [n.target])]]
        ok_b = len(ctor) == 1 and caps == ['sql_unit.capabilities'] and len(apps) == 1 and not rewr
        whyb = 'constructors %d, capabilities=%s, appends %d, later writes %s' % (len(ctor), caps, len(apps), rewr)
    out.append(_ob('scan/sql/compile_sql_as_unit_group/flags', 'compile_sql_as_unit_group: every unit is built with capabilities=sql_unit.capabilities, never rewritten, and appended to the group',
                   ok_b, where=whyb, undecided=('not found' in whyb)))
    # volatility of a SELECT: the two clauses the contract of __infer_select_stmt could not pin (solver undecided on the position arithmetic) as a shape obligation --
    # ORDER BY keys and WITH bindings contribute by RE-INFERENCE of their expressions: they are put into `components`, and the only value returned is
    # _common_volatility(components, env).  (The volatility recorded next to a WITH binding counts DML as Stable and a reference to a bound view as Immutable:
    # folding that in instead makes `with u := (insert ..) select u` Stable, and calls of such a function are never recorded as modifying.)
    fn, _ = repo.find_def('edb/edgeql/compiler/inference/volatility.py', '__infer_select_stmt')
    rets = [ast.unparse(n.value) for n in ast.walk(fn) if isinstance(n, ast.Return) and n.value is not None]
    exts = [ast.unparse(n.args[0]) for n in ast.walk(fn) if isinstance(n, ast.Call) and ast.unparse(n.func) == 'components.extend' and n.args]
    def from_field(f_, first_of_pair):
        for n in ast.walk(fn):
            if isinstance(n, ast.Call) and ast.unparse(n.func) == 'components.extend' and n.args and isinstance(n.args[0], (ast.GeneratorExp, ast.ListComp)):
                g = n.args[0]
                if len(g.generators) == 1 and not g.generators[0].ifs and ast.unparse(g.generators[0].iter) == 'ir.' + f_:
                    t = g.generators[0].target
                    if first_of_pair: return isinstance(t, ast.Tuple) and len(t.elts) == 2 and isinstance(g.elt, ast.Name) and ast.unparse(t.elts[0]) == g.elt.id
                    return isinstance(t, ast.Name) and ast.unparse(g.elt) == t.id + '.expr'
        return None
    ob_ok = from_field('orderby', False); bd_ok = from_field('bindings', True)
    uses_recorded = any(isinstance(n, (ast.GeneratorExp, ast.ListComp, ast.For)) and 'ir.bindings' in ast.unparse(n) and not any(isinstance(c, ast.Call) and ast.unparse(c.func) == 'components.extend' and any(x is n for x in ast.walk(c)) for c in ast.walk(fn))
                        for n in ast.walk(fn))
    ok_v = rets == ['_common_volatility(components, env)'] and ob_ok is True and bd_ok is True
    bad_v = (rets != ['_common_volatility(components, env)'] and bool(rets)) or ob_ok is False or bd_ok is False or (bd_ok is None and uses_recorded)
    out.append(_ob('scan/volatility/select-orderby-bindings-reinferred', '__infer_select_stmt: ORDER BY keys and WITH binding expressions are put into `components` and the result is _common_volatility(components, env) alone',
                   ok_v, where='returns %s; extends %s' % (rets, exts), undecided=not bad_v, kind='shape'))
    return out
