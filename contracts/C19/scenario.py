"""C19 bounded part (native; labelled bounded, never counted as proof).

On the REAL edb.server.config / edb.ir.statypes code, against the property text:
  A  operation histories (SET / RESET / INSERT / filtered RESET (REM)) at session, database and instance scope over a
     spec with scalar, enum, duration, memory, multi-valued and object-valued settings, including invalid values:
     after every operation the effective value (config.lookup over session, database, instance storages) equals a
     reference model (most specific scope, else default); a rejected operation changes nothing.
  B  JSON round trip of the stored configuration after every history: from_json(to_json(m)) gives the same
     effective configuration.
  C  Duration: to_iso8601 / parse round trip, and str round trip, on a boundary grid + all |us| <= small bound.
  D  ConfigMemory: ConfigMemory(ConfigMemory(n).to_str()) == n on a grid around every unit boundary.
usage: scenario.py <seed> <n_histories> <max_len> <dur_bound> <out.json>
"""
import sys, json, random, itertools, immutables
from edb import errors
from edb.edgeql import qltypes
from edb.ir import statypes
from edb.server import config
from edb.server.config import ops, spec as cspec, types as ctypes

Scope = qltypes.ConfigScope
Field = statypes.CompositeTypeSpecField


def fmap(*fs): return immutables.Map({f.name: f for f in fs})
Prov = ctypes.ConfigTypeSpec(name='cfg::Prov', fields=fmap(Field('name', str, unique=True)))
OAuth = ctypes.ConfigTypeSpec(name='cfg::OAuth', fields=fmap(Field('name', str, unique=True), Field('client_id', str)), parent=Prov)
Email = ctypes.ConfigTypeSpec(name='cfg::Email', fields=fmap(Field('name', str, unique=True), Field('verify', bool, default=True)), parent=Prov)
Prov.children.extend([OAuth, Email])

def make_spec():
    S = cspec.Setting
    return cspec.FlatSpec(
        S('an_int', type=int, default=7), S('a_str', type=str, default='dflt'), S('a_bool', type=bool, default=False),
        S('a_dur', type=statypes.Duration, default=statypes.Duration('1 minute')),
        S('a_mem', type=statypes.ConfigMemory, default=statypes.ConfigMemory('1MiB')),
        S('strs', type=str, set_of=True, default=frozenset()),
        S('provs', type=Prov, set_of=True, default=frozenset()))

VALID = {
    'an_int': [0, 5, -3], 'a_str': ['', 'x', "q'uo\\te"], 'a_bool': [True, False],
    'a_dur': ['1 hour', '90 seconds', '1050 milliseconds', '75 microseconds', '2 seconds 5 milliseconds', '-3 minutes'],
    'a_mem': ['0', '5KiB', '3MiB', '1023B', 1024 * 1024],
    'strs': [[], ['a'], ['a', 'b']],
}
INVALID = {'an_int': ['seven', None, 1.5], 'a_str': [5, None], 'a_bool': ['yes', 3], 'a_dur': [5, 'forever'], 'a_mem': ['12 parsecs', 1.5, '5kb'],
           'strs': ['notalist', 5]}
def oauth(n, cid='c'): return {'_tname': 'cfg::OAuth', 'name': n, 'client_id': cid}
def email(n): return {'_tname': 'cfg::Email', 'name': n}
OBJS = [oauth('a'), oauth('b'), email('a'), email('c'), oauth('a', 'other')]

def norm(v):
    """comparable form of an effective value"""
    if isinstance(v, frozenset): return frozenset(norm(x) for x in v)
    if isinstance(v, ctypes.CompositeConfigType): return (v._tspec.name, tuple(sorted((k, norm(getattr(v, k, None))) for k in v._tspec.fields)))
    if isinstance(v, statypes.Duration): return ('dur', v.to_microseconds())
    if isinstance(v, statypes.ConfigMemory): return ('mem', v.to_nbytes())
    return v

def expected_coerce(name, raw):
    if name == 'a_dur': return statypes.Duration(raw)
    if name == 'a_mem': return statypes.ConfigMemory(raw)
    if name == 'strs': return frozenset(raw)
    return raw

def run_history(hist, SPEC):
    stores = {Scope.SESSION: immutables.Map(), Scope.DATABASE: immutables.Map(), Scope.INSTANCE: immutables.Map()}
    model = {sc: {} for sc in stores}            # scope -> name -> normalised value
    ORDER = [Scope.SESSION, Scope.DATABASE, Scope.INSTANCE]
    def effective(name):
        for sc in ORDER:
            if name in model[sc]: return model[sc][name]
        return norm(SPEC[name].default)
    for step, (kind, sc, name, raw, ok) in enumerate(hist):
        before = stores[sc]
        opcode = {'SET': ops.OpCode.CONFIG_SET, 'RESET': ops.OpCode.CONFIG_RESET, 'ADD': ops.OpCode.CONFIG_ADD, 'REM': ops.OpCode.CONFIG_REM}[kind]
        op = ops.Operation(opcode, sc, name, raw)
        try:
            after = op.apply(SPEC, before); rejected = False
        except errors.EdgeDBError:
            after = before; rejected = True
        # reference model
        exp_reject = not ok
        if name == 'provs' and ok:
            cur = dict(model[sc].get('provs_raw', {}))       # name -> raw obj (exclusive on name across subtypes)
            if kind == 'SET':
                names = [o['name'] for o in raw]
                if len(set(names)) != len(names): exp_reject = True
                else: cur = {o['name']: o for o in raw}
            elif kind == 'ADD':
                if raw['name'] in cur: exp_reject = True
                else: cur[raw['name']] = raw
            elif kind == 'REM':
                # object identity is its concrete type + exclusive properties (CompositeConfigType._compare_keys)
                if raw['name'] in cur and cur[raw['name']]['_tname'] == raw['_tname']: del cur[raw['name']]
            elif kind == 'RESET': cur = None
        if exp_reject != rejected:
            return dict(step=step, op=[kind, str(sc), name, repr(raw)], problem='expected %s but the operation was %s' % ('rejection' if exp_reject else 'acceptance', 'rejected' if rejected else 'accepted'))
        if rejected:
            if after is not before and dict(after) != dict(before): return dict(step=step, op=[kind, str(sc), name, repr(raw)], problem='a rejected operation changed the stored configuration')
        else:
            stores[sc] = after
            if name == 'provs':
                if cur is None: model[sc].pop('provs', None); model[sc].pop('provs_raw', None)
                else:
                    model[sc]['provs_raw'] = cur
                    model[sc]['provs'] = frozenset(norm(ctypes.CompositeConfigType.from_pyvalue(o, spec=SPEC, tspec=Prov)) for o in cur.values())
            elif kind == 'SET': model[sc][name] = norm(expected_coerce(name, raw))
            elif kind == 'RESET': model[sc].pop(name, None)
        for nm in SPEC:
            got = norm(config.lookup(nm, stores[Scope.SESSION], stores[Scope.DATABASE], stores[Scope.INSTANCE], spec=SPEC))
            if got != effective(nm):
                return dict(step=step, op=[kind, str(sc), name, repr(raw)], problem='effective value of %s is %r, reference model says %r' % (nm, got, effective(nm)))
    # B: JSON round trip of every storage
    for sc, st in stores.items():
        back = ops.from_json(SPEC, ops.to_json(SPEC, st))
        for nm in SPEC:
            a = norm(config.lookup(nm, st, spec=SPEC)); b = norm(config.lookup(nm, back, spec=SPEC))
            if a != b: return dict(step='json', op=[str(sc), nm], problem='JSON round trip changes the effective value of %s: %r -> %r' % (nm, a, b))
        for nm in st:
            if nm in back and (back[nm].source != st[nm].source or back[nm].scope != st[nm].scope):
                return dict(step='json', op=[str(sc), nm], problem='JSON round trip changes source/scope of %s' % nm)
    # C: DESCRIBE text (CONFIGURE statements): every stored scalar setting of a scope is written, once, as a SET of that scope -- a stored value that happens to
    #    equal the default still masks the less specific scopes, so it must be written too (the value syntax itself needs the parser and is not read back here)
    import re as _re
    for sc, st in stores.items():
        try: text = ops.to_edgeql(SPEC, st, with_secrets=True)
        except Exception as e:
            if any(isinstance(st[nm].value, statypes.ConfigMemory) for nm in st if nm in SPEC): continue      # (ConfigMemory has no EdgeQL constant form: a limitation on every tree)
            return dict(step='describe', op=[str(sc)], problem='to_edgeql raised %r' % (e,))
        written = _re.findall(r'^CONFIGURE ([A-Z ]+?) SET (\w+) :=', text, _re.M)
        want = sorted(nm for nm in st if nm in SPEC and not isinstance(SPEC[nm].type, ctypes.ConfigTypeSpec))
        got = sorted(nm for _, nm in written)
        if got != want:
            return dict(step='describe', op=[str(sc)], problem='the CONFIGURE statements for scope %s set %r, the stored configuration defines %r' % (sc, got, want))
        for scope_txt, nm in written:
            if scope_txt != st[nm].scope.to_edgeql():
                return dict(step='describe', op=[str(sc), nm], problem='setting %s of scope %s is described as CONFIGURE %s' % (nm, sc, scope_txt))
    return None

def gen_step(rnd):
    sc = rnd.choice([Scope.SESSION, Scope.DATABASE, Scope.INSTANCE])
    name = rnd.choice(['an_int', 'a_str', 'a_bool', 'a_dur', 'a_mem', 'strs', 'provs', 'provs'])
    if name == 'provs':
        kind = rnd.choice(['SET', 'ADD', 'ADD', 'REM', 'RESET'])
        if kind == 'SET': return (kind, sc, name, rnd.sample(OBJS, rnd.randint(0, 3)), True)
        if kind == 'RESET': return (kind, sc, name, None, True)
        return (kind, sc, name, rnd.choice(OBJS), True)
    kind = rnd.choice(['SET', 'SET', 'SET', 'RESET'])
    if kind == 'RESET': return (kind, sc, name, None, True)
    if rnd.random() < 0.25: return (kind, sc, name, rnd.choice(INVALID[name]), False)
    return (kind, sc, name, rnd.choice(VALID[name]), True)

def durations(bound):
    us = set(range(-bound, bound + 1))
    for h in (0, 1, 25):
        for m in (0, 1, 59):
            for s in (0, 1, 59):
                for u in (0, 1, 5, 50, 75, 500, 5000, 50000, 500000, 999999, 100000, 10, 100, 1000, 10000):
                    v = ((h * 60 + m) * 60 + s) * 1000000 + u; us.add(v); us.add(-v)
    return sorted(us)

def composite_fields(SPEC):
    """object-valued settings: the value of a field is what was written -- an explicitly EMPTY multi field is the empty set (not the field's non-empty default), an absent
    or None field is the default, a list is that set; and the JSON form of the object loads back to an equal object"""
    import typing
    Auth = ctypes.ConfigTypeSpec(name='cfg::AuthX', fields=fmap(Field('name', str, unique=True), Field('user', typing.FrozenSet[str], default=frozenset({'*'}))))
    cases = [({'name': 'n'}, frozenset({'*'})), ({'name': 'n', 'user': None}, frozenset({'*'})), ({'name': 'n', 'user': []}, frozenset()),
             ({'name': 'n', 'user': ['a']}, frozenset({'a'})), ({'name': 'n', 'user': ['a', 'b']}, frozenset({'a', 'b'})), ({'name': 'n', 'user': 'solo'}, frozenset({'solo'}))]
    n = 0
    for data, want in cases:
        n += 1
        try: obj = ctypes.CompositeConfigType.from_pyvalue(dict(data), tspec=Auth, spec=SPEC)
        except Exception as e: return n, dict(problem='from_pyvalue(%r) raised %r' % (data, e))
        got = getattr(obj, 'user', None)
        if got != want: return n, dict(problem='object written as %r: field `user` is %r, expected %r (an explicitly empty set is not "absent")' % (data, got, want))
    return n, None

def compiled_ops(SPEC):
    """the step from a compiled CONFIGURE ... SET to the operation: the REAL ir.staeval.evaluate_to_config_op on hand-built IR (a literal, `{}`, a set literal), then the real
    Operation.apply / lookup -- the effective value of a multi-valued setting is exactly the set of the literals written (one falsy literal is still one element)"""
    from edb.ir import ast as irast, staeval
    from edb.schema import objects as s_obj, name as sn
    def tref(n): return irast.TypeRef(id=s_obj.get_known_type_id(n), name_hint=sn.name_from_string(n))
    STR_T, BOOL_T, INT_T = tref('std::str'), tref('std::bool'), tref('std::int64')
    def const(v):
        if isinstance(v, bool): return irast.BooleanConstant(value='true' if v else 'false', typeref=BOOL_T)
        if isinstance(v, int): return irast.IntegerConstant(value=str(v), typeref=INT_T)
        return irast.StringConstant(value=v, typeref=STR_T)
    def expr(values, t):
        pid = irast.PathId.from_typeref(t)
        if len(values) == 0: e = irast.EmptySet(typeref=t, path_id=pid)
        elif len(values) == 1: e = const(values[0])
        else: e = irast.ConstantSet(elements=tuple(const(v) for v in values), typeref=t)
        return irast.Set(expr=e, typeref=t, path_id=pid)
    CARD = qltypes.SchemaCardinality
    cases = [('strs', CARD.Many, STR_T, vs) for vs in ([], [''], ['a'], ['', 'a'], ['a', 'b'], ['b', '', 'a'])] + \
            [('a_str', CARD.One, STR_T, [v]) for v in ('', 'x')] + [('a_bool', CARD.One, BOOL_T, [v]) for v in (False, True)]
    n = 0
    for name, card, t, vals in cases:
        for scope in (Scope.SESSION, Scope.DATABASE, Scope.INSTANCE):
            n += 1
            ir = irast.ConfigSet(name=name, scope=scope, cardinality=card, required=False, requires_restart=False, backend_setting=None, is_system_config=False, expr=expr(vals, t))
            try: op = staeval.evaluate_to_config_op(ir, schema=None)
            except Exception as e: return n, dict(problem='evaluate_to_config_op raised %r' % (e,), setting=name, literals=vals)
            if op.opcode is not ops.OpCode.CONFIG_SET or op.scope is not scope or op.setting_name != name:
                return n, dict(problem='compiled operation is %r' % (op,), setting=name, literals=vals)
            store = op.apply(SPEC, immutables.Map())
            eff = config.lookup(name, store, spec=SPEC)
            want = frozenset(vals) if card is CARD.Many else vals[0]
            if norm(eff) != norm(want):
                return n, dict(problem='CONFIGURE %s SET %s := %r compiles to value %r; effective value %r, expected %r' % (scope, name, vals, op.value, eff, want), setting=name, literals=vals)
    return n, None

def main():
    seed, nh, maxlen, dbound, out = int(sys.argv[1]), int(sys.argv[2]), int(sys.argv[3]), int(sys.argv[4]), sys.argv[5]
    rnd = random.Random(seed); SPEC = make_spec()
    res = dict(histories=0, durations=0, memories=0, failure=None)
    res['compiled'], cf = compiled_ops(SPEC)
    if cf: res['failure'] = dict(kind='compiled-set', **cf)
    if not res['failure']:
        res['composite'], cf = composite_fields(SPEC)
        if cf: res['failure'] = dict(kind='object-field', **cf)
    for _ in range(nh if not res['failure'] else 0):
        h = [gen_step(rnd) for _ in range(rnd.randint(1, maxlen))]
        res['histories'] += 1
        f = run_history(h, SPEC)
        if f: res['failure'] = dict(kind='history', history=[[k, str(sc), n, repr(r), ok] for k, sc, n, r, ok in h], **f); break
    if not res['failure']:
        for us in durations(dbound):
            res['durations'] += 1
            d = statypes.Duration.from_microseconds(us)
            try:
                back = statypes.Duration.from_iso8601(d.to_iso8601()).to_microseconds()
                back2 = statypes.Duration(d.to_json()).to_microseconds() if hasattr(d, 'to_json') else us
            except Exception as e:
                res['failure'] = dict(kind='duration', microseconds=us, text=d.to_iso8601(), problem='printed duration is not read back: %r' % e); break
            if back != us or back2 != us:
                res['failure'] = dict(kind='duration', microseconds=us, text=d.to_iso8601(), problem='duration round trip gives %r / %r' % (back, back2)); break
    if not res['failure']:
        grid = set(range(0, 3000))
        for p in range(1, 6):
            for k in (1, 2, 3, 1023, 1024, 1025):
                for dlt in (-1, 0, 1): grid.add(k * 1024 ** p + dlt)
        for n in sorted(x for x in grid if x >= 0):
            res['memories'] += 1
            t = statypes.ConfigMemory(n).to_str()
            try: back = statypes.ConfigMemory(t).to_nbytes()
            except Exception as e: back = repr(e)
            if back != n: res['failure'] = dict(kind='memory', nbytes=n, text=t, problem='memory round trip gives %r' % (back,)); break
    json.dump(res, open(out, 'w'), indent=1)

if __name__ == '__main__':
    main()
