"""C19 sidecar contracts: configuration operations compose and persist.

Deductive part (this file): config.lookup (most specific scope that defines the setting, else the default; any number of
scopes), ops.Operation.apply / _set_value / set_value (SET and RESET are finite-map updates that touch exactly one key;
every other opcode path keeps all other keys), statypes.ConfigMemory parse/print round trip (string + integer arithmetic).
Bounded part (scenario.py, labelled bounded): Duration ISO-8601 round trip, JSON round trips per setting kind,
object-valued settings (INSERT / filtered RESET, exclusivity), coercion/rejection of values outside a setting's type.
"""
from pyvc.engine import World

CFG = 'edb/server/config/__init__.py'; OPS = 'edb/server/config/ops.py'; QLT = 'edb/edgeql/qltypes.py'; STA = 'edb/ir/statypes.py'

def build():
    w = World('C19')
    w.refclass('Obj', {}, truthy='uninterpreted', universal=True)
    w.enum('Scope', QLT, 'ConfigScope'); w.enum('OpCode', OPS, 'OpCode')
    w.rec('SV', [('name', 'str'), ('value', 'Obj'), ('source', 'str'), ('scope', 'Scope'), ('secret', 'bool')], OPS, 'SettingValue')
    w.refclass('Setting', {'default': 'Obj', 'name': 'str', 'type': 'Obj', 'set_of': 'bool'})
    w.rec('Op', [('opcode', 'OpCode'), ('scope', 'Scope'), ('setting_name', 'str'), ('value', 'Obj')], OPS, 'Operation')

    # ---- lookup(): first scope that defines the setting, else its default
    w.contract(CFG, 'lookup', params={'name': 'str', 'configs': 'Seq[Map[str,SV]]', 'spec': 'Map[str,Setting]', 'allow_unrecognized': 'bool'},
        returns='Opt[Obj]', requires=['len(configs) > 0'],
        ensures=[
            'implies(name in spec, not is_none(result))',
            # the most specific (first) scope that defines the setting wins
            'implies(name in spec, forall(0, len(configs), lambda k: implies(name in configs[k] and forall(0, k, lambda j: not (name in configs[j])), some(result) == configs[k][name].value)))',
            # otherwise the default of the setting
            'implies(name in spec and forall(0, len(configs), lambda j: not (name in configs[j])), some(result) == spec[name].default)',
            'implies(not (name in spec), is_none(result) and allow_unrecognized)'],
        raises={'ConfigurationError': dict(only_if='not (name in spec) and not allow_unrecognized')},
        loops={0: dict(fingerprint='for c in configs', index='i', invariant=['forall(0, i, lambda j: not (name in configs[j]))'])})

    # ---- the compiler's own reading of the configuration: compiler._get_config_val asks with the transaction's session, database and system maps IN THAT ORDER
    #      (most specific first), so what a statement is compiled under is the effective value of the property statement
    COMPPY = 'edb/server/compiler/compiler.py'
    w.refclass('XTx', {}); w.refclass('XSt', {}); w.refclass('XCs', {'config_spec': 'Map[str,Setting]'}); w.refclass('XCtx', {'state': 'XSt', 'compiler_state': 'XCs'})
    w.ufunc('SESS', ['XTx'], 'Map[str,SV]'); w.ufunc('DBC', ['XTx'], 'Map[str,SV]'); w.ufunc('SYSC', ['XTx'], 'Map[str,SV]'); w.ufunc('CURTX', ['XSt'], 'XTx')
    w.ext_methods['XSt.current_tx'] = dict(params={}, returns='XTx', returns_expr='CURTX(self)')
    w.ext_methods['XTx.get_session_config'] = dict(params={}, returns='Map[str,SV]', returns_expr='SESS(self)')
    w.ext_methods['XTx.get_database_config'] = dict(params={}, returns='Map[str,SV]', returns_expr='DBC(self)')
    w.ext_methods['XTx.get_system_config'] = dict(params={}, returns='Map[str,SV]', returns_expr='SYSC(self)')
    TXE = 'CURTX(ctx.state)'; SPECE = 'ctx.compiler_state.config_spec'
    IN = lambda m: 'name in %s(%s)' % (m, TXE)
    VAL = lambda m: '%s(%s)[name].value' % (m, TXE)
    w.contract(COMPPY, '_get_config_val', params={'ctx': 'XCtx', 'name': 'str'}, returns='Opt[Obj]',
        ensures=['implies(name in %s and %s, some(result) == %s)' % (SPECE, IN('SESS'), VAL('SESS')),
                 'implies(name in %s and not %s and %s, some(result) == %s)' % (SPECE, IN('SESS'), IN('DBC'), VAL('DBC')),
                 'implies(name in %s and not %s and not %s and %s, some(result) == %s)' % (SPECE, IN('SESS'), IN('DBC'), IN('SYSC'), VAL('SYSC')),
                 'implies(name in %s and not %s and not %s and not %s, some(result) == %s[name].default)' % (SPECE, IN('SESS'), IN('DBC'), IN('SYSC'), SPECE)],
        raises={'ConfigurationError': {}})

    # ---- Operation.apply and helpers
    SRC = '("system override" if scope == Scope.INSTANCE else ("database" if scope == Scope.DATABASE else ("session" if scope == Scope.SESSION else "global")))'
    w.contract(OPS, 'set_value', params={'storage': 'Map[str,SV]', 'name': 'str', 'value': 'Obj', 'source': 'str', 'scope': 'Scope'}, returns='Map[str,SV]',
        ensures=['name in result', 'result[name].name == name and result[name].value == value and result[name].source == source and result[name].scope == scope',
                 'result[name].secret == (name in storage and storage[name].secret)',        # redaction flag is kept
                 'map_same_except(result, storage, name)'])
    w.contract(OPS, 'Operation._set_value', params={'self': 'Op', 'storage': 'Map[str,SV]', 'value': 'Obj', 'source': 'Opt[str]'}, returns='Map[str,SV]',
        ensures=['self.setting_name in result', 'result[self.setting_name].value == value', 'result[self.setting_name].scope == self.scope',
                 'result[self.setting_name].name == self.setting_name',
                 'result[self.setting_name].source == (some(source) if not is_none(source) else %s)' % SRC.replace('scope', 'self.scope'),
                 'result[self.setting_name].secret == (self.setting_name in storage and storage[self.setting_name].secret)',
                 'map_same_except(result, storage, self.setting_name)'])
    w.contract(OPS, 'Operation.get_setting', params={'self': 'Op', 'spec': 'Map[str,Setting]'}, returns='Setting',
        ensures=['self.setting_name in spec', 'result == spec[self.setting_name]'],
        raises={'ConfigurationError': dict(only_if='not (self.setting_name in spec)')})
    # coercion of the raw value is outside the deductive part (dynamic types): it returns some value or rejects, and cannot touch `storage`
    w.ufunc('CV', ['Op', 'Setting', 'bool'], 'Obj'); w.ufunc('UNIQ', ['Setting', 'Seq[Obj]'], 'Obj'); w.ufunc('LISTOF', ['Obj'], 'Seq[Obj]')
    w.contract(OPS, 'Operation.coerce_value', params={'self': 'Op', 'spec': 'Map[str,Setting]', 'setting': 'Setting', 'allow_missing': 'bool'}, returns='Obj', trusted=True,
        ensures=['result == CV(self, setting, allow_missing)'],      # a function of the operation, the setting and the leniency flag (which only REM / RESET may set)
        raises={'ConfigurationError': {}, 'ConstraintViolationError': {}})
    w.contract(OPS, 'Operation.coerce_global_value', params={'self': 'Op', 'allow_missing': 'bool'}, returns='Obj', trusted=True, raises={'AssertionError': {}, 'ValueError': {}})
    w.ext_funcs['_check_object_set_uniqueness'] = dict(params={'setting': 'Setting', 'objs': 'Seq[Obj]'}, returns='Obj', returns_expr='UNIQ(setting, objs)', raises={'ConstraintViolationError': {}, 'ConfigurationError': {}})
    w.ext_funcs['list'] = dict(params={'x': 'Obj'}, returns='Seq[Obj]', returns_expr='LISTOF(x)')
    w.opaque_exprs['types.ConfigTypeSpec'] = 'Obj'
    OTHERS = 'map_same_except(result, storage, self.setting_name)'
    w.contract(OPS, 'Operation.apply', params={'self': 'Op', 'spec': 'Map[str,Setting]', 'storage': 'Map[str,SV]', 'source': 'Opt[str]'}, returns='Map[str,SV]',
        ensures=[
            # whatever the operation, no other setting is touched
            OTHERS,
            # SET: the stored value of this setting is the (coerced) new value, attributed to the operation's scope
            'implies(self.opcode == OpCode.CONFIG_SET, self.setting_name in result and result[self.setting_name].scope == self.scope and result[self.setting_name].name == self.setting_name)',
            'implies(self.opcode == OpCode.CONFIG_SET and is_none(source), result[self.setting_name].source == %s)' % SRC.replace('scope', 'self.scope'),
            # RESET: the setting is no longer defined at this scope (so lookup falls through to the next scope / the default)
            'implies(self.opcode == OpCode.CONFIG_RESET, not (self.setting_name in result))',
            # an unknown setting is rejected (non-GLOBAL scopes)
            'implies(self.scope != Scope.GLOBAL, self.setting_name in spec)',
            # SET stores the STRICTLY coerced value (the lenient coercion that lets a missing value through is for REM / RESET alone)
            'implies(self.opcode == OpCode.CONFIG_SET and self.scope != Scope.GLOBAL, result[self.setting_name].value == CV(self, spec[self.setting_name], False))',
            # ADD stores the uniqueness-checked union of what is in force at this scope (the stored value, else the default) and the new object
            'implies(self.opcode == OpCode.CONFIG_ADD and self.setting_name in storage, self.setting_name in result and result[self.setting_name].value == '
            'UNIQ(spec[self.setting_name], LISTOF(storage[self.setting_name].value) + [CV(self, spec[self.setting_name], False)]))',
            'implies(self.opcode == OpCode.CONFIG_ADD and not (self.setting_name in storage), self.setting_name in result and result[self.setting_name].value == '
            'UNIQ(spec[self.setting_name], LISTOF(spec[self.setting_name].default) + [CV(self, spec[self.setting_name], False)]))',
            'implies(self.opcode == OpCode.CONFIG_REM, self.setting_name in result and result[self.setting_name].scope == self.scope)'],
        # `+=` / `-=` are refused as "unexpected" only on a setting whose type is NOT an object type
        raises={'ConfigurationError': {}, 'ConstraintViolationError': {},
                'InternalServerError': dict(only_if='(self.opcode == OpCode.CONFIG_ADD or self.opcode == OpCode.CONFIG_REM) and self.setting_name in spec '
                                                    'and not isinstance(spec[self.setting_name].type, types.ConfigTypeSpec)'),
                'AssertionError': {}, 'ValueError': {}})
    # ---- ConfigMemory: printing then parsing gives back the same number of bytes (all n >= 0)
    w.refclass('CM', {'_value': 'int'}, STA, 'ConfigMemory')
    UNITS = [('B', 1), ('KiB', 1024), ('MiB', 1024 ** 2), ('GiB', 1024 ** 3), ('TiB', 1024 ** 4), ('PiB', 1024 ** 5)]
    w.define('CMTEXT(t, v)', ' or '.join('(t == int_to_str(v // %d) + "%s" and v %% %d == 0)' % (sz, nm, sz) for nm, sz in UNITS))
    w.contract(STA, 'ConfigMemory.to_str', params={'self': 'CM'}, returns='str', requires=['self._value >= 0'],
        ensures=['CMTEXT(result, self._value)'])
    # (parsing the printed text back is outside both string solvers here -- z3 and cvc5 time out on the regex group
    #  decomposition -- and is covered by the bounded grid in scenario.py, labelled bounded)
    w.contract(STA, 'ConfigMemory.__init__', view='int', params={'self': 'CM', 'val': 'int'}, returns='none', modifies=['CM._value'],
        ensures=['self._value == val'])
    return w

def scenarios(tier, seed, repo_root, outdir):
    """bounded part: operation histories vs a reference model, JSON / Duration / ConfigMemory round trips on the real code"""
    import os, json, subprocess
    here = os.path.dirname(os.path.abspath(__file__)); root = os.path.dirname(os.path.dirname(here))
    out = os.path.join(outdir, 'scenario_out.json')
    if os.path.exists(out): os.unlink(out)
    nh, ln, db = (1500, 7, 2000) if tier == 'quick' else (60000, 10, 200000)
    env = dict(os.environ); env['PYTHONPATH'] = '%s:%s' % (os.path.join(root, 'stubs'), repo_root); env['VERIF_REPO'] = repo_root
    p = subprocess.run(['/venv/bin/python', os.path.join(here, 'scenario.py'), str(seed), str(nh), str(ln), str(db), out], capture_output=True, text=True, env=env, cwd=repo_root, timeout=3000)
    if not os.path.exists(out): raise RuntimeError('scenario runner failed: ' + (p.stderr or p.stdout)[-2000:])
    r = json.load(open(out))
    if not r['failure'] and r.get('compiled', 0) < 20: raise RuntimeError('compiled-operation explorer is vacuous: %r' % r.get('compiled'))
    return dict(evaluations=r['histories'] + r['durations'] + r['memories'] + r.get('compiled', 0), failure=r['failure'],
                label='30 compiled CONFIGURE SET statements (hand-built IR through the real staeval.evaluate_to_config_op, apply, lookup); %d random operation histories <= %d ops (3 scopes, 7 settings incl. object-valued, invalid values) vs reference model + JSON round trip; Duration grid (|us| <= %d + boundary grid); ConfigMemory grid (bounded)' % (nh, ln, db),
                clause='a compiled SET yields exactly the literals written; effective value = most specific scope else default; rejected operations change nothing; serialise/load round trips')
