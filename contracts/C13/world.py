"""C13 sidecar contracts (fragment): parameter numbering and alias generation of the SQL compiler.

Within reach of per-function contracts (and decided here for every parameter list / every call history):
  A   edb/pgsql/compiler/clauses.py populate_argmap: every eligible query parameter and every global gets an entry; the
      *physical* indexes ($n) of parameters that own a PostgreSQL parameter (no sub_params) and of globals and their
      "present" companions are pairwise distinct and fill 1..N without gaps; the *logical* indexes of the non-sub
      parameters are pairwise distinct and fill 1..L.  (The reported argmap and the numbers in the SQL text both come
      from this map: expr.compile_Parameter is proved to emit exactly ctx.argmap[name].index.)
  B   edb/common/compiler.py AliasGenerator.get / SimpleCounter.nextval: the alias is a function of (counter state, hint)
      -- no clock, id() or hash order -- of the form <hint sans ~digits>~<count>, and the counter of that hint grows by
      one (so two aliases drawn for one hint differ).
Not within reach (stated, not claimed): that every column / range-variable reference of the emitted SQL is in scope
(needs the whole pgsql compiler and PostgreSQL's scoping rules over arbitrary IR), and byte-identical recompilation of
whole queries (needs absence of hash-order dependence across the compiler).
"""
import ast, os
from pyvc.engine import World
from pyvc import repo

CLAUSES = 'edb/pgsql/compiler/clauses.py'
EXPR = 'edb/pgsql/compiler/expr.py'
COMMON = 'edb/common/compiler.py'
IRAST = 'edb/ir/ast.py'
PGAST = 'edb/pgsql/ast.py'

def conj(cs): return ' and '.join('(%s)' % c for c in cs)

PATHCTX = 'edb/pgsql/compiler/pathctx.py'

def build_setop(w):
    """C (scoping, fragment): the output column of a set operation (UNION arms).  PostgreSQL names the columns of a set operation after its LEFTMOST arm and
    every arm must expose the same number of columns, so
      C1  get_path_output_or_null: an arm that cannot provide the path gets exactly one new `NULL AS <alias>` column, registered under the arm's own
          (mapped) path id; nothing else of the arm, and no other query, changes
      C2  _get_path_var_in_setop: the column reference registered for the whole set operation is the one of the leftmost arm (outputs[0])
      C3  _get_path_var_in_setop: if NO arm provides the path (LookupError) every placeholder column is taken back: each arm has its old number of
          columns and no output registered for its mapped path id -- a later lookup cannot mistake the placeholders for the real thing"""
    w.refclass('PathId', {}); w.enum('Aspect', 'edb/pgsql/compiler/enums.py', 'PathAspect')
    w.refclass('OutVar', {'nullable': 'bool'})
    w.refclass('Query', {'target_list': 'Seq[Obj]', 'path_outputs': 'Map[Tuple[PathId,Aspect],OutVar]', 'view_path_id_map': 'Obj'})
    w.refclass('PEnv', {'aliases': 'Obj'})
    w.ufunc('MAPPED', ['PathId', 'Obj'], 'PathId'); w.ufunc('ARMS', ['Query'], 'Seq[Query]'); w.ufunc('SRC', ['Obj'], 'OutVar')
    w.trusted.append('pathctx: map_path_id is a function of (path id, view map); each_query_in_set yields the distinct leaf queries of the set operation, leftmost first; '
                     'maybe_get_path_output / maybe_get_path_var / get_path_var / put_path_var touch no target list or path_outputs other than those of the query they are given '
                     '(maybe_get_path_var / get_path_var / put_path_var none of an arm at all)')
    QF = ['Query.target_list', 'Query.path_outputs']
    ONLY = lambda q: 'heap_same_except("Query.target_list", %s) and heap_same_except("Query.path_outputs", %s)' % (q, q)
    w.ext_funcs['map_path_id'] = dict(params={'path_id': 'PathId', 'path_id_map': 'Obj'}, returns='PathId', returns_expr='MAPPED(path_id, path_id_map)')
    w.ext_funcs['maybe_get_path_output'] = dict(params={'rel': 'Query', 'path_id': 'PathId', 'aspect': 'Aspect', 'env': 'PEnv'}, optional=('disable_output_fusion', 'flavor'),
        returns='Opt[OutVar]', modifies=QF + ['$alloc'],
        # (assumed) a failed lookup leaves the query as it was
        ensures=[ONLY('rel'), 'implies(is_none(result), rel.target_list == old(rel.target_list) and map_same(rel.path_outputs, old(rel.path_outputs)))'])
    w.ext_funcs['get_less_specific_aspect'] = dict(params={'path_id': 'PathId', 'aspect': 'Aspect'}, returns='Opt[Aspect]')
    w.ext_methods['Obj.get'] = dict(params={'hint': 'str'}, returns='Obj')
    w.ext_funcs['pgast.ResTarget'] = dict(params={'name': 'Obj', 'val': 'Obj'}, returns='Obj')
    w.ext_funcs['pgast.NullConstant'] = dict(params={}, returns='Obj')
    w.contract(PATHCTX, '_put_path_output_var', params={'rel': 'Query', 'path_id': 'PathId', 'aspect': 'Aspect', 'var': 'OutVar', 'flavor': 'str'}, returns='none',
        requires=['flavor != "packed"'], modifies=['Query.path_outputs'],
        ensures=['(path_id, aspect) in rel.path_outputs and rel.path_outputs[(path_id, aspect)] == var', 'map_same_except(rel.path_outputs, old(rel.path_outputs), (path_id, aspect))',
                 'heap_same_except("Query.path_outputs", rel)'])
    MP = 'MAPPED(path_id, rel.view_path_id_map)'
    w.contract(PATHCTX, 'get_path_output_or_null', params={'rel': 'Query', 'path_id': 'PathId', 'disable_output_fusion': 'bool', 'flavor': 'str', 'aspect': 'Aspect', 'env': 'PEnv'},
        returns='Tuple[OutVar,bool]', requires=['flavor == "normal"'], modifies=QF + ['$alloc'],
        ensures=[ONLY('rel'),
                 # the arm could not provide the path: one placeholder column, registered under the arm's own path id
                 'implies(result[1], len(rel.target_list) == old(len(rel.target_list)) + 1 and (%s, aspect) in rel.path_outputs and rel.path_outputs[(%s, aspect)] == result[0] and result[0].nullable)' % (MP, MP)],
        hints={'ext_funcs': {'pgast.ColumnRef': dict(params={'name': 'Obj', 'nullable': 'bool'}, returns='OutVar', modifies=['$alloc'], ensures=['result.nullable == nullable'])}})

    # ---- _get_path_var_in_setop
    w.ext_funcs['astutils.each_query_in_set'] = dict(params={'qry': 'Query'}, returns='Seq[Query]', returns_expr='ARMS(qry)')
    w.ext_funcs['maybe_get_path_var'] = dict(params={'rel': 'Query', 'env': 'PEnv', 'path_id': 'PathId', 'aspect': 'Aspect'}, returns='Opt[Obj]', modifies=['$alloc'])
    w.ext_funcs['get_path_var'] = dict(params={'rel': 'Query', 'env': 'PEnv', 'path_id': 'PathId', 'aspect': 'Aspect'}, returns='Obj', modifies=['$alloc'], raises={'InnerLookupError': {}})       # (own name: whatever the lookup in an arm raises, kept apart from the LookupError of C3)
    w.ext_funcs['put_path_var'] = dict(params={'rel': 'Query', 'path_id': 'PathId', 'var': 'Obj', 'aspect': 'Aspect'}, optional=('force', 'flavor'), returns='none', raises={'InnerLookupError': {}})
    w.ext_funcs['output.output_as_value'] = dict(params={'expr': 'Obj', 'env': 'PEnv'}, returns='Obj', modifies=['$alloc'])
    w.ext_funcs['astutils.strip_output_var'] = dict(params={'var': 'OutVar', 'optional': 'bool', 'nullable': 'bool'}, returns='Obj', modifies=['$alloc'], ensures=['SRC(result) == var'])
    w.ext_methods['PathId.is_objtype_path'] = dict(params={}, returns='bool')
    DIST = 'forall(0, len(ARMS(rel)), lambda a: forall(0, len(ARMS(rel)), lambda b: implies(a != b, seq_get(ARMS(rel), a) != seq_get(ARMS(rel), b))))'
    ARM = lambda k: 'seq_get(ARMS(rel), %s)' % k
    KEY = lambda k: '(MAPPED(path_id, %s.view_path_id_map), aspect)' % ARM(k)
    UNTOUCHED = lambda k: '%s.target_list == old(%s.target_list) and map_same(%s.path_outputs, old(%s.path_outputs))' % (ARM(k), ARM(k), ARM(k), ARM(k))
    PLACED = lambda k: ('implies(acc[%s][1], len(%s.target_list) == old(len(%s.target_list)) + 1 and %s in %s.path_outputs)' % (k, ARM(k), ARM(k), KEY(k), ARM(k)))
    PLACED_O = lambda k: PLACED(k).replace('acc[', 'outputs[')
    RESTORED = lambda k: 'len(%s.target_list) == old(len(%s.target_list)) and not (%s in %s.path_outputs)' % (ARM(k), ARM(k), KEY(k), ARM(k))
    ALLNULL = lambda hi: 'forall(0, %s, lambda k: outputs[k][1])' % hi
    w.contract(PATHCTX, '_get_path_var_in_setop', params={'rel': 'Query', 'path_id': 'PathId', 'aspect': 'Aspect', 'flavor': 'str', 'env': 'PEnv'}, returns='Obj',
        requires=[DIST, 'flavor == "normal"', 'len(ARMS(rel)) >= 1'],
        modifies=QF + ['$alloc'],
        ensures=['SRC(result) == outputs[0][0]'],                                                                                       # C2: the leftmost arm names the column
        raises={'LookupError': dict(ensures=['implies(%s, forall(0, len(ARMS(rel)), lambda k: %s))' % (ALLNULL('len(outputs)'), RESTORED('k'))]),    # C3
                'AssertionError': {}, 'InnerLookupError': {},
                # taking the placeholders back cannot fail when every arm got one
                'KeyError': dict(ensures=['not (%s)' % ALLNULL('len(outputs)')]), 'IndexError': dict(ensures=['not (%s)' % ALLNULL('len(outputs)')])},
        abstract={'counts = [len(x.target_list) for x in astutils.each_query_in_set(rel)]': dict(assigns={'counts': 'Seq[int]'}),
                  'assert counts == [counts[0]] * len(counts)': dict()},
        loops={'comp#0': dict(elem_type='Opt[Obj]', acc='acc', index='i', seq='its', modifies=[], invariant=['len(acc) == i']),
               0: dict(fingerprint='for subrel in astutils.each_query_in_set(rel)', index='j0', invariant=['forall(0, len(ARMS(rel)), lambda k: %s)' % UNTOUCHED('k')]),
               'comp#3': dict(elem_type='Tuple[OutVar,bool]', acc='acc', index='i', seq='its', modifies=QF,
                              invariant=['len(acc) == i', 'its == ARMS(rel)', 'forall(0, i, lambda k: %s)' % PLACED('k'), 'forall(i, len(ARMS(rel)), lambda k: %s)' % UNTOUCHED('k')]),
               1: dict(fingerprint='for (colref, is_null) in outputs', index='i1', invariant=[
                          'is_none(first) == (i1 == 0)', 'implies(i1 > 0, some(first) == outputs[0][0])',
                          'all_null == forall(0, i1, lambda k: outputs[k][1])', 'optional == exists(0, i1, lambda k: outputs[k][1])']),
               2: dict(fingerprint='for subrel in astutils.each_query_in_set(rel)', index='j2', invariant=[
                          'len(outputs) == len(ARMS(rel))',
                          'implies(%s, forall(0, j2, lambda k: %s))' % (ALLNULL('len(outputs)'), RESTORED('k')),
                          'implies(%s, forall(j2, len(ARMS(rel)), lambda k: %s))' % (ALLNULL('len(outputs)'), PLACED_O('k')),
                          # (the instance for the arm about to be cleaned, spelled out: the solver does not find it by itself)
                          'implies(%s and j2 < len(ARMS(rel)), len(%s.target_list) >= 1 and %s in %s.path_outputs)' % (ALLNULL('len(outputs)'), ARM('j2'), KEY('j2'), ARM('j2'))])},
        hints={'var_types': {'test_vals': 'Seq[Opt[Obj]]', 'first': 'Opt[OutVar]'}})

    # ---- has_rvar: "is this range variable already part of the statement's FROM clause" -- relctx.include_specific_rvar relies on it not to join a range
    # variable twice (two FROM items with one alias are an error / make every reference ambiguous): both the normal and the packed map count
    w.refclass('RVar', {}); w.ufunc('RVM', ['Query', 'str'], 'Map[Tuple[PathId,Aspect],RVar]')
    w.ext_methods['Query.get_rvar_map'] = dict(params={'flavor': 'str'}, returns='Map[Tuple[PathId,Aspect],RVar]', returns_expr='RVM(self, flavor)')
    w.ext_methods['Query.maybe_get_rvar_map'] = dict(params={'flavor': 'str'}, returns='Opt[Map[Tuple[PathId,Aspect],RVar]]',
        ensures=['implies(not is_none(result), some(result) == RVM(self, flavor))', 'implies(is_none(result), len(RVM(self, flavor)) == 0)'])
    INMAP = lambda fl: '(rvar in RVM(stmt, "%s").values())' % fl
    w.contract(PATHCTX, 'has_rvar', params={'stmt': 'Query', 'rvar': 'RVar'}, returns='bool', pure=True,
        ensures=['result == (%s or %s)' % (INMAP('normal'), INMAP('packed'))])

    # ---- A'': parameters the query text does not mention are still declared to PostgreSQL with their argmap number and type (the `__unused_vars` CTE of
    # clauses.fini_toplevel) -- exactly the PHYSICAL parameters (a tuple container has no number of its own; its decoded sub-parameters do)
    w.refclass('PRef', {'number': 'int'}); w.refclass('Stmt', {})
    w.ufunc('TNUM', ['Obj'], 'int')          # the parameter number a `($n)::type` result target refers to
    w.ext_funcs['scan_check_ctes'] = dict(params={'stmt': 'Stmt', 'check_ctes': 'Obj', 'ctx': 'Ctx'}, returns='none')
    w.ext_funcs['insert_ctes'] = dict(params={'stmt': 'Stmt', 'ctx': 'Ctx'}, returns='none')
    w.ext_funcs['ast_visitor.find_children'] = dict(params={'node': 'Stmt', 'type': 'Obj'}, returns='Seq[PRef]')
    w.ext_funcs['pgast.ResTarget'] = dict(params={'val': 'Obj'}, returns='Obj', ensures=['TNUM(result) == pnum(val)'])
    w.ext_funcs['pgast.CommonTableExpr'] = dict(params={'name': 'str', 'query': 'Obj'}, returns='Obj')
    w.ext_funcs['pgast.SelectStmt'] = dict(params={'target_list': 'Seq[Obj]'}, returns='Obj')
    w.ext_methods['Stmt.append_cte'] = dict(params={'cte': 'Obj'}, returns='none')
    w.classes['Env']['check_ctes'] = 'Obj'
    QP = 'ctx.env.query_params'
    IDXJ = 'ctx.argmap[%s[j].name].index' % QP
    w.contract(CLAUSES, 'fini_toplevel', params={'stmt': 'Stmt', 'ctx': 'Ctx'}, ghost={'own': 'Fun[int,int]'}, returns='none',
        requires=['forall(0, len(%s), lambda j: %s[j].name in ctx.argmap)' % (QP, QP), 'is_none(ctx.env.named_param_prefix)'],      # (positional parameters: the mode in which the CTE is built)
        ensures=['('
                 # coverage: every physical parameter that the text does not use is declared ...
                 'forall(0, len(%s), lambda j: implies(PHYS(%s[j]) and not (%s in used), exists(0, len(targets), lambda k: TNUM(targets[k]) == %s))) and '
                 # ... and nothing else is: each declared target belongs to an unused physical parameter (witness: own[k])
                 'forall(0, len(targets), lambda k: 0 <= own[k] and own[k] < len(%s) and PHYS(%s[own[k]]) and TNUM(targets[k]) == ctx.argmap[%s[own[k]].name].index))' % (QP, QP, IDXJ, IDXJ, QP, QP, QP)],
        raises={'KeyError': dict(only_if='False')},
        ghost_after={'targets.append(pgast.ResTarget(val=pgast.TypeCast(arg=pgast.ParamRef(number=pgparam.index), type_name=pgast.TypeName(name=pg_types.pg_type_from_ir_typeref(param.ir_type)))))':
                     [('own', 'fun_set(own, len(targets) - 1, i)')]},
        loops={0: dict(fingerprint='for param in ctx.env.query_params', index='i', invariant=[
                   'forall(0, i, lambda j: implies(PHYS(%s[j]) and not (%s in used), exists(0, len(targets), lambda k: TNUM(targets[k]) == %s)))' % (QP, IDXJ, IDXJ),
                   'forall(0, len(targets), lambda k: 0 <= own[k] and own[k] < i and PHYS(%s[own[k]]) and TNUM(targets[k]) == ctx.argmap[%s[own[k]].name].index)' % (QP, QP)])},
        hints={'var_types': {'targets': 'Seq[Obj]', 'used': 'Set[int]'}, 'ghost_out': ['own']})

def build_extract(w):
    """F (parameter consistency between the SQL text and what is reported to the client): compiler._extract_params files the descriptor of every user parameter under
    its LOGICAL position in the argument map (a tuple parameter takes several physical `$n` but one logical slot) -- view: an ordinary query (argmap given, no script)."""
    COMP = 'edb/server/compiler/compiler.py'; DBS = 'edb/server/compiler/dbstate.py'
    w.rec('DParam', [('name', 'str'), ('required', 'bool'), ('array_type_id', 'Opt[Obj]'), ('outer_idx', 'Opt[int]'), ('sub_params', 'Opt[Obj]')], DBS, 'Param')
    w.refclass('Src', {}); w.ext_methods['Src.first_extra'] = dict(params={}, returns='Opt[int]', ensures=['implies(not is_none(result), some(result) >= 0)'])
    w.refclass('XCtx', {'source': 'Opt[Src]', 'json_parameters': 'bool'})
    w.ext_methods['Obj.get'] = dict(params={'n': 'str'}, returns='Obj'); w.ext_methods['Obj.get_element_type'] = dict(params={'s': 'Obj'}, returns='Obj')
    w.classes['Obj']['id'] = 'Obj'
    LI = lambda k: 'some(argmap)[params[%s].name].logical_index' % k
    NAMES = 'forall(0, len(params), lambda a: forall(0, len(params), lambda b: implies(a != b, params[a].name != params[b].name)))'
    FILED = lambda hi, ita, op: ('implies(0 <= K and K < %s and not SUBP(params[K]) and %s - 1 < len(%s), not is_none(%s[%s - 1]) and some(%s[%s - 1]).name == params[K].name '
                                 'and not is_none(%s[%s - 1]) and some(%s[%s - 1])[0] == params[K].name)' % (hi, LI('K'), ita, ita, LI('K'), ita, LI('K'), op, LI('K'), op, LI('K')))
    w.contract(COMP, '_extract_params', params={'params': 'Seq[Param]', 'schema': 'Obj', 'argmap': 'Opt[Map[str,PgParam]]', 'script_info': 'Opt[Obj]', 'ctx': 'XCtx'},
        returns='Tuple[Seq[Opt[Tuple[str,Obj,bool]]],Seq[Opt[DParam]]]', ghost={'K': 'int'},
        requires=['not is_none(argmap)', 'is_none(script_info)', NAMES,
                  # what populate_argmap guarantees (its verified postcondition): every user parameter is mapped, logical slots are >= 1 and pairwise distinct
                  'forall(0, len(params), lambda j: implies(not SUBP(params[j]), params[j].name in some(argmap) and %s >= 1))' % LI('j'),
                  'forall(0, len(params), lambda a: forall(0, len(params), lambda b: implies(a != b and not SUBP(params[a]) and not SUBP(params[b]), %s != %s)))' % (LI('a'), LI('b'))],
        ensures=['len(result[0]) == len(result[1])', FILED('len(params)', 'result[1]', 'result[0]')],
        raises={'RuntimeError': {}, 'AssertionError': {}},
        loops={0: dict(fingerprint='for (idx, param) in enumerate(params)', index='i',
                       invariant=['len(oparams) == len(in_type_args)', 'len(oparams) == (user_params if user_params > 0 else 0)', FILED('i', 'in_type_args', 'oparams')])},
        abstract={'first_param = next(iter(params)) if params else None': dict(assigns={'first_param': 'Opt[Param]'}),
                  'has_named_params = first_param and (not first_param.name.isdecimal())': dict(assigns={'has_named_params': 'bool'}),
                  'oparams: list[Optional[tuple[str, s_obj.Object, bool]]] = [None] * user_params':
                      dict(assigns={'oparams': 'Seq[Opt[Tuple[str,Obj,bool]]]'}, ensures=['len(oparams) == (user_params if user_params > 0 else 0)', 'forall(0, len(oparams), lambda j: is_none(oparams[j]))']),
                  'in_type_args: list[Optional[dbstate.Param]] = [None] * user_params':
                      dict(assigns={'in_type_args': 'Seq[Opt[DParam]]'}, ensures=['len(in_type_args) == (user_params if user_params > 0 else 0)', 'forall(0, len(in_type_args), lambda j: is_none(in_type_args[j]))']),
                  'if not script_info and (not has_named_params) and (str(idx) != param.name):': dict(assigns={}, raises=['RuntimeError']),
                  'if param.sub_params:': dict(assigns={'sub_params': 'Opt[Obj]'}, raises=['AssertionError'])},
        hints={'var_types': {'outer_mapping': 'Opt[Map[str,int]]'}})
    return w

def build_registry(w):
    """H (scoping, the registry every column reference is resolved through): pathctx.put_path_var / put_path_var_if_not_exists -- a (path, aspect) of a relation is bound at
    most once unless the caller forces it: a second registration is refused (KeyError) and changes nothing, `_if_not_exists` keeps the first binding, every other entry and
    every other relation are untouched.  The namespace is a dict held by reference (the function stores through a local alias)."""
    w.refdict('NSD', 'Map[Tuple[PathId,Aspect],Obj]')
    w.refclass('Rel', {'path_namespace': 'NSD', 'packed_path_namespace': 'Opt[NSD]'})
    NS = 'rel.path_namespace'
    PUT = ['(path_id, aspect) in %s and %s[(path_id, aspect)] == var' % (NS, NS), 'map_same_except(%s.m, old(%s.m), (path_id, aspect))' % (NS, NS), 'heap_same_except("NSD.m", %s)' % NS]
    SAME = ['map_same(%s.m, old(%s.m))' % (NS, NS), 'heap_same("NSD.m")']
    w.contract(PATHCTX, 'put_path_var', params={'rel': 'Rel', 'path_id': 'PathId', 'var': 'Obj', 'aspect': 'Aspect', 'flavor': 'str', 'force': 'bool'}, returns='none',
        requires=['flavor != "packed"'], modifies=['NSD.m'],
        ensures=PUT + ['force or not old((path_id, aspect) in %s)' % NS],
        raises={'KeyError': dict(only_if='(path_id, aspect) in rel.path_namespace and not force', ensures=SAME)})
    w.contract(PATHCTX, 'put_path_var_if_not_exists', params={'rel': 'Rel', 'path_id': 'PathId', 'var': 'Obj', 'flavor': 'str', 'aspect': 'Aspect'}, returns='none',
        requires=['flavor != "packed"'], modifies=['NSD.m'],
        ensures=['implies(old((path_id, aspect) in %s), %s)' % (NS, ' and '.join(SAME)), 'implies(not old((path_id, aspect) in %s), %s)' % (NS, ' and '.join(PUT))],
        hints={'use_contract': ['put_path_var']})
    # range variables registered for a path: put / put-if-absent / lookups (an IDENTITY lookup falls back to the VALUE binding; a missing binding is a LookupError, never a
    # range variable of another path)
    w.refdict('RVD', 'Map[Tuple[PathId,Aspect],Obj]')
    w.class_src['PathId'] = ('edb/ir/pathid.py', 'PathId')      # (so that `assert isinstance(path_id, irast.PathId)` is decided: values of this type are PathIds)
    w.refclass('Stm', {'path_rvar_map': 'RVD', 'path_packed_rvar_map': 'Opt[RVD]'})
    w.ext_methods['Stm.get_rvar_map'] = dict(params={'flavor': 'str'}, returns='RVD', requires=['flavor == "normal"'], returns_expr='self.path_rvar_map')
    w.ext_methods['Stm.maybe_get_rvar_map'] = dict(params={'flavor': 'str'}, returns='Opt[RVD]', requires=['flavor == "normal"'], returns_expr='self.path_rvar_map')
    w.trusted.append('pgast.Query.get_rvar_map / maybe_get_rvar_map (flavor normal) return the statement\'s own path_rvar_map dict')
    RV = 'stmt.path_rvar_map'
    RPUT = ['(path_id, aspect) in %s and %s[(path_id, aspect)] == rvar' % (RV, RV), 'map_same_except(%s.m, old(%s.m), (path_id, aspect))' % (RV, RV), 'heap_same_except("RVD.m", %s)' % RV]
    RSAME = ['map_same(%s.m, old(%s.m))' % (RV, RV), 'heap_same("RVD.m")']
    PRM = {'stmt': 'Stm', 'path_id': 'PathId', 'rvar': 'Obj', 'flavor': 'str', 'aspect': 'Aspect'}
    w.contract(PATHCTX, 'put_path_rvar', params=PRM, returns='none', requires=['flavor == "normal"'], modifies=['RVD.m'], ensures=RPUT, raises={'AssertionError': dict(ensures=RSAME)})
    w.contract(PATHCTX, 'put_path_rvar_if_not_exists', params=PRM, returns='none', requires=['flavor == "normal"'], modifies=['RVD.m'],
        ensures=['implies(old((path_id, aspect) in %s), %s)' % (RV, ' and '.join(RSAME)), 'implies(not old((path_id, aspect) in %s), %s)' % (RV, ' and '.join(RPUT))],
        raises={'AssertionError': dict(ensures=RSAME)}, hints={'use_contract': ['put_path_rvar']})
    LK = {'stmt': 'Stm', 'path_id': 'PathId', 'aspect': 'Aspect', 'flavor': 'str'}
    FOUND = ('((path_id, aspect) in %s and result_v == %s[(path_id, aspect)]) or (not ((path_id, aspect) in %s) and aspect == Aspect.IDENTITY and (path_id, Aspect.VALUE) in %s '
             'and result_v == %s[(path_id, Aspect.VALUE)])' % (RV, RV, RV, RV, RV))
    MISSING = 'not ((path_id, aspect) in %s) and not (aspect == Aspect.IDENTITY and (path_id, Aspect.VALUE) in %s)' % (RV, RV)
    w.contract(PATHCTX, 'maybe_get_path_rvar', params=LK, returns='Opt[Obj]', requires=['flavor == "normal"'],
        ensures=['implies(not is_none(result), %s)' % FOUND.replace('result_v', 'some(result)'), 'implies(is_none(result), %s)' % MISSING])
    w.contract(PATHCTX, 'get_path_rvar', params=LK, returns='Obj', requires=['flavor == "normal"'],
        ensures=[FOUND.replace('result_v', 'result')], raises={'LookupError': dict(only_if=MISSING)}, hints={'use_contract': ['maybe_get_path_rvar']})
    return w

def build():
    w = World('C13')
    w.refclass('Obj', {}, universal=True)
    w.rec('Param', [('name', 'str'), ('required', 'bool'), ('sub_params', 'Opt[Obj]'), ('ir_type', 'Obj'), ('schema_type', 'Obj')], IRAST, 'Param')
    w.rec('Global', [('name', 'str'), ('required', 'bool'), ('has_present_arg', 'bool')], IRAST, 'Global')
    w.rec('PgParam', [('index', 'int'), ('required', 'bool'), ('logical_index', 'int')], PGAST, 'Param')
    w.refclass('Env', {'named_param_prefix': 'Opt[Obj]', 'query_params': 'Seq[Param]'})
    w.refclass('Ctx', {'argmap': 'Map[str,PgParam]', 'env': 'Env'})
    w.trusted.append('ctx.argmap (an OrderedDict) modelled as an unordered map: only its content is specified here')
    w.contract(IRAST, 'Param.is_sub_param', params={'self': 'Param'}, returns='bool', pure=True,
               ensures=['result == (str_prefixof("__edb_decoded_", self.name) and str_suffixof("__", self.name))'])
    w.py_methods = getattr(w, 'py_methods', {})
    # eligibility and classes of parameters
    w.define('ELIG(p)', 'is_none(ctx.env.named_param_prefix) or p.name.isdecimal()')
    w.define('EXTRA(p)', 'str_prefixof("__edb_arg_", p.name)')
    w.define('PHYS(p)', 'is_none(p.sub_params)')
    w.define('SUBP(p)', 'str_prefixof("__edb_decoded_", p.name) and str_suffixof("__", p.name)')
    # DONE(j, k, i): parameter j has been mapped when the outer loop is in pass k (0: ordinary, 1: extra, 2: finished) and the inner loop at position i
    w.define('DONE(j, k, i)', 'ELIG(params[j]) and ((not EXTRA(params[j]) and (k >= 1 or j < i)) or (EXTRA(params[j]) and (k >= 2 or (k == 1 and j < i))))')
    NAMES = ['forall(0, len(params), lambda a: forall(0, len(params), lambda b: implies(a != b, params[a].name != params[b].name)))']
    def pinv(k, i):
        D = lambda j: 'DONE(%s, %s, %s)' % (j, k, i)
        return [
            'physical_index >= 1', 'logical_index >= 1',
            'forall(0, len(params), lambda j: implies(%s, params[j].name in ctx.argmap and 1 <= ctx.argmap[params[j].name].index and ctx.argmap[params[j].name].index <= physical_index'
            ' and implies(PHYS(params[j]), ctx.argmap[params[j].name].index < physical_index)'
            ' and 1 <= ctx.argmap[params[j].name].logical_index and ctx.argmap[params[j].name].logical_index <= logical_index'
            ' and implies(not SUBP(params[j]), ctx.argmap[params[j].name].logical_index < logical_index)))' % D('j'),
            # distinct physical slots / distinct logical slots
            'forall(0, len(params), lambda a: forall(0, len(params), lambda b: implies(a != b and %s and %s and PHYS(params[a]) and PHYS(params[b]),'
            ' ctx.argmap[params[a].name].index != ctx.argmap[params[b].name].index)))' % (D('a'), D('b')),
            'forall(0, len(params), lambda a: forall(0, len(params), lambda b: implies(a != b and %s and %s and not SUBP(params[a]) and not SUBP(params[b]),'
            ' ctx.argmap[params[a].name].logical_index != ctx.argmap[params[b].name].logical_index)))' % (D('a'), D('b')),
            # no gaps: every slot below the counters is taken by a mapped parameter
            'forall(1, physical_index, lambda n: 0 <= slot[n] and slot[n] < len(params) and %s and PHYS(params[slot[n]]) and ctx.argmap[params[slot[n]].name].index == n)' % D('slot[n]'),
            'forall(1, logical_index, lambda n: 0 <= lslot[n] and lslot[n] < len(params) and %s and not SUBP(params[lslot[n]]) and ctx.argmap[params[lslot[n]].name].logical_index == n)' % D('lslot[n]'),
        ]
    GNAMES = ['forall(0, len(globals), lambda a: forall(0, len(globals), lambda b: implies(a != b, globals[a].name != globals[b].name and globals[a].name != globals[b].name + "present__"'
              ' and globals[a].name + "present__" != globals[b].name + "present__")))',
              'forall(0, len(globals), lambda a: forall(0, len(params), lambda b: globals[a].name != params[b].name and globals[a].name + "present__" != params[b].name))',
              'forall(0, len(globals), lambda a: globals[a].name != globals[a].name + "present__")']
    IDX = lambda e: 'ctx.argmap[%s].index' % e
    PFACTS = [
        'forall(0, len(params), lambda j: implies(ELIG(params[j]), params[j].name in ctx.argmap and 1 <= ctx.argmap[params[j].name].index))',
        'forall(0, len(params), lambda a: forall(0, len(params), lambda b: implies(a != b and ELIG(params[a]) and ELIG(params[b]) and PHYS(params[a]) and PHYS(params[b]),'
        ' ctx.argmap[params[a].name].index != ctx.argmap[params[b].name].index)))',
        'forall(0, len(params), lambda a: forall(0, len(params), lambda b: implies(a != b and ELIG(params[a]) and ELIG(params[b]) and not SUBP(params[a]) and not SUBP(params[b]),'
        ' ctx.argmap[params[a].name].logical_index != ctx.argmap[params[b].name].logical_index)))',
        # no gaps: below the slot of a physical parameter every slot is taken by a physical parameter
        # (ghost witness: slot[n] / lslot[n] is the position in `params` of the parameter that owns physical / logical slot n)
        'forall(0, len(params), lambda j: implies(ELIG(params[j]), forall(1, ctx.argmap[params[j].name].index, lambda n: '
        '0 <= slot[n] and slot[n] < len(params) and ELIG(params[slot[n]]) and PHYS(params[slot[n]]) and ctx.argmap[params[slot[n]].name].index == n)))',
        'forall(0, len(params), lambda j: implies(ELIG(params[j]) and not SUBP(params[j]), forall(1, ctx.argmap[params[j].name].logical_index, lambda n: '
        '0 <= lslot[n] and lslot[n] < len(params) and ELIG(params[lslot[n]]) and not SUBP(params[lslot[n]]) and ctx.argmap[params[lslot[n]].name].logical_index == n)))']
    GDONE = lambda hi: [
        'forall(0, %s, lambda a: globals[a].name in ctx.argmap and ctx.argmap[globals[a].name].logical_index == -1'
        ' and implies(globals[a].has_present_arg, (globals[a].name + "present__") in ctx.argmap and ctx.argmap[globals[a].name + "present__"].index == ctx.argmap[globals[a].name].index + 1))' % hi,
        # a global's slot (and its companion's) lies above every parameter's slot ...
        'forall(0, %s, lambda a: forall(0, len(params), lambda j: implies(ELIG(params[j]), ctx.argmap[params[j].name].index <= ctx.argmap[globals[a].name].index'
        ' and implies(PHYS(params[j]), ctx.argmap[params[j].name].index < ctx.argmap[globals[a].name].index))))' % hi,
        # ... and the globals' slots (with companions) are strictly increasing: no two of them collide
        'forall(0, %s, lambda a: forall(0, %s, lambda b: implies(a < b, ctx.argmap[globals[a].name].index + (1 if globals[a].has_present_arg else 0) < ctx.argmap[globals[b].name].index)))' % (hi, hi)]
    w.contract(CLAUSES, 'populate_argmap', params={'params': 'Seq[Param]', 'globals': 'Seq[Global]', 'ctx': 'Ctx'}, returns='none',
        requires=NAMES + GNAMES + ['len(ctx.argmap) == 0'], modifies=['Ctx.argmap'], ghost={'slot': 'Fun[int,int]', 'lslot': 'Fun[int,int]'},
        hints=dict(ghost_out=['slot', 'lslot']),
        ghost_after={'ctx.argmap[param.name] = pgast.Param(index=physical_index, logical_index=logical_index, required=param.required)':
                     [('slot', 'fun_set(slot, physical_index, i)'), ('lslot', 'fun_set(lslot, logical_index, i)')]},
        ensures=PFACTS + GDONE('len(globals)'),
        loops={0: dict(fingerprint='for map_extra in (False, True)', index='k', invariant=pinv('k', '0')),
               1: dict(fingerprint='for param in params', index='i', invariant=pinv('k', 'i')),
               2: dict(fingerprint='for param in globals', index='g', invariant=PFACTS + GDONE('g') + [
                   'physical_index >= 1',
                   'forall(0, len(params), lambda j: implies(ELIG(params[j]), ctx.argmap[params[j].name].index <= physical_index and implies(PHYS(params[j]), ctx.argmap[params[j].name].index < physical_index)))',
                   'forall(0, g, lambda a: ctx.argmap[globals[a].name].index + (1 if globals[a].has_present_arg else 0) < physical_index)'])})
    # ---- A': the number written into the SQL text for a parameter reference is the argmap entry
    w.rec('IrParameter', [('name', 'str'), ('required', 'bool'), ('typeref', 'Obj')], IRAST, 'Parameter')
    w.ufunc('pnum', ['Obj'], 'int')        # the PostgreSQL parameter number an expression tree refers to (through type casts)
    w.ufunc('is_paramref', ['Obj'], 'bool')
    w.trusted.append('pgast node constructors are outside reach: ParamRef(number=n) is an object r with pnum(r) == n; TypeCast(arg=a) refers to the same parameter as a')
    w.ext_funcs['pgast.ParamRef'] = dict(params={'number': 'int', 'nullable': 'bool'}, optional=('nullable',), returns='Obj', ensures=['pnum(result) == number', 'is_paramref(result)'])
    w.ext_funcs['pgast.TypeCast'] = dict(params={'arg': 'Obj', 'type_name': 'Obj'}, returns='Obj', ensures=['pnum(result) == pnum(arg)', 'is_paramref(result) == is_paramref(arg)'])
    w.ext_funcs['pgast.TypeName'] = dict(params={'name': 'Obj'}, returns='Obj')
    w.ext_funcs['pgast.ColumnRef'] = dict(params={'name': 'Obj', 'nullable': 'bool'}, returns='Obj', ensures=['not is_paramref(result)'])
    w.ext_funcs['pg_types.pg_type_from_ir_typeref'] = dict(params={'t': 'Obj'}, returns='Obj')
    w.ext_funcs['irtyputils.needs_custom_serialization'] = dict(params={'t': 'Obj'}, returns='bool')
    w.ext_funcs['irtyputils.is_array'] = dict(params={'t': 'Obj'}, returns='bool')
    w.ext_funcs['relgen.process_encoded_param'] = dict(params={'param': 'Param', 'ctx': 'Ctx'}, returns='Obj', ensures=['not is_paramref(result)'])
    w.classes['Obj'].update({'subtypes': 'Seq[Obj]', 'real_base_type': 'Obj', 'custom_sql_serialization': 'Opt[str]'})
    w.contract(EXPR, 'compile_Parameter', params={'expr': 'IrParameter', 'ctx': 'Ctx'}, returns='Obj',
        requires=['forall(0, len(ctx.env.query_params), lambda j: implies(ELIG(ctx.env.query_params[j]), ctx.env.query_params[j].name in ctx.argmap))'],
        # whenever a PostgreSQL parameter reference is emitted, its number is the physical index the argmap reports for that name
        ensures=['implies(is_paramref(result), expr.name in ctx.argmap and pnum(result) == ctx.argmap[expr.name].index)'],
        raises={'KeyError': dict(only_if='not (expr.name in ctx.argmap)'), 'AssertionError': {}, 'IndexError': {}},
        hints=dict(var_types={'params': 'Seq[Param]'}))
    # second view without the quantified precondition (which only serves the KeyError clause): the numbering clause alone, decided both ways
    w.contract(EXPR, 'compile_Parameter', view='ground', params={'expr': 'IrParameter', 'ctx': 'Ctx'}, returns='Obj',
        ensures=['implies(is_paramref(result), expr.name in ctx.argmap and pnum(result) == ctx.argmap[expr.name].index)'],
        raises={'KeyError': {}, 'AssertionError': {}, 'IndexError': {}}, hints=dict(var_types={'params': 'Seq[Param]'}))
    # ---- B: aliases
    w.refclass('Counter', {'counts': 'Fun[str,int]'}, COMMON, 'AliasGenerator')
    w.trusted.append('collections.defaultdict(int) modelled as a total map str -> int (missing keys read 0)')
    w.contract(COMMON, 'SimpleCounter.nextval', params={'self': 'Counter', 'name': 'str'}, returns='int', modifies=['Counter.counts'],
        ensures=['result == old(self.counts[name]) + 1', 'self.counts[name] == result', 'forall(str, lambda k: implies(k != name, self.counts[k] == old(self.counts[k])))',
                 'heap_same_except("Counter.counts", self)'])
    w.contract(COMMON, 'AliasGenerator.get', params={'self': 'Counter', 'hint': 'str'}, ghost={'H': 'str'}, returns='str', modifies=['Counter.counts'],
        hints=dict(ghost_out=['H']), ghost_after={'idx = self.nextval(hint)': [('H', 'hint')]},
        # the alias is a function of the counter state and the hint only:  <normalised hint>~<count of that hint + 1>
        ensures=['result == H + "~" + int_to_str(old(self.counts)[H] + 1)', 'self.counts[H] == old(self.counts)[H] + 1',
                 'forall(str, lambda k: implies(k != H, self.counts[k] == old(self.counts[k])))',
                 # the normalised hint: "v" for the empty hint, else the hint without a trailing ~digits (it never ends in ~digits itself)
                 'implies(hint == "", H == "v")', 'str_prefixof(H, hint) or hint == ""'])
    build_setop(w)
    build_extract(w)
    build_registry(w)
    return w

def scenarios(tier, seed, repo_root, outdir):
    """bounded stand-in: the real populate_argmap on every small parameter / global list; the real AliasGenerator on random hint sequences"""
    import json, subprocess
    here = os.path.dirname(os.path.abspath(__file__)); root = os.path.dirname(os.path.dirname(here))
    out = os.path.join(outdir, 'scenario_out.json')
    if os.path.exists(out): os.unlink(out)
    env = dict(os.environ); env['PYTHONPATH'] = '%s:%s' % (os.path.join(root, 'stubs'), repo_root); env['VERIF_REPO'] = repo_root
    p = subprocess.run(['/venv/bin/python', os.path.join(here, 'scenario.py'), str(seed), '3' if tier == 'quick' else '4', out], capture_output=True, text=True, env=env, cwd=repo_root, timeout=3000)
    if not os.path.exists(out): raise RuntimeError('scenario runner failed: ' + (p.stderr or p.stdout)[-2000:])
    r = json.load(open(out))
    if not r['failure'] and not (r.get('extract', {}).get('runs', 0) > 20): raise RuntimeError('_extract_params explorer is vacuous: %r' % r.get('extract'))
    # set-operation output columns: the real _get_path_var_in_setop on all small UNION trees (see scenario_setop.py)
    out2 = os.path.join(outdir, 'scenario_setop_out.json')
    if os.path.exists(out2): os.unlink(out2)
    p2 = subprocess.run(['/venv/bin/python', os.path.join(here, 'scenario_setop.py'), str(seed), '3' if tier == 'quick' else '4', out2], capture_output=True, text=True, env=env, cwd=repo_root, timeout=3000)
    if not os.path.exists(out2): raise RuntimeError('set-operation scenario runner failed: ' + (p2.stderr or p2.stdout)[-2000:])
    r2 = json.load(open(out2))
    if not r2['failure'] and not (r2['stats']['returned'] > 0 and r2['stats']['lookup_errors'] > 0 and r2['stats']['with_view_path_id_map'] > 0 and r2['stats']['leftmost_N_later_P'] > 0):
        raise RuntimeError('set-operation explorer is vacuous: %r' % r2['stats'])
    fail = r['failure'] or (dict(function='pathctx._get_path_var_in_setop', **r2['failure']) if r2['failure'] else None)
    return dict(evaluations=r['argmaps'] + r['alias_runs'] + r2['cases'], failure=fail,
                label='%d (parameter list, globals, naming mode) combinations through the real populate_argmap (and, without globals, the real fini_toplevel and compiler._extract_params); %d hint sequences through two real AliasGenerators; '
                      '%d UNION trees (2..%s arms, each arm providing the path or not, with / without a view path-id map, 3 aspects) through the real _get_path_var_in_setop (bounded)'
                      % (r['argmaps'], r['alias_runs'], r2['cases'], '3' if tier == 'quick' else '4'),
                clause='physical slots form 1..N, logical slots 1..L, ordinary before extracted parameters; every user parameter described at its logical position; aliases deterministic and pairwise distinct; '
                       'a set operation exposes the path under the column name of its leftmost arm, arms stay balanced, a failed lookup leaves no placeholder behind')


def extra_obligations(w, tier, seed):
    """D (parameter consistency, AST obligation): the list of detached parameter types handed out with the SQL (it becomes the argument list of the cached SQL
    function) is ordered by the PHYSICAL parameter index of the argument map -- the same numbers compile_Parameter writes into the text (A')."""
    out = []
    def ob(oid, clause, ok, where, undecided=False):
        return dict(id=oid, kind='shape', clause=clause, tag='property', paths=1, status='discharged' if ok else ('unknown' if undecided else 'failed'), backend='ast-scan', seconds=0.0,
                    model=None if ok else {'offending_source_location': where}, where=where, function='ast-scan')
    fn, _ = repo.find_def('edb/pgsql/compiler/__init__.py', 'compile_ir_to_sql_tree')
    key_ok = None; order_ok = None; where = []
    for n in ast.walk(fn):
        if isinstance(n, ast.Assign) and len(n.targets) == 1 and isinstance(n.targets[0], ast.Name):
            if n.targets[0].id == 'detached_params_idx' and isinstance(n.value, ast.DictComp):
                k = ast.unparse(n.value.key); key_ok = (k == 'ctx.argmap[param.name].index'); where.append('line %d: keyed by %s' % (n.lineno, k))
            if n.targets[0].id == 'detached_params':
                v = n.value; txt = ast.unparse(v); where.append('line %d: detached_params = %s' % (n.lineno, txt))
                order_ok = (isinstance(v, ast.ListComp) and len(v.generators) == 1 and not v.generators[0].ifs
                            and ast.unparse(v.generators[0].iter) == 'sorted(detached_params_idx.items())'
                            and isinstance(v.generators[0].target, ast.Tuple) and len(v.generators[0].target.elts) == 2
                            and ast.unparse(v.elt) == ast.unparse(v.generators[0].target.elts[1]))
    und = key_ok is None or order_ok is None
    out.append(ob('scan/detached-params/ordered-by-physical-index', 'compile_ir_to_sql_tree: detached_params lists the parameter types in the order of ctx.argmap[name].index '
                  '(a dict keyed by that index, read out through sorted(...items()))', bool(key_ok and order_ok), '; '.join(where) or 'shape not recognised', undecided=und and not (key_ok is False or order_ok is False)))
    # E (scoping, AST obligation): LATERAL visibility.  Whether a range variable may refer to its siblings in FROM is decided by the caller and handed down as `lateral`;
    #   in edb/pgsql/compiler/relctx.py every function that takes `lateral` hands it on to the builder call that produces what it returns (a call in a `return`, or an assignment to
    #   the returned variable outside any loop).  Dropping it at one level gives a sub-select that refers to a sibling it cannot see.
    REL = 'edb/pgsql/compiler/relctx.py'
    BUILDERS = {'rvar_for_rel', 'range_from_queryset', 'range_for_typeref', 'range_for_material_objtype', 'new_primitive_rvar', 'new_root_rvar', 'new_free_object_rvar',
                'new_rel_rvar', 'RangeSubselect'}
    bad = []; sites = 0; funcs = 0
    for fn in [n for n in repo.module(REL).tree.body if isinstance(n, ast.FunctionDef)]:
        if 'lateral' not in [a.arg for a in fn.args.args + fn.args.kwonlyargs]: continue
        funcs += 1
        retvars = {r.value.id for r in ast.walk(fn) if isinstance(r, ast.Return) and isinstance(r.value, ast.Name)}
        def visit(body, in_loop):
            nonlocal sites
            for st in body:
                call = None
                if isinstance(st, ast.Return) and isinstance(st.value, ast.Call): call = st.value
                elif isinstance(st, ast.Assign) and len(st.targets) == 1 and isinstance(st.targets[0], ast.Name) and st.targets[0].id in retvars and isinstance(st.value, ast.Call) and not in_loop:
                    call = st.value
                if call is not None and ast.unparse(call.func).split('.')[-1] in BUILDERS:
                    sites += 1
                    kw = {k.arg: ast.unparse(k.value) for k in call.keywords}
                    if kw.get('lateral') != 'lateral': bad.append('%s line %d: %s(... lateral=%s)' % (fn.name, call.lineno, ast.unparse(call.func), kw.get('lateral')))
                for fld in ('body', 'orelse', 'finalbody'):
                    sub = getattr(st, fld, None)
                    if isinstance(sub, list) and not isinstance(st, (ast.FunctionDef, ast.ClassDef)): visit(sub, in_loop or isinstance(st, (ast.For, ast.While)))
                if isinstance(st, ast.Try):
                    for h in st.handlers: visit(h.body, in_loop)
        visit(fn.body, False)
    # F (scoping, shape): relctx.unpack_var.walk recurses into a tuple's elements BEFORE it creates the FROM item that defines the element columns (`_tN`); that item must go
    #   to the FRONT of the FROM list (`from_clause.insert(0, ...)`): a function in FROM only sees the items to its left, and the nested items unnest columns the outer one defines
    fn_u, _ = repo.find_def(REL, 'unpack_var')
    walks = [n for n in ast.walk(fn_u) if isinstance(n, ast.FunctionDef) and n.name == 'walk']
    adds = [n for w_ in walks for n in ast.walk(w_) if isinstance(n, ast.Call) and isinstance(n.func, ast.Attribute) and n.func.attr in ('insert', 'append', 'extend')
            and ast.unparse(n.func.value).endswith('from_clause')]
    ok_u = len(walks) == 1 and len(adds) >= 1 and all(n.func.attr == 'insert' and n.args and ast.unparse(n.args[0]) == '0' for n in adds)
    out.append(ob('scan/unpack_var/outer-item-first', 'relctx.unpack_var.walk adds every range function at the front of from_clause (insert(0, ..)): the item defining the tuple columns precedes the nested ones',
                  ok_u, '; '.join('line %d: %s' % (n.lineno, ast.unparse(n)[:60]) for n in adds) or 'walk() not found', undecided=(len(walks) != 1 or not adds)))
    # G (determinism, shape): the grouping keys collected by edgeql/desugar_group.collect_grouping_atoms are iterated by pgsql/compiler/group.py to order the key columns,
    #   grouping(...) arguments and the ARRAY of key names: the accumulator must be an ORDERED set (a plain set gives hash order, which differs from process to process)
    fn_g, _ = repo.find_def('edb/edgeql/desugar_group.py', 'collect_grouping_atoms')
    inits = [ast.unparse(n.value) for n in ast.walk(fn_g) if isinstance(n, (ast.Assign, ast.AnnAssign)) and n.value is not None
             and ast.unparse(n.targets[0] if isinstance(n, ast.Assign) else n.target) == 'atoms']
    rets = [ast.unparse(n.value) for n in ast.walk(fn_g) if isinstance(n, ast.Return) and n.value is not None and isinstance(n.value, ast.Name)]
    ok_g = inits == ['ordered.OrderedSet()'] and rets == ['atoms']
    out.append(ob('scan/collect_grouping_atoms/ordered', 'desugar_group.collect_grouping_atoms accumulates the grouping keys in an ordered.OrderedSet and returns it',
                  ok_g, 'atoms = %s; returns %s' % (inits, rets), undecided=not (inits and rets) or not any('set' in i.lower() for i in inits)))
    out.append(ob('scan/relctx/lateral-handed-on', 'relctx.py: every function taking `lateral` passes lateral=lateral to the range-variable builder whose result it returns',
                  funcs >= 5 and sites >= 10 and not bad, '; '.join(bad[:4]) or '%d functions, %d builder calls' % (funcs, sites), undecided=(funcs < 5 or sites < 10) and not bad))
    # G (path resolution, AST obligation): pathctx.map_path_id rewrites a path id with the LONGEST matching outer prefix of the view map -- the candidates are tried
    #   in the order of decreasing prefix length and the first hit wins.  Iterating the map in insertion order resolves `(A).b.c` through the entry for `(A)` when an entry
    #   for `(A).b` exists, and the column is looked up under the wrong inner path.
    fn, _ = repo.find_def('edb/pgsql/compiler/pathctx.py', 'map_path_id')
    loops = [n for n in ast.walk(fn) if isinstance(n, ast.For)]
    st = None; where = 'no loop over the map found'
    if len(loops) == 1:
        it = loops[0].iter; src = it
        if isinstance(it, ast.Name):
            asg = [n for n in ast.walk(fn) if isinstance(n, ast.Assign) and len(n.targets) == 1 and isinstance(n.targets[0], ast.Name) and n.targets[0].id == it.id]
            src = asg[0].value if len(asg) == 1 else None
        where = 'line %d: for ... in %s' % (loops[0].lineno, ast.unparse(src) if src is not None else ast.unparse(it))
        if src is not None:
            txt = ast.unparse(src)
            if isinstance(src, ast.Call) and ast.unparse(src.func) == 'sorted':
                kw = {k.arg: k.value for k in src.keywords}
                key = kw.get('key'); rev = kw.get('reverse')
                key_ok = (isinstance(key, ast.Lambda) and len(key.args.args) == 1
                          and ast.unparse(key.body) in ('len(%s[0])' % key.args.args[0].arg,))
                if key_ok and isinstance(rev, ast.Constant) and rev.value is True and ast.unparse(src.args[0]) == 'path_id_map.items()': st = True
                elif key_ok and (rev is None or (isinstance(rev, ast.Constant) and rev.value is False)): st = False
            elif txt in ('path_id_map.items()', 'path_id_map', 'list(path_id_map.items())', 'reversed(path_id_map.items())'): st = False
    out.append(ob('scan/map_path_id/longest-prefix-first', 'pathctx.map_path_id tries the prefixes of the view map in the order of decreasing length (sorted(path_id_map.items(), key=len of the outer id, reverse=True)) '
                  'and stops at the first hit', st is True, where, undecided=st is None))
    # H (scoping, AST obligation): relctx._lateral_union_join injects into EVERY arm of the right-hand UNION the join condition built from the columns of THAT arm:
    #   what is written into `component.where_clause` is computed inside the iteration for this component (no value carried over from the previous arm, whose
    #   column references belong to another sub-select).
    fn, _ = repo.find_def('edb/pgsql/compiler/relctx.py', '_lateral_union_join')
    st = None; where = 'loop over each_query_in_set not found'
    for lp in [n for n in fn.body if isinstance(n, ast.For) and 'each_query_in_set' in ast.unparse(n.iter)]:
        comp = ast.unparse(lp.target)
        sinks = [n for n in ast.walk(lp) if isinstance(n, ast.Assign) and any(ast.unparse(t) == comp + '.where_clause' for t in n.targets)]
        flow = set()
        for sk in sinks: flow |= {x.id for x in ast.walk(sk.value) if isinstance(x, ast.Name) and isinstance(x.ctx, ast.Load)}
        assigned_in = {x.id for x in ast.walk(lp) if isinstance(x, ast.Name) and isinstance(x.ctx, ast.Store)}
        carried = []
        for nm in sorted((flow & assigned_in) - {comp}):
            first = next((s_ for s_ in lp.body if any(isinstance(x, ast.Name) and x.id == nm for x in ast.walk(s_))), None)
            fresh_ = (isinstance(first, (ast.Assign, ast.AnnAssign)) and ast.unparse(first.targets[0] if isinstance(first, ast.Assign) else first.target) == nm
                      and first.value is not None and not any(isinstance(x, ast.Name) and x.id == nm for x in ast.walk(first.value)))
            if not fresh_: carried.append('%s (first touched at line %d: %s)' % (nm, first.lineno, ast.unparse(first).splitlines()[0][:80]))
        if sinks:
            st = not carried; where = 'line %d: ' % lp.lineno + ('; '.join(carried) if carried else 'every value written to %s.where_clause is initialised per arm' % comp)
    out.append(ob('scan/_lateral_union_join/condition-per-arm', 'relctx._lateral_union_join: the condition added to an arm of the UNION is (re)initialised inside the iteration for that arm', st is True, where, undecided=st is None))
    return out
