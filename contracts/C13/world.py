"""C13 sidecar contracts (fragment): parameter numbering and alias generation of the SQL compiler.

Within reach of per-function contracts (and decided here for every parameter list / every call history):
  A   edb/pgsql/compiler/clauses.py populate_argmap: every eligible query parameter and every global gets an entry; the
      *physical* indexes ($n) of parameters that own a PostgreSQL parameter (no sub_params) and of globals and their
      "present" companions are pairwise distinct and fill 1..N without gaps; the *logical* indexes of the non-sub
      parameters are pairwise distinct and fill 1..L.  (The reported argmap and the numbers in the SQL text both come
      from this map: expr.compile_Parameter is proved to emit exactly ctx.argmap[name].index.)
  B   edb/common/compiler.py AliasGenerator.get / SimpleCounter.nextval: the alias is a function of (counter state, hint)
      -- no clock, id() or hash order -- of the form <hint sans ~digits>~<count>, and the counter of that hint grows by
      one (so two aliases drawn for one hint differ).
Not within reach (stated, not claimed): that every column / range-variable reference of the emitted SQL is in scope
(needs the whole pgsql compiler and PostgreSQL's scoping rules over arbitrary IR), and byte-identical recompilation of
whole queries (needs absence of hash-order dependence across the compiler).
"""
import ast, os
from pyvc.engine import World
from pyvc import repo

CLAUSES = 'edb/pgsql/compiler/clauses.py'
EXPR = 'edb/pgsql/compiler/expr.py'
COMMON = 'edb/common/compiler.py'
IRAST = 'edb/ir/ast.py'
PGAST = 'edb/pgsql/ast.py'

def conj(cs): return ' and '.join('(%s)' % c for c in cs)

def build():
    w = World('C13')
    w.refclass('Obj', {}, universal=True)
    w.rec('Param', [('name', 'str'), ('required', 'bool'), ('sub_params', 'Opt[Obj]')], IRAST, 'Param')
    w.rec('Global', [('name', 'str'), ('required', 'bool'), ('has_present_arg', 'bool')], IRAST, 'Global')
    w.rec('PgParam', [('index', 'int'), ('required', 'bool'), ('logical_index', 'int')], PGAST, 'Param')
    w.refclass('Env', {'named_param_prefix': 'Opt[Obj]', 'query_params': 'Seq[Param]'})
    w.refclass('Ctx', {'argmap': 'Map[str,PgParam]', 'env': 'Env'})
    w.trusted.append('ctx.argmap (an OrderedDict) modelled as an unordered map: only its content is specified here')
    w.contract(IRAST, 'Param.is_sub_param', params={'self': 'Param'}, returns='bool', pure=True,
               ensures=['result == (str_prefixof("__edb_decoded_", self.name) and str_suffixof("__", self.name))'])
    w.py_methods = getattr(w, 'py_methods', {})
    # eligibility and classes of parameters
    w.define('ELIG(p)', 'is_none(ctx.env.named_param_prefix) or p.name.isdecimal()')
    w.define('EXTRA(p)', 'str_prefixof("__edb_arg_", p.name)')
    w.define('PHYS(p)', 'is_none(p.sub_params)')
    w.define('SUBP(p)', 'str_prefixof("__edb_decoded_", p.name) and str_suffixof("__", p.name)')
    # DONE(j, k, i): parameter j has been mapped when the outer loop is in pass k (0: ordinary, 1: extra, 2: finished) and the inner loop at position i
    w.define('DONE(j, k, i)', 'ELIG(params[j]) and ((not EXTRA(params[j]) and (k >= 1 or j < i)) or (EXTRA(params[j]) and (k >= 2 or (k == 1 and j < i))))')
    NAMES = ['forall(0, len(params), lambda a: forall(0, len(params), lambda b: implies(a != b, params[a].name != params[b].name)))']
    def pinv(k, i):
        D = lambda j: 'DONE(%s, %s, %s)' % (j, k, i)
        return [
            'physical_index >= 1', 'logical_index >= 1',
            'forall(0, len(params), lambda j: implies(%s, params[j].name in ctx.argmap and 1 <= ctx.argmap[params[j].name].index and ctx.argmap[params[j].name].index <= physical_index'
            ' and implies(PHYS(params[j]), ctx.argmap[params[j].name].index < physical_index)'
            ' and 1 <= ctx.argmap[params[j].name].logical_index and ctx.argmap[params[j].name].logical_index <= logical_index'
            ' and implies(not SUBP(params[j]), ctx.argmap[params[j].name].logical_index < logical_index)))' % D('j'),
            # distinct physical slots / distinct logical slots
            'forall(0, len(params), lambda a: forall(0, len(params), lambda b: implies(a != b and %s and %s and PHYS(params[a]) and PHYS(params[b]),'
            ' ctx.argmap[params[a].name].index != ctx.argmap[params[b].name].index)))' % (D('a'), D('b')),
            'forall(0, len(params), lambda a: forall(0, len(params), lambda b: implies(a != b and %s and %s and not SUBP(params[a]) and not SUBP(params[b]),'
            ' ctx.argmap[params[a].name].logical_index != ctx.argmap[params[b].name].logical_index)))' % (D('a'), D('b')),
            # no gaps: every slot below the counters is taken by a mapped parameter
            'forall(1, physical_index, lambda n: exists(0, len(params), lambda j: %s and PHYS(params[j]) and ctx.argmap[params[j].name].index == n))' % D('j'),
            'forall(1, logical_index, lambda n: exists(0, len(params), lambda j: %s and not SUBP(params[j]) and ctx.argmap[params[j].name].logical_index == n))' % D('j'),
        ]
    GNAMES = ['forall(0, len(globals), lambda a: forall(0, len(globals), lambda b: implies(a != b, globals[a].name != globals[b].name and globals[a].name != globals[b].name + "present__"'
              ' and globals[a].name + "present__" != globals[b].name + "present__")))',
              'forall(0, len(globals), lambda a: forall(0, len(params), lambda b: globals[a].name != params[b].name and globals[a].name + "present__" != params[b].name))',
              'forall(0, len(globals), lambda a: globals[a].name != globals[a].name + "present__")']
    IDX = lambda e: 'ctx.argmap[%s].index' % e
    PFACTS = [
        'forall(0, len(params), lambda j: implies(ELIG(params[j]), params[j].name in ctx.argmap and 1 <= ctx.argmap[params[j].name].index))',
        'forall(0, len(params), lambda a: forall(0, len(params), lambda b: implies(a != b and ELIG(params[a]) and ELIG(params[b]) and PHYS(params[a]) and PHYS(params[b]),'
        ' ctx.argmap[params[a].name].index != ctx.argmap[params[b].name].index)))',
        'forall(0, len(params), lambda a: forall(0, len(params), lambda b: implies(a != b and ELIG(params[a]) and ELIG(params[b]) and not SUBP(params[a]) and not SUBP(params[b]),'
        ' ctx.argmap[params[a].name].logical_index != ctx.argmap[params[b].name].logical_index)))',
        # no gaps: below the slot of a physical parameter every slot is taken by a physical parameter
        'forall(0, len(params), lambda j: implies(ELIG(params[j]), forall(1, ctx.argmap[params[j].name].index, lambda n: '
        'exists(0, len(params), lambda q: ELIG(params[q]) and PHYS(params[q]) and ctx.argmap[params[q].name].index == n))))',
        'forall(0, len(params), lambda j: implies(ELIG(params[j]) and not SUBP(params[j]), forall(1, ctx.argmap[params[j].name].logical_index, lambda n: '
        'exists(0, len(params), lambda q: ELIG(params[q]) and not SUBP(params[q]) and ctx.argmap[params[q].name].logical_index == n))))']
    GDONE = lambda hi: [
        'forall(0, %s, lambda a: globals[a].name in ctx.argmap and ctx.argmap[globals[a].name].logical_index == -1'
        ' and implies(globals[a].has_present_arg, (globals[a].name + "present__") in ctx.argmap and ctx.argmap[globals[a].name + "present__"].index == ctx.argmap[globals[a].name].index + 1))' % hi,
        # a global's slot (and its companion's) lies above every parameter's slot ...
        'forall(0, %s, lambda a: forall(0, len(params), lambda j: implies(ELIG(params[j]), ctx.argmap[params[j].name].index <= ctx.argmap[globals[a].name].index'
        ' and implies(PHYS(params[j]), ctx.argmap[params[j].name].index < ctx.argmap[globals[a].name].index))))' % hi,
        # ... and the globals' slots (with companions) are strictly increasing: no two of them collide
        'forall(0, %s, lambda a: forall(0, %s, lambda b: implies(a < b, ctx.argmap[globals[a].name].index + (1 if globals[a].has_present_arg else 0) < ctx.argmap[globals[b].name].index)))' % (hi, hi)]
    w.contract(CLAUSES, 'populate_argmap', params={'params': 'Seq[Param]', 'globals': 'Seq[Global]', 'ctx': 'Ctx'}, returns='none',
        requires=NAMES + GNAMES + ['len(ctx.argmap) == 0'], modifies=['Ctx.argmap'],
        ensures=PFACTS + GDONE('len(globals)'),
        loops={0: dict(fingerprint='for map_extra in (False, True)', index='k', invariant=pinv('k', '0')),
               1: dict(fingerprint='for param in params', index='i', invariant=pinv('k', 'i')),
               2: dict(fingerprint='for param in globals', index='g', invariant=PFACTS + GDONE('g') + [
                   'physical_index >= 1',
                   'forall(0, len(params), lambda j: implies(ELIG(params[j]), ctx.argmap[params[j].name].index <= physical_index and implies(PHYS(params[j]), ctx.argmap[params[j].name].index < physical_index)))',
                   'forall(0, g, lambda a: ctx.argmap[globals[a].name].index + (1 if globals[a].has_present_arg else 0) < physical_index)'])})
    return w
