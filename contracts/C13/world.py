"""C13 sidecar contracts (fragment): parameter numbering and alias generation of the SQL compiler.

Within reach of per-function contracts (and decided here for every parameter list / every call history):
  A   edb/pgsql/compiler/clauses.py populate_argmap: every eligible query parameter and every global gets an entry; the
      *physical* indexes ($n) of parameters that own a PostgreSQL parameter (no sub_params) and of globals and their
      "present" companions are pairwise distinct and fill 1..N without gaps; the *logical* indexes of the non-sub
      parameters are pairwise distinct and fill 1..L.  (The reported argmap and the numbers in the SQL text both come
      from this map: expr.compile_Parameter is proved to emit exactly ctx.argmap[name].index.)
  B   edb/common/compiler.py AliasGenerator.get / SimpleCounter.nextval: the alias is a function of (counter state, hint)
      -- no clock, id() or hash order -- of the form <hint sans ~digits>~<count>, and the counter of that hint grows by
      one (so two aliases drawn for one hint differ).
Not within reach (stated, not claimed): that every column / range-variable reference of the emitted SQL is in scope
(needs the whole pgsql compiler and PostgreSQL's scoping rules over arbitrary IR), and byte-identical recompilation of
whole queries (needs absence of hash-order dependence across the compiler).
"""
import ast, os
from pyvc.engine import World
from pyvc import repo

CLAUSES = 'edb/pgsql/compiler/clauses.py'
EXPR = 'edb/pgsql/compiler/expr.py'
COMMON = 'edb/common/compiler.py'
IRAST = 'edb/ir/ast.py'
PGAST = 'edb/pgsql/ast.py'

def conj(cs): return ' and '.join('(%s)' % c for c in cs)

def build():
    w = World('C13')
    w.refclass('Obj', {}, universal=True)
    w.rec('Param', [('name', 'str'), ('required', 'bool'), ('sub_params', 'Opt[Obj]')], IRAST, 'Param')
    w.rec('Global', [('name', 'str'), ('required', 'bool'), ('has_present_arg', 'bool')], IRAST, 'Global')
    w.rec('PgParam', [('index', 'int'), ('required', 'bool'), ('logical_index', 'int')], PGAST, 'Param')
    w.refclass('Env', {'named_param_prefix': 'Opt[Obj]', 'query_params': 'Seq[Param]'})
    w.refclass('Ctx', {'argmap': 'Map[str,PgParam]', 'env': 'Env'})
    w.trusted.append('ctx.argmap (an OrderedDict) modelled as an unordered map: only its content is specified here')
    w.contract(IRAST, 'Param.is_sub_param', params={'self': 'Param'}, returns='bool', pure=True,
               ensures=['result == (str_prefixof("__edb_decoded_", self.name) and str_suffixof("__", self.name))'])
    w.py_methods = getattr(w, 'py_methods', {})
    # eligibility and classes of parameters
    w.define('ELIG(p)', 'is_none(ctx.env.named_param_prefix) or p.name.isdecimal()')
    w.define('EXTRA(p)', 'str_prefixof("__edb_arg_", p.name)')
    w.define('PHYS(p)', 'is_none(p.sub_params)')
    w.define('SUBP(p)', 'str_prefixof("__edb_decoded_", p.name) and str_suffixof("__", p.name)')
    # DONE(j, k, i): parameter j has been mapped when the outer loop is in pass k (0: ordinary, 1: extra, 2: finished) and the inner loop at position i
    w.define('DONE(j, k, i)', 'ELIG(params[j]) and ((not EXTRA(params[j]) and (k >= 1 or j < i)) or (EXTRA(params[j]) and (k >= 2 or (k == 1 and j < i))))')
    NAMES = ['forall(0, len(params), lambda a: forall(0, len(params), lambda b: implies(a != b, params[a].name != params[b].name)))']
    def pinv(k, i):
        D = lambda j: 'DONE(%s, %s, %s)' % (j, k, i)
        return [
            'physical_index >= 1', 'logical_index >= 1',
            'forall(0, len(params), lambda j: implies(%s, params[j].name in ctx.argmap and 1 <= ctx.argmap[params[j].name].index and ctx.argmap[params[j].name].index <= physical_index'
            ' and implies(PHYS(params[j]), ctx.argmap[params[j].name].index < physical_index)'
            ' and 1 <= ctx.argmap[params[j].name].logical_index and ctx.argmap[params[j].name].logical_index <= logical_index'
            ' and implies(not SUBP(params[j]), ctx.argmap[params[j].name].logical_index < logical_index)))' % D('j'),
            # distinct physical slots / distinct logical slots
            'forall(0, len(params), lambda a: forall(0, len(params), lambda b: implies(a != b and %s and %s and PHYS(params[a]) and PHYS(params[b]),'
            ' ctx.argmap[params[a].name].index != ctx.argmap[params[b].name].index)))' % (D('a'), D('b')),
            'forall(0, len(params), lambda a: forall(0, len(params), lambda b: implies(a != b and %s and %s and not SUBP(params[a]) and not SUBP(params[b]),'
            ' ctx.argmap[params[a].name].logical_index != ctx.argmap[params[b].name].logical_index)))' % (D('a'), D('b')),
            # no gaps: every slot below the counters is taken by a mapped parameter
            'forall(1, physical_index, lambda n: 0 <= slot[n] and slot[n] < len(params) and %s and PHYS(params[slot[n]]) and ctx.argmap[params[slot[n]].name].index == n)' % D('slot[n]'),
            'forall(1, logical_index, lambda n: 0 <= lslot[n] and lslot[n] < len(params) and %s and not SUBP(params[lslot[n]]) and ctx.argmap[params[lslot[n]].name].logical_index == n)' % D('lslot[n]'),
        ]
    GNAMES = ['forall(0, len(globals), lambda a: forall(0, len(globals), lambda b: implies(a != b, globals[a].name != globals[b].name and globals[a].name != globals[b].name + "present__"'
              ' and globals[a].name + "present__" != globals[b].name + "present__")))',
              'forall(0, len(globals), lambda a: forall(0, len(params), lambda b: globals[a].name != params[b].name and globals[a].name + "present__" != params[b].name))',
              'forall(0, len(globals), lambda a: globals[a].name != globals[a].name + "present__")']
    IDX = lambda e: 'ctx.argmap[%s].index' % e
    PFACTS = [
        'forall(0, len(params), lambda j: implies(ELIG(params[j]), params[j].name in ctx.argmap and 1 <= ctx.argmap[params[j].name].index))',
        'forall(0, len(params), lambda a: forall(0, len(params), lambda b: implies(a != b and ELIG(params[a]) and ELIG(params[b]) and PHYS(params[a]) and PHYS(params[b]),'
        ' ctx.argmap[params[a].name].index != ctx.argmap[params[b].name].index)))',
        'forall(0, len(params), lambda a: forall(0, len(params), lambda b: implies(a != b and ELIG(params[a]) and ELIG(params[b]) and not SUBP(params[a]) and not SUBP(params[b]),'
        ' ctx.argmap[params[a].name].logical_index != ctx.argmap[params[b].name].logical_index)))',
        # no gaps: below the slot of a physical parameter every slot is taken by a physical parameter
        # (ghost witness: slot[n] / lslot[n] is the position in `params` of the parameter that owns physical / logical slot n)
        'forall(0, len(params), lambda j: implies(ELIG(params[j]), forall(1, ctx.argmap[params[j].name].index, lambda n: '
        '0 <= slot[n] and slot[n] < len(params) and ELIG(params[slot[n]]) and PHYS(params[slot[n]]) and ctx.argmap[params[slot[n]].name].index == n)))',
        'forall(0, len(params), lambda j: implies(ELIG(params[j]) and not SUBP(params[j]), forall(1, ctx.argmap[params[j].name].logical_index, lambda n: '
        '0 <= lslot[n] and lslot[n] < len(params) and ELIG(params[lslot[n]]) and not SUBP(params[lslot[n]]) and ctx.argmap[params[lslot[n]].name].logical_index == n)))']
    GDONE = lambda hi: [
        'forall(0, %s, lambda a: globals[a].name in ctx.argmap and ctx.argmap[globals[a].name].logical_index == -1'
        ' and implies(globals[a].has_present_arg, (globals[a].name + "present__") in ctx.argmap and ctx.argmap[globals[a].name + "present__"].index == ctx.argmap[globals[a].name].index + 1))' % hi,
        # a global's slot (and its companion's) lies above every parameter's slot ...
        'forall(0, %s, lambda a: forall(0, len(params), lambda j: implies(ELIG(params[j]), ctx.argmap[params[j].name].index <= ctx.argmap[globals[a].name].index'
        ' and implies(PHYS(params[j]), ctx.argmap[params[j].name].index < ctx.argmap[globals[a].name].index))))' % hi,
        # ... and the globals' slots (with companions) are strictly increasing: no two of them collide
        'forall(0, %s, lambda a: forall(0, %s, lambda b: implies(a < b, ctx.argmap[globals[a].name].index + (1 if globals[a].has_present_arg else 0) < ctx.argmap[globals[b].name].index)))' % (hi, hi)]
    w.contract(CLAUSES, 'populate_argmap', params={'params': 'Seq[Param]', 'globals': 'Seq[Global]', 'ctx': 'Ctx'}, returns='none',
        requires=NAMES + GNAMES + ['len(ctx.argmap) == 0'], modifies=['Ctx.argmap'], ghost={'slot': 'Fun[int,int]', 'lslot': 'Fun[int,int]'},
        hints=dict(ghost_out=['slot', 'lslot']),
        ghost_after={'ctx.argmap[param.name] = pgast.Param(index=physical_index, logical_index=logical_index, required=param.required)':
                     [('slot', 'fun_set(slot, physical_index, i)'), ('lslot', 'fun_set(lslot, logical_index, i)')]},
        ensures=PFACTS + GDONE('len(globals)'),
        loops={0: dict(fingerprint='for map_extra in (False, True)', index='k', invariant=pinv('k', '0')),
               1: dict(fingerprint='for param in params', index='i', invariant=pinv('k', 'i')),
               2: dict(fingerprint='for param in globals', index='g', invariant=PFACTS + GDONE('g') + [
                   'physical_index >= 1',
                   'forall(0, len(params), lambda j: implies(ELIG(params[j]), ctx.argmap[params[j].name].index <= physical_index and implies(PHYS(params[j]), ctx.argmap[params[j].name].index < physical_index)))',
                   'forall(0, g, lambda a: ctx.argmap[globals[a].name].index + (1 if globals[a].has_present_arg else 0) < physical_index)'])})
    # ---- A': the number written into the SQL text for a parameter reference is the argmap entry
    w.rec('IrParameter', [('name', 'str'), ('required', 'bool'), ('typeref', 'Obj')], IRAST, 'Parameter')
    w.ufunc('pnum', ['Obj'], 'int')        # the PostgreSQL parameter number an expression tree refers to (through type casts)
    w.ufunc('is_paramref', ['Obj'], 'bool')
    w.trusted.append('pgast node constructors are outside reach: ParamRef(number=n) is an object r with pnum(r) == n; TypeCast(arg=a) refers to the same parameter as a')
    w.ext_funcs['pgast.ParamRef'] = dict(params={'number': 'int', 'nullable': 'bool'}, returns='Obj', ensures=['pnum(result) == number', 'is_paramref(result)'])
    w.ext_funcs['pgast.TypeCast'] = dict(params={'arg': 'Obj', 'type_name': 'Obj'}, returns='Obj', ensures=['pnum(result) == pnum(arg)', 'is_paramref(result) == is_paramref(arg)'])
    w.ext_funcs['pgast.TypeName'] = dict(params={'name': 'Obj'}, returns='Obj')
    w.ext_funcs['pgast.ColumnRef'] = dict(params={'name': 'Obj', 'nullable': 'bool'}, returns='Obj', ensures=['not is_paramref(result)'])
    w.ext_funcs['pg_types.pg_type_from_ir_typeref'] = dict(params={'t': 'Obj'}, returns='Obj')
    w.ext_funcs['irtyputils.needs_custom_serialization'] = dict(params={'t': 'Obj'}, returns='bool')
    w.ext_funcs['irtyputils.is_array'] = dict(params={'t': 'Obj'}, returns='bool')
    w.ext_funcs['relgen.process_encoded_param'] = dict(params={'param': 'Param', 'ctx': 'Ctx'}, returns='Obj', ensures=['not is_paramref(result)'])
    w.classes['Obj'].update({'subtypes': 'Seq[Obj]', 'real_base_type': 'Obj', 'custom_sql_serialization': 'Opt[str]'})
    w.contract(EXPR, 'compile_Parameter', params={'expr': 'IrParameter', 'ctx': 'Ctx'}, returns='Obj',
        requires=['forall(0, len(ctx.env.query_params), lambda j: implies(ELIG(ctx.env.query_params[j]), ctx.env.query_params[j].name in ctx.argmap))'],
        # whenever a PostgreSQL parameter reference is emitted, its number is the physical index the argmap reports for that name
        ensures=['implies(is_paramref(result), expr.name in ctx.argmap and pnum(result) == ctx.argmap[expr.name].index)'],
        raises={'KeyError': dict(only_if='not (expr.name in ctx.argmap)'), 'AssertionError': {}, 'IndexError': {}},
        hints=dict(var_types={'params': 'Seq[Param]'}))
    # ---- B: aliases
    w.refclass('Counter', {'counts': 'Fun[str,int]'}, COMMON, 'AliasGenerator')
    w.trusted.append('collections.defaultdict(int) modelled as a total map str -> int (missing keys read 0)')
    w.contract(COMMON, 'SimpleCounter.nextval', params={'self': 'Counter', 'name': 'str'}, returns='int', modifies=['Counter.counts'],
        ensures=['result == old(self.counts[name]) + 1', 'self.counts[name] == result', 'forall(str, lambda k: implies(k != name, self.counts[k] == old(self.counts[k])))',
                 'heap_same_except("Counter.counts", self)'])
    w.contract(COMMON, 'AliasGenerator.get', params={'self': 'Counter', 'hint': 'str'}, ghost={'H': 'str'}, returns='str', modifies=['Counter.counts'],
        hints=dict(ghost_out=['H']), ghost_after={'idx = self.nextval(hint)': [('H', 'hint')]},
        # the alias is a function of the counter state and the hint only:  <normalised hint>~<count of that hint + 1>
        ensures=['result == H + "~" + int_to_str(old(self.counts)[H] + 1)', 'self.counts[H] == old(self.counts)[H] + 1',
                 'forall(str, lambda k: implies(k != H, self.counts[k] == old(self.counts[k])))',
                 # the normalised hint: "v" for the empty hint, else the hint without a trailing ~digits (it never ends in ~digits itself)
                 'implies(hint == "", H == "v")', 'str_prefixof(H, hint) or hint == ""'])
    return w

def scenarios(tier, seed, repo_root, outdir):
    """bounded stand-in: the real populate_argmap on every small parameter / global list; the real AliasGenerator on random hint sequences"""
    import json, subprocess
    here = os.path.dirname(os.path.abspath(__file__)); root = os.path.dirname(os.path.dirname(here))
    out = os.path.join(outdir, 'scenario_out.json')
    if os.path.exists(out): os.unlink(out)
    env = dict(os.environ); env['PYTHONPATH'] = '%s:%s' % (os.path.join(root, 'stubs'), repo_root); env['VERIF_REPO'] = repo_root
    p = subprocess.run(['/venv/bin/python', os.path.join(here, 'scenario.py'), str(seed), '3' if tier == 'quick' else '4', out], capture_output=True, text=True, env=env, cwd=repo_root, timeout=3000)
    if not os.path.exists(out): raise RuntimeError('scenario runner failed: ' + (p.stderr or p.stdout)[-2000:])
    r = json.load(open(out))
    return dict(evaluations=r['argmaps'] + r['alias_runs'], failure=r['failure'],
                label='%d (parameter list, globals, naming mode) combinations through the real populate_argmap; %d hint sequences through two real AliasGenerators (bounded)' % (r['argmaps'], r['alias_runs']),
                clause='physical slots form 1..N, logical slots 1..L, ordinary before extracted parameters; aliases deterministic and pairwise distinct')
