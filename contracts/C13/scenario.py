"""C13 bounded stand-in (native; never counted as proof): the REAL populate_argmap on every small parameter / global list,
and the REAL AliasGenerator on random hint sequences.
usage: scenario.py <seed> <max_params> <out.json>
"""
import sys, json, random, itertools, types, collections
from edb.ir import ast as irast
from edb.pgsql.compiler import clauses
from edb.common import compiler as ccompiler

NAMES = ['0', '1', '2', 'x', 'y', '__edb_arg_3', '__edb_arg_4', '__edb_decoded_0__', '__edb_decoded_x__']
SUB = types.SimpleNamespace(params=(), trans_type=types.SimpleNamespace(flatten=lambda: ()))      # a tuple parameter's decomposition (only its presence matters here)
def P(name, sub=False):
    return irast.Param(name=name, required=True, schema_type=None, ir_type=None, sub_params=(SUB if sub else None))
def G(name, present):
    return irast.Global(name=name, required=False, schema_type=None, ir_type=None, global_name=None, has_present_arg=present)

def check(params, globs, prefix):
    ctx = types.SimpleNamespace(argmap=collections.OrderedDict(), env=types.SimpleNamespace(named_param_prefix=prefix))
    clauses.populate_argmap(params, globs, ctx=ctx)
    am = ctx.argmap
    elig = [p for p in params if prefix is None or p.name.isdecimal()]
    for p in elig:
        if p.name not in am: return 'eligible parameter %r has no argmap entry' % p.name
    phys = [p for p in elig if not p.sub_params]
    slots = [am[p.name].index for p in phys]
    for g in globs:
        if g.name not in am: return 'global %r has no argmap entry' % g.name
        slots.append(am[g.name].index)
        if g.has_present_arg:
            if g.name + 'present__' not in am: return 'global %r has no present companion' % g.name
            slots.append(am[g.name + 'present__'].index)
    if sorted(slots) != list(range(1, len(slots) + 1)):
        return 'physical slots of parameters / globals / companions are %r, expected a permutation of 1..%d' % (slots, len(slots))
    logical = [am[p.name].logical_index for p in elig if not p.is_sub_param]
    if sorted(logical) != list(range(1, len(logical) + 1)):
        return 'logical indexes are %r, expected a permutation of 1..%d' % (logical, len(logical))
    # ordinary parameters come before the extracted (__edb_arg_) ones
    last_ord = max([am[p.name].index for p in phys if not p.name.startswith('__edb_arg_')], default=0)
    first_extra = min([am[p.name].index for p in phys if p.name.startswith('__edb_arg_')], default=10 ** 9)
    if last_ord > first_extra: return 'an extracted constant parameter precedes an ordinary one'
    if prefix is None and not globs:
        msg = check_unused_vars(params, am)
        if msg: return msg
        msg = check_extract(params, am)
        if msg: return msg
    return None

EXTRACT = dict(runs=0, rejected=0)
def check_extract(params, am):
    """the REAL compiler._extract_params on the argmap the real populate_argmap produced: the descriptor of every user-visible parameter is filed under the parameter's
    LOGICAL position (what the client binds by), for tuple parameters too (several physical slots, one logical)"""
    from edb.server.compiler import compiler as C
    cctx = types.SimpleNamespace(source=None, json_parameters=False)
    try: oparams, ita = C._extract_params(list(params), schema=None, argmap=am, script_info=None, ctx=cctx)
    except RuntimeError:
        EXTRACT['rejected'] += 1; return None      # positional name disagrees with its position: rejected, nothing reported
    EXTRACT['runs'] += 1
    user = [p for p in params if not p.is_sub_param]
    if len(ita) != len(user) or len(oparams) != len(user): return '_extract_params: %d user parameters but %d / %d descriptors' % (len(user), len(oparams), len(ita))
    for p in user:
        pos = am[p.name].logical_index - 1
        if ita[pos] is None or ita[pos].name != p.name:
            return '_extract_params: the argmap files $%s under logical position %d, in_type_args[%d] describes %r' % (p.name, pos + 1, pos, None if ita[pos] is None else ita[pos].name)
        if oparams[pos] is None or oparams[pos][0] != p.name:
            return '_extract_params: input descriptor slot %d is %r, expected $%s' % (pos, oparams[pos], p.name)
    return None

def check_unused_vars(params, am):
    """the REAL clauses.fini_toplevel on a statement that mentions only some of the parameters: every physical parameter of the argmap must appear in the
    final statement -- in the text or in the `__unused_vars` CTE -- cast as a value of its own type, and nothing else may"""
    from edb.pgsql import ast as pgast
    from edb.pgsql.compiler import clauses as cl
    phys = [p for p in params if not p.sub_params]
    for used_mask in ((False,) * len(phys), tuple(i % 2 == 0 for i in range(len(phys)))):
        used_idx = [am[p.name].index for p, u in zip(phys, used_mask) if u]
        stmt = pgast.SelectStmt(target_list=[pgast.ResTarget(val=pgast.ParamRef(number=i)) for i in used_idx])
        env = types.SimpleNamespace(named_param_prefix=None, query_params=list(params), check_ctes=[], type_rewrites={}, type_ctes={}, )
        ctx = types.SimpleNamespace(argmap=am, env=env)
        saved = cl.scan_check_ctes, cl.insert_ctes, cl.pg_types.pg_type_from_ir_typeref
        cl.scan_check_ctes = lambda *a, **k: None; cl.insert_ctes = lambda *a, **k: None; cl.pg_types.pg_type_from_ir_typeref = lambda t, **k: ('t',)
        try: cl.fini_toplevel(stmt, ctx)
        finally: cl.scan_check_ctes, cl.insert_ctes, cl.pg_types.pg_type_from_ir_typeref = saved
        declared = []
        for cte in (stmt.ctes or []):
            if cte.name == '__unused_vars':
                for t in cte.query.target_list: declared.append(t.val.arg.number)
        want = sorted(am[p.name].index for p, u in zip(phys, used_mask) if not u)
        if sorted(declared) != want:
            return 'statement using parameters %r of argmap %r: the __unused_vars CTE declares $%r, expected exactly the unused physical parameters $%r' % (
                used_idx, {k: v.index for k, v in am.items()}, sorted(declared), want)
    return None

def main():
    seed, maxp, out = int(sys.argv[1]), int(sys.argv[2]), sys.argv[3]
    rnd = random.Random(seed); res = dict(argmaps=0, alias_runs=0, failure=None)
    def fail(**kw):
        if not res['failure']: res['failure'] = kw
    for n in range(0, maxp + 1):
        for names in itertools.permutations(NAMES, n):
            for subs in itertools.product([False, True], repeat=n) if n <= 2 else [tuple(rnd.random() < 0.3 for _ in range(n))]:
                params = [P(nm, sb) for nm, sb in zip(names, subs)]
                for globs in ([], [G('g1', False)], [G('g1', True)], [G('g1', True), G('g2', False)], [G('g1', True), G('g2', True), G('g3', False)]):
                    for prefix in (None, ('p',)):
                        res['argmaps'] += 1
                        try: msg = check(params, globs, prefix)
                        except Exception as e: msg = 'exception %r' % (e,)
                        if msg:
                            fail(kind='argmap', params=[(p.name, bool(p.sub_params)) for p in params], globals=[(g.name, g.has_present_arg) for g in globs], named_prefix=prefix, problem=msg)
                            json.dump(res, open(out, 'w'), indent=1); return
    # alias generator: function of (state, hint); aliases of one generator are pairwise distinct
    HINTS = ['', 'v', 'a', 'a~1', 'a~12', 'a~', 'a~b', 'a~1~2', '~3', 'rel', 'q~0']
    for _ in range(300):
        seq = [rnd.choice(HINTS) for _ in range(rnd.randint(1, 30))]
        g1, g2 = ccompiler.AliasGenerator(), ccompiler.AliasGenerator()
        a1 = [g1.get(h) for h in seq]; a2 = [g2.get(h) for h in seq]
        res['alias_runs'] += 1
        if a1 != a2: fail(kind='alias', hints=seq, problem='two generators fed the same hints disagree: %r vs %r' % (a1, a2)); break
        if len(set(a1)) != len(a1): fail(kind='alias', hints=seq, problem='alias handed out twice: %r' % (a1,)); break
    res['extract'] = EXTRACT
    json.dump(res, open(out, 'w'), indent=1)

if __name__ == '__main__':
    main()
