"""C13 bounded stand-in (native; never counted as proof): the REAL populate_argmap on every small parameter / global list,
and the REAL AliasGenerator on random hint sequences.
usage: scenario.py <seed> <max_params> <out.json>
"""
import sys, json, random, itertools, types, collections
from edb.ir import ast as irast
from edb.pgsql.compiler import clauses
from edb.common import compiler as ccompiler

NAMES = ['0', '1', '2', 'x', 'y', '__edb_arg_3', '__edb_arg_4', '__edb_decoded_0__', '__edb_decoded_x__']
def P(name, sub=False):
    return irast.Param(name=name, required=True, schema_type=None, ir_type=None, sub_params=(object() if sub else None))
def G(name, present):
    return irast.Global(name=name, required=False, schema_type=None, ir_type=None, global_name=None, has_present_arg=present)

def check(params, globs, prefix):
    ctx = types.SimpleNamespace(argmap=collections.OrderedDict(), env=types.SimpleNamespace(named_param_prefix=prefix))
    clauses.populate_argmap(params, globs, ctx=ctx)
    am = ctx.argmap
    elig = [p for p in params if prefix is None or p.name.isdecimal()]
    for p in elig:
        if p.name not in am: return 'eligible parameter %r has no argmap entry' % p.name
    phys = [p for p in elig if not p.sub_params]
    slots = [am[p.name].index for p in phys]
    for g in globs:
        if g.name not in am: return 'global %r has no argmap entry' % g.name
        slots.append(am[g.name].index)
        if g.has_present_arg:
            if g.name + 'present__' not in am: return 'global %r has no present companion' % g.name
            slots.append(am[g.name + 'present__'].index)
    if sorted(slots) != list(range(1, len(slots) + 1)):
        return 'physical slots of parameters / globals / companions are %r, expected a permutation of 1..%d' % (slots, len(slots))
    logical = [am[p.name].logical_index for p in elig if not p.is_sub_param]
    if sorted(logical) != list(range(1, len(logical) + 1)):
        return 'logical indexes are %r, expected a permutation of 1..%d' % (logical, len(logical))
    # ordinary parameters come before the extracted (__edb_arg_) ones
    last_ord = max([am[p.name].index for p in phys if not p.name.startswith('__edb_arg_')], default=0)
    first_extra = min([am[p.name].index for p in phys if p.name.startswith('__edb_arg_')], default=10 ** 9)
    if last_ord > first_extra: return 'an extracted constant parameter precedes an ordinary one'
    return None

def main():
    seed, maxp, out = int(sys.argv[1]), int(sys.argv[2]), sys.argv[3]
    rnd = random.Random(seed); res = dict(argmaps=0, alias_runs=0, failure=None)
    def fail(**kw):
        if not res['failure']: res['failure'] = kw
    for n in range(0, maxp + 1):
        for names in itertools.permutations(NAMES, n):
            for subs in itertools.product([False, True], repeat=n) if n <= 2 else [tuple(rnd.random() < 0.3 for _ in range(n))]:
                params = [P(nm, sb) for nm, sb in zip(names, subs)]
                for globs in ([], [G('g1', False)], [G('g1', True)], [G('g1', True), G('g2', False)], [G('g1', True), G('g2', True), G('g3', False)]):
                    for prefix in (None, ('p',)):
                        res['argmaps'] += 1
                        try: msg = check(params, globs, prefix)
                        except Exception as e: msg = 'exception %r' % (e,)
                        if msg:
                            fail(kind='argmap', params=[(p.name, bool(p.sub_params)) for p in params], globals=[(g.name, g.has_present_arg) for g in globs], named_prefix=prefix, problem=msg)
                            json.dump(res, open(out, 'w'), indent=1); return
    # alias generator: function of (state, hint); aliases of one generator are pairwise distinct
    HINTS = ['', 'v', 'a', 'a~1', 'a~12', 'a~', 'a~b', 'a~1~2', '~3', 'rel', 'q~0']
    for _ in range(300):
        seq = [rnd.choice(HINTS) for _ in range(rnd.randint(1, 30))]
        g1, g2 = ccompiler.AliasGenerator(), ccompiler.AliasGenerator()
        a1 = [g1.get(h) for h in seq]; a2 = [g2.get(h) for h in seq]
        res['alias_runs'] += 1
        if a1 != a2: fail(kind='alias', hints=seq, problem='two generators fed the same hints disagree: %r vs %r' % (a1, a2)); break
        if len(set(a1)) != len(a1): fail(kind='alias', hints=seq, problem='alias handed out twice: %r' % (a1,)); break
    json.dump(res, open(out, 'w'), indent=1)

if __name__ == '__main__':
    main()
