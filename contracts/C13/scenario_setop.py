"""C13 bounded stand-in (native; never counted as proof): the REAL
edb.pgsql.compiler.pathctx._get_path_var_in_setop (and through it the real
get_path_output_or_null / maybe_get_path_output / get_path_var / put_path_var /
map_path_id ...) on every small hand-built UNION ALL tree.

usage:  cd <repo> && PYTHONPATH=/verif/stubs:<repo> [VERIF_REPO=<repo>] \
            /venv/bin/python scenario_setop.py <seed> <max_arms> <out.json>

Explored space (exhaustive up to 3 arms, deterministic; 4 arms exhaustive as
long as the case budget allows, otherwise a seeded sample):

  * n = 2..max_arms leaf arms (plain pgast.SelectStmt), nested left-deep and
    right-deep with SelectStmt(op='UNION', all=True, larg=, rarg=) (one arm is
    not a set operation: get_path_var never dispatches it to this function);
  * every arm independently is one of
        N  cannot provide the path,
        V  provides it by a path var in its path_namespace (put_path_var),
        R  provides it by a range var over a sub-select (put_path_rvar; the
           sub-select has the path var), i.e. through _find_rel_rvar /
           get_path_output(source_rel) / get_rvar_var;
  * every arm independently has or has not a non-trivial view_path_id_map
    (outer path id -> its own inner path id, as relgen.process_set_as_setop
    does with put_path_id_map); an arm with a map provides the INNER path id;
  * aspect/path: VALUE and SOURCE of an object path, IDENTITY of a scalar path;
  * k = 0..2 unrelated pre-existing target columns in every arm.

Oracle, checked after every call (PostgreSQL's set operation rules + the
function's own comments):

  O1  normal return: the result and the var registered for `rel` is a ColumnRef
      naming the output column of the LEFTMOST arm; all arms have k+1 columns;
      the new column sits at position k in every arm; N arms have exactly one
      extra NULL placeholder there, providing arms a non-NULL expression.
  O2  LookupError: every arm's target_list is exactly what it was (same
      objects), no arm keeps a path_outputs entry for (mapped path id, aspect),
      and an identical second call raises LookupError again.
  O3  any other exception is 'unexpected_exception' (except the documented
      AssertionError for unbalanced arms, which this explorer never provokes).

  In addition the outcome itself is checked: the call must return iff some arm
  provides the path (scalar IDENTITY: iff every arm provides it, as the comment
  in the function says); a wrong outcome is reported under O1 (raised although
  it should have returned) or O2 (returned although it should have raised).
"""
import sys, os, json, random, itertools, traceback, uuid

from edb.ir import ast as irast
from edb.schema import name as sn
from edb.pgsql import ast as pgast
from edb.pgsql import params as pgparams
from edb.pgsql.compiler import context, pathctx, astutils
from edb.pgsql.compiler import enums as pgce

_repo = os.environ.get('VERIF_REPO')
if _repo:
    assert os.path.realpath(pathctx.__file__).startswith(os.path.realpath(_repo).rstrip(os.sep) + os.sep), \
        'pathctx imported from %s, not from VERIF_REPO=%s' % (pathctx.__file__, _repo)

VALUE, SOURCE, IDENTITY = pgce.PathAspect.VALUE, pgce.PathAspect.SOURCE, pgce.PathAspect.IDENTITY
MAX_ARMS_LIMIT = 4
BUDGET = 60000          # cases; beyond it the 4-arm layer is sampled with the seed


def uid(s):
    return uuid.uuid5(uuid.NAMESPACE_DNS, s)


def objtype(name):
    return irast.TypeRef(id=uid(name), name_hint=sn.QualName('default', name))


INT64 = irast.TypeRef(id=uid('int64'), name_hint=sn.QualName('std', 'int64'), is_scalar=True)
OBJ_OUTER = irast.PathId.from_typeref(objtype('U'), namespace={'u'})
OBJ_INNER = [irast.PathId.from_typeref(objtype('T%d' % i)) for i in range(MAX_ARMS_LIMIT)]
SCL_OUTER = irast.PathId.from_typeref(INT64, namespace={'u'})
SCL_INNER = [irast.PathId.from_typeref(INT64, namespace={'arm%d' % i}) for i in range(MAX_ARMS_LIMIT)]

# (label, aspect, outer path id, inner path ids per arm, scalar identity rule?)
MODES = [
    ('VALUE', VALUE, OBJ_OUTER, OBJ_INNER, False),
    ('SOURCE', SOURCE, OBJ_OUTER, OBJ_INNER, False),
    ('IDENTITY(scalar)', IDENTITY, SCL_OUTER, SCL_INNER, True),
]


def mk_env():
    return context.Environment(
        output_format=None, named_param_prefix=None, expected_cardinality_one=False, ignore_object_shapes=False,
        singleton_mode=False, is_explain=False, explicit_top_cast=None, query_params=[], type_rewrites={},
        scope_tree_nodes={}, backend_runtime_params=pgparams.get_default_runtime_params())


def build(kinds, maps, nesting, mode, k, env):
    """-> (rel, leaves, local path id of every leaf)"""
    _, aspect, outer, inner, _ = mode
    leaves, local = [], []
    for i, (kind, has_map) in enumerate(zip(kinds, maps)):
        tab = env.aliases.get('t%d' % i)
        arm = pgast.SelectStmt(from_clause=[pgast.RelRangeVar(
            relation=pgast.Relation(name='tab%d' % i, schemaname='public'), alias=pgast.Alias(aliasname=tab))])
        for j in range(k):
            arm.target_list.append(pgast.ResTarget(name='c%d_%d' % (i, j), val=pgast.ColumnRef(name=[tab, 'c%d' % j])))
        pid = outer
        if has_map:
            pathctx.put_path_id_map(arm, outer, inner[i])        # what process_set_as_setop does per arm
            pid = inner[i]
        assert (pathctx.map_path_id(outer, arm.view_path_id_map) != outer) == has_map
        if kind == 'V':
            pathctx.put_path_var(arm, pid, pgast.ColumnRef(name=[tab, 'p%d' % i]), aspect=aspect)
        elif kind == 'R':
            sub = pgast.SelectStmt(from_clause=[pgast.RelRangeVar(
                relation=pgast.Relation(name='src%d' % i, schemaname='public'),
                alias=pgast.Alias(aliasname=env.aliases.get('s%d' % i)))])
            pathctx.put_path_var(sub, pid, pgast.ColumnRef(name=[sub.from_clause[0].alias.aliasname, 'p%d' % i]), aspect=aspect)
            rvar = pgast.RangeSubselect(subquery=sub, alias=pgast.Alias(aliasname=env.aliases.get('q%d' % i)))
            arm.from_clause.append(rvar)
            pathctx.put_path_rvar(arm, pid, rvar, aspect=aspect)
        else:
            assert kind == 'N'
        leaves.append(arm); local.append(pid)
    if nesting == 'left':
        rel = leaves[0]
        for a in leaves[1:]:
            rel = pgast.SelectStmt(op='UNION', all=True, larg=rel, rarg=a)
    else:
        rel = leaves[-1]
        for a in reversed(leaves[:-1]):
            rel = pgast.SelectStmt(op='UNION', all=True, larg=a, rarg=rel)
    got = list(astutils.each_query_in_set(rel))
    assert len(got) == len(leaves) and all(x is y for x, y in zip(got, leaves)), 'harness: leaf order'
    return rel, leaves, local


def colname(rt):
    """PostgreSQL's name of an output column"""
    if rt.name is not None:
        return rt.name
    if isinstance(rt.val, pgast.ColumnRef):
        return rt.val.name[-1]
    return '?column?'


def is_null_placeholder(rt):
    v = rt.val
    while isinstance(v, pgast.TypeCast):
        v = v.arg
    return isinstance(v, pgast.NullConstant)


def check_O1(var, rel, leaves, local, kinds, k, outer, aspect, env):
    counts = [len(a.target_list) for a in leaves]
    if counts != [k + 1] * len(leaves):
        return 'arms have %r target-list columns after the call, expected %d in every arm' % (counts, k + 1)
    for i, a in enumerate(leaves):
        rt = a.target_list[k]
        if kinds[i] == 'N' and not is_null_placeholder(rt):
            return 'arm %d cannot provide the path but its new column %r is not a NULL placeholder' % (i, colname(rt))
        if kinds[i] != 'N' and is_null_placeholder(rt):
            return 'arm %d provides the path but its new column %r is a NULL placeholder' % (i, colname(rt))
        out = a.path_outputs.get((local[i], aspect))
        if not isinstance(out, pgast.ColumnRef) or list(out.name) != [colname(rt)]:
            return 'arm %d: path_outputs entry %r does not name its new column %r' % (i, getattr(out, 'name', out), colname(rt))
    want = colname(leaves[0].target_list[k])
    if not isinstance(var, pgast.ColumnRef):
        return 'returned %s, not a ColumnRef' % type(var).__name__
    if list(var.name) != [want]:
        return ('returned column reference %r, but a set operation names its columns after its leftmost arm, whose column for the path is %r '
                '(columns at that position in the arms: %r)' % (list(var.name), want, [colname(a.target_list[k]) for a in leaves]))
    reg = rel.path_namespace.get((outer, aspect))
    if reg is None or not isinstance(reg, pgast.ColumnRef) or list(reg.name) != [want]:
        return 'var registered for the set operation is %r, expected a ColumnRef to %r' % (getattr(reg, 'name', reg), want)
    again = pathctx.get_path_var(rel, outer, aspect=aspect, env=env)
    if not isinstance(again, pgast.ColumnRef) or list(again.name) != [want]:
        return 'get_path_var on the set operation afterwards gives %r, expected %r' % (getattr(again, 'name', again), want)
    if [len(a.target_list) for a in leaves] != counts:
        return 'get_path_var on the set operation afterwards added columns'
    if 'N' in kinds and not var.nullable:
        return 'some arm yields NULL for the path but the returned column reference is not marked nullable'
    return None


def check_O2(leaves, local, before, aspect, when):
    for i, a in enumerate(leaves):
        if len(a.target_list) != len(before[i]) or any(x is not y for x, y in zip(a.target_list, before[i])):
            return '%s: target list of arm %d is %r, before the call it was %r' % (
                when, i, [colname(t) for t in a.target_list], [colname(t) for t in before[i]])
        if (local[i], aspect) in a.path_outputs:
            return '%s: arm %d still has a path_outputs entry (-> %r) for the path it cannot provide' % (
                when, i, getattr(a.path_outputs[local[i], aspect], 'name', None))
    return None


def run_case(kinds, maps, nesting, mode, k, stats):
    """-> None | (kind, problem)"""
    label, aspect, outer, inner, scalar_identity = mode
    env = mk_env()
    rel, leaves, local = build(kinds, maps, nesting, mode, k, env)
    before = [list(a.target_list) for a in leaves]
    providers = [i for i, kd in enumerate(kinds) if kd != 'N']
    should_return = (len(providers) == len(kinds)) if scalar_identity else bool(providers)

    def call():
        return pathctx._get_path_var_in_setop(rel, outer, aspect=aspect, flavor='normal', env=env)

    try:
        var = call()
    except LookupError as e:
        stats['lookup_errors'] += 1
        if should_return:
            return 'O1', 'LookupError (%s) although arm(s) %r provide the path' % (e.args[0][:60] if e.args else '', providers)
        msg = check_O2(leaves, local, before, aspect, 'after the LookupError')
        if msg:
            return 'O2', msg
        try:
            var2 = call()
        except LookupError:
            msg = check_O2(leaves, local, before, aspect, 'after the second LookupError')
            return ('O2', msg) if msg else None
        except Exception:
            return 'unexpected_exception', 'second identical call: ' + traceback.format_exc()
        return 'O2', 'a second identical call after the LookupError "finds" the path and returns %r' % (getattr(var2, 'name', var2),)
    except AssertionError:
        tb = traceback.format_exc()
        if 'assert counts == [counts[0]] * len(counts)' in tb:
            stats['unbalanced_assertions'] += 1      # never expected: all arms are built with k columns
        return 'unexpected_exception', tb
    except Exception:
        return 'unexpected_exception', traceback.format_exc()
    stats['returned'] += 1
    if not should_return:
        return 'O2', 'returned %r although %s' % (getattr(var, 'name', var),
                                                 'no arm provides the path' if not providers else
                                                 'arm(s) %r cannot provide a scalar IDENTITY' % [i for i, kd in enumerate(kinds) if kd == 'N'])
    try:
        msg = check_O1(var, rel, leaves, local, kinds, k, outer, aspect, env)
    except Exception:
        return 'unexpected_exception', 'while checking O1: ' + traceback.format_exc()
    return ('O1', msg) if msg else None


def cases(max_arms, rnd):
    total = 0
    for n in range(2, max_arms + 1):     # a set operation has at least two arms
        layer = []
        for kinds in itertools.product('NVR', repeat=n):
            for maps in itertools.product((False, True), repeat=n):
                for nesting in (('left',) if n < 3 else ('left', 'right')):
                    for mode in MODES:
                        for k in (0, 1, 2):
                            layer.append((kinds, maps, nesting, mode, k))
        if total + len(layer) > BUDGET:
            layer = [layer[i] for i in sorted(rnd.sample(range(len(layer)), max(BUDGET - total, 0)))]
        total += len(layer)
        yield from layer


def main():
    seed, max_arms, out = int(sys.argv[1]), int(sys.argv[2]), sys.argv[3]
    assert 2 <= max_arms <= MAX_ARMS_LIMIT, 'max_arms must be 2..%d' % MAX_ARMS_LIMIT
    rnd = random.Random(seed)
    stats = dict(returned=0, lookup_errors=0, unbalanced_assertions=0, with_view_path_id_map=0,
                 leftmost_N_later_P=0, failures=0)
    res = dict(cases=0, failure=None, stats=stats)
    for kinds, maps, nesting, mode, k in cases(max_arms, rnd):
        res['cases'] += 1
        stats['with_view_path_id_map'] += any(maps)
        stats['leftmost_N_later_P'] += kinds[0] == 'N' and any(kd != 'N' for kd in kinds[1:])
        bad = run_case(kinds, maps, nesting, mode, k, stats)
        if bad:
            stats['failures'] += 1
            if res['failure'] is None:
                res['failure'] = dict(
                    arms=[dict(provides=kd != 'N', how={'N': None, 'V': 'path_var', 'R': 'range_var'}[kd], view_path_id_map=m)
                          for kd, m in zip(kinds, maps)],
                    nesting=nesting, aspect=mode[0], preexisting_columns=k, kind=bad[0], problem=bad[1])
    with open(out, 'w') as f:
        json.dump(res, f, indent=1)


if __name__ == '__main__':
    try:
        main()
    except SystemExit:
        raise
    except BaseException:
        traceback.print_exc()
        sys.exit(2)
