"""C17 bounded stand-in / counterexample finder for the MULTI-TENANT compiler pool (native, never counted as proof).

Drives REAL code: pool.MultiTenantPool._compute_compile_preargs (+ its nested sync_worker_state_cb), the inherited
AbstractPool.compile, the MultiTenantPool.compile_in_tx override, MultiTenantPool._acquire_worker / _release_worker /
_weighter / drop_tenant, pool.MultiTenantWorker (get/set_tenant_schema, invalidate, maybe_invalidate_last,
flush_invalidation, get_invalidation), BaseWorker.call, the REAL worker_proc.worker loop and the REAL handlers of
multitenant_worker.py (get_handler, call_for_client, __sync__, compile, compile_in_tx).  In-process hand-over instead
of the socket, a hand-over queue instead of queue.WorkerQueue (the history names the worker), a recording COMPILER;
every simulated worker process owns a copy of multitenant_worker's module globals (clients, LAST_STATE, COMPILER, INITED).

Histories: 2 workers x 3 tenants (client ids) x 2 databases, pool cache_size 2 (so a third tenant on a worker evicts),
state changes between requests (2 values per part, one of them an EMPTY immutables.Map for the three map-valued
parts; earlier objects are re-presented), failed state synchronisation (an unloadable pickle in one transmitted
part), statements inside a transaction, and drop_tenant invalidations.  Global schema / instance config are per
tenant, user schema / reflection cache / database config per (tenant, database).

step  = [worker_idx, client_id, db, usp_i, gsp_i, rc_i, dc_i, sc_i, fault]   fault in (None,'tx','usp','gsp','rc','dc','sc')
      | ['drop', client_id]                                                  pool.drop_tenant(client_id)

Oracle: every non-faulty request that reaches the compiler is compiled with exactly the state supplied with it
('tx': the root user schema set on the compiler state equals the supplied one).  A request that fails is not a
violation (counted in stats.nonfaulty_failed when the request itself carried no fault).

Failures carry a `kind`:
  empty_map_update_lost          only reflection_cache/database_config differ, compiled with an EMPTY map although a
                                 non-empty one was supplied, tenant not marked invalidated on that worker
  presented_after_drop_tenant    when the request was issued the tenant was marked invalidated on the worker by
                                 drop_tenant but still in the worker's server-side cache (MultiTenantWorker.invalidate
                                 keeps the entry until the next flush_invalidation)
  presented_after_eviction       same, but marked by maybe_invalidate_last (the evicting request failed, so the
                                 invalidation reached the worker process but was never flushed on the server side)
  tx_root_user_schema            a statement in a transaction got another root user schema than supplied
  state_mismatch                 anything else
`failure` is the first failure met, shrunk (steps removed / fields zeroed while the same kind still fails).
`other_failures` (extra key) holds one shrunk example per further kind (the shortest met); to separate them from the
empty-map defect the search for them is a second pass with value pools WITHOUT empty maps (`empties: false` in the
entry), which is not stopped at the first failure.  `observations.nonfaulty_request_failed` (extra key, NOT an oracle
violation) is the shortest history met in which a request that carried no fault failed.

usage: scenario_mt.py <seed> <n_random> <max_len> <out.json>
"""
import asyncio, pickle, sys, json, random, itertools, immutables
from edb.server.compiler_pool import pool, state, worker_proc, amsg
from edb.server.compiler_pool import multitenant_worker as mtw

NW, NC, NDB, CACHE_SIZE = 2, 3, 2, 2
COMPS = ('user_schema', 'global_schema', 'reflection_cache', 'database_config', 'system_config')
PARTS = ('usp', 'gsp', 'rc', 'dc', 'sc')
GLOBALS = ('clients', 'LAST_STATE', 'COMPILER', 'INITED')

class Recorder:
    def __init__(self): self.last = None
    def compile_serialized_request(self, user_schema, global_schema, refl, dbc, sysc, *a, **k):
        self.last = (user_schema, global_schema, refl, dbc, sysc); return ('units', None)
    def compile_serialized_request_in_tx(self, cstate, *a, **k):
        self.last = ('in_tx', getattr(cstate, 'root', None)); return ('units', cstate)
    def compile_notebook(self, *a, **k): return self.compile_serialized_request(*a, **k)
    def compile_sql(self, *a, **k): return self.compile_serialized_request(*a, **k)

class FakeCState:
    """stands for CompilerConnectionState: the pickle does not carry the root user schema"""
    def __init__(self): self.root = 'UNSET'
    def set_root_user_schema(self, s): self.root = s
    def __getstate__(self): return {}
    def __setstate__(self, st): self.root = 'UNSET'

class Bad:
    """a value whose pickle cannot be loaded in the worker -> FailedStateSync"""
    def __init__(self, tag): self.tag = tag
    def __reduce__(self): return (_boom, (self.tag,))
def _boom(tag):
    # loading the pickle fails -- with one of several exception classes: a sync failure is a sync failure whatever its class
    n = sum(ord(ch) for ch in tag)
    raise (ValueError, MemoryError, RecursionError, pickle.UnpicklingError)[n % 4]('cannot load ' + tag)

class WorkerProc:
    """one simulated worker process: its own copy of multitenant_worker.py's module globals"""
    def __init__(self): self.g = dict(clients=immutables.Map(), LAST_STATE=None, COMPILER=Recorder(), INITED=True)
    def swap_in(self):
        self.saved = {k: getattr(mtw, k, None) for k in GLOBALS}
        for k, v in self.g.items(): setattr(mtw, k, v)
    def swap_out(self):
        self.g = {k: getattr(mtw, k, None) for k in GLOBALS}
        for k, v in self.saved.items(): setattr(mtw, k, v)

class InProcCon:
    def __init__(self, proc): self.proc = proc
    def is_closed(self): return False
    async def request(self, msg):
        box = {}
        class FakeWC:
            def __init__(s, *a): pass
            def iter_request(s): yield (1, msg)
            def reply(s, req_id, data): box['data'] = data
            def abort(s): pass
        orig = amsg.WorkerConnection; amsg.WorkerConnection = FakeWC
        self.proc.swap_in()
        try: worker_proc.worker('sock', 0, mtw.get_handler)
        finally:
            self.proc.swap_out(); amsg.WorkerConnection = orig
        return box['data']

class HandOverQueue:
    """stands for queue.WorkerQueue: hands out the worker the history step names (any worker can be the only free
    one, in which case the real queue returns it whatever condition/weighter say); condition and weighter are
    still evaluated on every worker so that the real closures run."""
    def __init__(self, workers): self.workers = workers; self.next = None
    async def acquire(self, *, condition=None, weighter=None):
        for w in self.workers:
            if condition is not None: condition(w)
            if weighter is not None: weighter(w)
        return self.next
    def release(self, w, *, put_in_front=True): pass

STATS = dict(compiled=0, failed_sync=0, tx=0, evictions=0, drops=0, nonfaulty_failed=0)

class CountingWorker(pool.MultiTenantWorker):
    """the real MultiTenantWorker; only counts the evictions its real maybe_invalidate_last decides on"""
    def maybe_invalidate_last(self):
        n = len(self._invalidated_clients); super().maybe_invalidate_last(); STATS['evictions'] += len(self._invalidated_clients) - n
        for cid in self._invalidated_clients[n:]: self.why[cid] = 'eviction'

def mk_values(empties=True):
    """per-tenant / per-(tenant, db) pools of 2 values; distinct objects and distinct contents everywhere, except that
    value 1 of the map-valued parts is an EMPTY map (or, with empties=False, a second non-empty one)"""
    def two(tag, key): return [immutables.Map({key: tag}), immutables.Map() if empties else immutables.Map({key: tag, 'alt': 1})]
    v = dict(usp={}, gsp={}, rc={}, dc={}, sc={})
    for c in range(NC):
        v['gsp'][c] = [pickle.dumps('G.c%d.v%d' % (c, i)) for i in range(2)]
        v['sc'][c] = two('c%d' % c, 's')
        for d in range(NDB):
            v['usp'][c, d] = [pickle.dumps('U.c%d.db%d.v%d' % (c, d, i)) for i in range(2)]
            v['rc'][c, d] = two('c%d.db%d' % (c, d), 'r')
            v['dc'][c, d] = two('c%d.db%d' % (c, d), 'd')
    return v

def show(x):
    """repr with map items sorted (immutables.Map iteration order depends on the per-process string hash seed)"""
    if isinstance(x, immutables.Map): return 'Map({%s})' % ', '.join('%r: %s' % (k, show(v)) for k, v in sorted(x.items()))
    if isinstance(x, tuple): return '(%s)' % ', '.join(show(y) for y in x)
    return repr(x)

def expected(usp, gsp, rc, dc, sc):
    return (pickle.loads(usp), pickle.loads(gsp), rc, dc, sc)

def mk_world():
    p = pool.MultiTenantPool.__new__(pool.MultiTenantPool)
    p._cache_size = CACHE_SIZE
    procs = [WorkerProc() for _ in range(NW)]; workers = []
    for i, pr in enumerate(procs):
        w = CountingWorker(p, None, i, None, None, None, None); w._con = InProcCon(pr); w.why = {}; workers.append(w)
    p._workers = {w.get_pid(): w for w in workers}
    p._workers_queue = HandOverQueue(workers)
    return p, procs, workers

LOOP = asyncio.new_event_loop()

def run_history(hist, empties=True, count=True):
    """returns None or dict(step, kind, differs, compiled_with, supplied); also sets run_history.nonfaulty_failed to
    (step, repr(error)) of the first request without fault that failed, or None"""
    stats = STATS if count else dict(STATS)
    saved_ev = STATS['evictions']
    try:
        return _run_history(hist, empties, stats)
    finally:
        if not count: STATS['evictions'] = saved_ev

def _run_history(hist, empties, stats):
    vals = mk_values(empties)
    p, procs, workers = mk_world()
    run_history.nonfaulty_failed = None
    for n, st in enumerate(hist):
        if st[0] == 'drop':
            p.drop_tenant(st[1]); stats['drops'] += 1
            for w in workers:
                if st[1] in w._invalidated_clients: w.why[st[1]] = 'drop_tenant'
            continue
        wi, cid, db, ui, gi, ri, di, si, fault = st
        usp, gsp, rc, dc, sc = vals['usp'][cid, db][ui], vals['gsp'][cid][gi], vals['rc'][cid, db][ri], vals['dc'][cid, db][di], vals['sc'][cid][si]
        if fault == 'usp': usp = pickle.dumps(Bad('usp%d' % n))
        elif fault == 'gsp': gsp = pickle.dumps(Bad('gsp%d' % n))
        elif fault == 'rc': rc = immutables.Map({'bad': Bad('rc%d' % n)})
        elif fault == 'dc': dc = immutables.Map({'bad': Bad('dc%d' % n)})
        elif fault == 'sc': sc = immutables.Map({'bad': Bad('sc%d' % n)})
        w = workers[wi]; p._workers_queue.next = w; rec = procs[wi].g['COMPILER']; rec.last = None
        invalidated = ('presented_after_' + w.why[cid]) if cid in w._invalidated_clients else None
        dbname = 'db%d' % db
        if fault == 'tx':
            # a statement inside a transaction: compile_in_tx with a pickled compiler state (non-REUSE path)
            try: LOOP.run_until_complete(p.compile_in_tx(dbname, usp, 1, pickle.dumps(FakeCState()), 0, 'q', client_id=cid))
            except Exception as ex:
                stats['nonfaulty_failed'] += 1
                if run_history.nonfaulty_failed is None: run_history.nonfaulty_failed = (n, '%s: %s' % (type(ex).__name__, ex))
                continue
            stats['tx'] += 1
            if rec.last is not None and rec.last != ('in_tx', pickle.loads(usp)):
                return dict(step=n, kind=invalidated or 'tx_root_user_schema',
                            differs=['root user schema of the transaction'], compiled_with=show(rec.last), supplied=show(pickle.loads(usp)))
            continue
        err = None
        try: LOOP.run_until_complete(p.compile(dbname, usp, gsp, rc, dc, sc, 'q', client_id=cid))
        except state.FailedStateSync as ex:
            stats['failed_sync'] += 1; err = ex
        except Exception as ex: err = ex
        if err is not None and fault is None:
            stats['nonfaulty_failed'] += 1
            if run_history.nonfaulty_failed is None: run_history.nonfaulty_failed = (n, '%s: %s' % (type(err).__name__, err))
        if rec.last is not None: stats['compiled'] += 1
        if rec.last is not None and fault is None:
            exp = expected(usp, gsp, rc, dc, sc)
            if rec.last != exp:
                which = [nm for nm, a, b in zip(COMPS, rec.last, exp) if a != b]
                if invalidated: kind = invalidated
                elif all(nm in ('reflection_cache', 'database_config') and a == immutables.Map() and b
                         for nm, a, b in zip(COMPS, rec.last, exp) if a != b): kind = 'empty_map_update_lost'
                else: kind = 'state_mismatch'
                return dict(step=n, kind=kind, differs=which, compiled_with=show(rec.last), supplied=show(exp))
    return None

def shrink(hist, pred):
    """greedy: drop steps, zero fields, swap the two values of one part of one tenant/db throughout -- while
    pred(history) stays true"""
    hist = [tuple(s) for s in hist]
    changed = True
    while changed:
        changed = False
        for i in range(len(hist) - 1, -1, -1):
            cand = hist[:i] + hist[i + 1:]
            if cand and pred(cand): hist = cand; changed = True
        for i, s in enumerate(hist):
            if s[0] == 'drop': continue
            for j in range(len(s)):
                if s[j] in (0, None): continue
                t = list(s); t[j] = None if j == 8 else 0; cand = hist[:i] + [tuple(t)] + hist[i + 1:]
                if pred(cand): hist = cand; s = tuple(t); changed = True
        for j in range(3, 8):
            groups = {(s[1], s[2]) if j in (3, 5, 6) else (s[1],) for s in hist if s[0] != 'drop'}
            for grp in sorted(groups):
                sel = [i for i, s in enumerate(hist) if s[0] != 'drop' and ((s[1], s[2]) if j in (3, 5, 6) else (s[1],)) == grp]
                if sum(hist[i][j] for i in sel) * 2 <= len(sel): continue
                cand = list(hist)
                for i in sel: t = list(cand[i]); t[j] = 1 - t[j]; cand[i] = tuple(t)
                if pred(cand): hist = cand; changed = True
    return hist

def report(hist, empties, f):
    kind = f['kind']
    def pred(h):
        g = run_history(h, empties, count=False)
        return g is not None and g['kind'] == kind and g['step'] == len(h) - 1
    h = shrink(hist[:f['step'] + 1], pred)
    g = run_history(h, empties, count=False)
    return dict(history=[list(x) for x in h], empties=empties, **g)

def families(rnd, n_random, max_len):
    """yields histories: three structured families (shuffled, n_random of each; exhaustive when n_random is large
    enough), then n_random random ones"""
    # 1) vary one component at a time on worker 0 / tenant 0 / db 0, with faults, a tx and a drop, length 3
    alpha = [('drop', 0), (0, 0, 0, 0, 0, 0, 0, 0, 'tx')]
    for comp in range(5):
        for v in (0, 1):
            for f in (None, PARTS[comp]):
                s = [0, 0, 0, 0, 0, 0, 0, 0, f]; s[3 + comp] = v; alpha.append(tuple(s))
    fam = list(itertools.product(alpha, repeat=3)); rnd.shuffle(fam)
    for h in fam[:max(0, n_random)]: yield list(h)
    # 2) tenant 0 on worker 0: any state, then something that invalidates it there (drop, two other tenants -> eviction,
    #    an eviction whose request fails), then any state again (plain request or tx)
    other = lambda c, f=None: (0, c, 0, 0, 0, 0, 0, 0, f)
    mids = [[('drop', 0)], [('drop', 0), other(1)], [other(1), other(2)], [other(1), other(2, 'gsp')], [other(1), other(2, 'gsp'), other(2)]]
    states = list(itertools.product((0, 1), repeat=5))
    fam = []
    for a in ((0,) * 5, (1,) * 5):           # the all-0 block (170 histories) comes first: exhaustive for n_random >= 170
        blk = [[(0, 0, 0) + a + (None,)] + m + [(0, 0, 0) + b + (None,)] for m in mids for b in states]
        blk += [[(0, 0, 0) + a + (None,)] + m + [(0, 0, 0, u, 0, 0, 0, 0, 'tx')] for m in mids for u in (0, 1)]
        rnd.shuffle(blk); fam += blk
    for h in fam[:max(0, n_random)]: yield h
    # 3) tenant 0 on worker 0: any state on db 0, then any state on db 1 (a database the worker does not have yet)
    fam = [[(0, 0, 0) + a + (None,), (0, 0, 1) + b + (None,)] for a in states for b in states]
    rnd.shuffle(fam)
    for h in fam[:max(0, n_random)]: yield h
    # 4) random
    faults = [None, None, None, None, 'tx', 'tx', 'usp', 'gsp', 'rc', 'dc', 'sc']
    def step():
        if rnd.random() < 0.15: return ('drop', rnd.randrange(NC))
        return (rnd.randrange(NW), rnd.randrange(NC), rnd.randrange(NDB)) + tuple(rnd.randrange(2) for _ in range(5)) + (rnd.choice(faults),)
    for _ in range(n_random): yield [step() for _ in range(rnd.randint(2, max_len))]

def main():
    seed, n_random, max_len, out = int(sys.argv[1]), int(sys.argv[2]), int(sys.argv[3]), sys.argv[4]
    res = dict(histories=0, failure=None, other_failures=[], observations={})
    liveness = None          # shortest (history prefix, empties) in which a request without fault failed
    def note_liveness(h, empties, f):
        nonlocal liveness
        nf = run_history.nonfaulty_failed
        if nf is not None and not (f and f['step'] <= nf[0]) and (liveness is None or nf[0] + 1 < len(liveness[0])):
            liveness = (h[:nf[0] + 1], empties)
    # pass 1: empty maps in play; stops at the first failure, like the single-tenant explorer
    for h in families(random.Random(seed), n_random, max_len):
        res['histories'] += 1
        f = run_history(h, True); note_liveness(h, True, f)
        if f: res['failure'] = report(h, True, f); break
    # pass 2 (only if pass 1 failed): NO empty maps, so nothing here can be the empty-map defect; not stopped at the
    # first failure; keeps the shortest failing history of every further kind
    if res['failure'] is not None:
        best = {}
        for h in families(random.Random(seed), n_random, max_len):
            res['histories'] += 1
            f = run_history(h, False); note_liveness(h, False, f)
            if f and f['kind'] != res['failure']['kind'] and (f['kind'] not in best or f['step'] < best[f['kind']][1]['step']):
                best[f['kind']] = (h, f)
        for kind in sorted(best): res['other_failures'].append(report(best[kind][0], False, best[kind][1]))
    if liveness is not None:
        # not an oracle violation: a request that carried no fault failed.  Shrunk and reported for information only.
        h, empties = liveness
        def pred(c):
            g = run_history(c, empties, count=False); nf = run_history.nonfaulty_failed
            return g is None and nf is not None and nf[0] == len(c) - 1
        h = shrink(h, pred); run_history(h, empties, count=False)
        res['observations']['nonfaulty_request_failed'] = dict(history=[list(x) for x in h], empties=empties, step=run_history.nonfaulty_failed[0], error=run_history.nonfaulty_failed[1])
    res['stats'] = STATS
    json.dump(res, open(out, 'w'), indent=1)

if __name__ == '__main__':
    main()
