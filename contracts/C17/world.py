"""C17 sidecar contracts: compiler workers compile against the caller's state.

Coupled state: server belief B(w) = (w._dbs, w._global_schema_pickle, w._system_config, w._last_pickled_state)
and worker actual A = (DBS, GLOBAL_SCHEMA, INSTANCE_CONFIG, LAST_STATE).  pickle/unpickle are uninterpreted
(pk/unpk with unpk(pk(x)) == x).  Object identity (`is`) is equality of opaque references.
"""
from pyvc.engine import World

POOL = 'edb/server/compiler_pool/pool.py'
WORKER = 'edb/server/compiler_pool/worker.py'
STATE = 'edb/server/compiler_pool/state.py'

def build():
    w = World('C17')
    w.any('Obj', truthy='uninterpreted')        # opaque python objects (pickles, schemas, maps): identity + truthiness only
    w.rec('PDS', [('user_schema_pickle', 'Obj'), ('reflection_cache', 'Obj'), ('database_config', 'Obj')], STATE, 'PickledDatabaseState')
    w.rec('DS', [('name', 'Obj'), ('user_schema', 'Obj'), ('reflection_cache', 'Obj'), ('database_config', 'Obj')], STATE, 'DatabaseState')
    w.refclass('Worker', {'_dbs': 'Map[Obj,PDS]', '_global_schema_pickle': 'Obj', '_system_config': 'Obj',
                          '_last_pickled_state': 'Opt[Obj]', '_closed': 'bool'}, POOL, 'BaseWorker')
    w.rec('Cb', [('worker', 'Worker'), ('dbname', 'Obj'), ('kw', 'Map[str,Obj]')])
    w.ufunc('pk', ['Obj'], 'Obj'); w.ufunc('unpk', ['Obj'], 'Obj')
    w.axioms.append('forall(Obj, lambda x: unpk(pk(x)) == x)')
    w.trusted.append('pickle.dumps/loads are uninterpreted with loads(dumps(x)) == x; _pickle_memoized(x) returns dumps(x)')

    CB = POOL + ':AbstractPool._compute_compile_preargs.<locals>.sync_worker_state_cb'
    w.define('B_has(wk, db)', 'db in wk._dbs')
    w.define('eff(new, old_)', 'some(new) if not is_none(new) else old_')
    w.contract(POOL, 'AbstractPool._compute_compile_preargs.<locals>.sync_worker_state_cb',
        params={'worker': 'Worker', 'dbname': 'Obj', 'user_schema_pickle': 'Opt[Obj]', 'global_schema_pickle': 'Opt[Obj]',
                'reflection_cache': 'Opt[Obj]', 'database_config': 'Opt[Obj]', 'system_config': 'Opt[Obj]'},
        requires=['implies(not (dbname in worker._dbs), not is_none(user_schema_pickle) and not is_none(reflection_cache) and not is_none(global_schema_pickle) and not is_none(database_config) and not is_none(system_config))',
                  # type invariant: pickles are non-empty bytes, hence truthy
                  'implies(not is_none(user_schema_pickle), bool(some(user_schema_pickle)))',
                  'implies(dbname in worker._dbs, bool(worker._dbs[dbname].user_schema_pickle))'],
        modifies=['Worker._dbs', 'Worker._global_schema_pickle', 'Worker._system_config'],
        ensures=[
            # after acknowledging, the belief about (worker, dbname) is exactly what was transmitted, else what was believed
            'dbname in worker._dbs',
            'worker._dbs[dbname].user_schema_pickle == (some(user_schema_pickle) if not is_none(user_schema_pickle) else old(worker._dbs[dbname].user_schema_pickle))',
            'worker._dbs[dbname].reflection_cache == (some(reflection_cache) if not is_none(reflection_cache) else old(worker._dbs[dbname].reflection_cache))',
            'worker._dbs[dbname].database_config == (some(database_config) if not is_none(database_config) else old(worker._dbs[dbname].database_config))',
            'worker._global_schema_pickle == (some(global_schema_pickle) if not is_none(global_schema_pickle) else old(worker._global_schema_pickle))',
            'worker._system_config == (some(system_config) if not is_none(system_config) else old(worker._system_config))',
            # frame: other databases and other workers untouched
            'forall(Obj, lambda d: implies(d != dbname, (d in worker._dbs) == old(d in worker._dbs) and implies(d in worker._dbs, worker._dbs[d] == old(worker._dbs[d]))))',
            'forall(Worker, lambda o: implies(o != worker, o._dbs == old(o._dbs) and o._global_schema_pickle == old(o._global_schema_pickle) and o._system_config == old(o._system_config)))',
        ])
    return w
