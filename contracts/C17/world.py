"""C17 sidecar contracts: compiler workers compile against the caller's state.

Coupled state: server belief B(w) = (w._dbs, w._global_schema_pickle, w._system_config, w._last_pickled_state)
and worker actual A = (DBS, GLOBAL_SCHEMA, INSTANCE_CONFIG, LAST_STATE).  pickle/unpickle are uninterpreted
(pk/unpk with unpk(pk(x)) == x).  Object identity (`is`) is equality of opaque references.
"""
from pyvc.engine import World

POOL = 'edb/server/compiler_pool/pool.py'
WORKER = 'edb/server/compiler_pool/worker.py'
STATE = 'edb/server/compiler_pool/state.py'

def build():
    w = World('C17')
    w.any('Obj', truthy='uninterpreted')        # opaque python objects (pickles, schemas, maps): identity + truthiness only
    w.rec('PDS', [('user_schema_pickle', 'Obj'), ('reflection_cache', 'Obj'), ('database_config', 'Obj')], STATE, 'PickledDatabaseState')
    w.rec('DS', [('name', 'Obj'), ('user_schema', 'Obj'), ('reflection_cache', 'Obj'), ('database_config', 'Obj')], STATE, 'DatabaseState')
    w.refclass('Worker', {'_dbs': 'Map[Obj,PDS]', '_global_schema_pickle': 'Obj', '_system_config': 'Obj',
                          '_last_pickled_state': 'Opt[Obj]', '_closed': 'bool'}, POOL, 'BaseWorker')
    w.rec('Cb', [('worker', 'Worker'), ('dbname', 'Obj'), ('kw', 'Map[str,Obj]')])
    w.ufunc('pk', ['Obj'], 'Obj', facts=['unpk(pk(a0)) == a0']); w.ufunc('unpk', ['Obj'], 'Obj')
    w.trusted.append('pickle.dumps/loads are uninterpreted with loads(dumps(x)) == x; _pickle_memoized(x) returns dumps(x)')

    CB = POOL + ':AbstractPool._compute_compile_preargs.<locals>.sync_worker_state_cb'
    w.define('B_has(wk, db)', 'db in wk._dbs')
    w.define('eff(new, old_)', 'some(new) if not is_none(new) else old_')
    w.contract(POOL, 'AbstractPool._compute_compile_preargs.<locals>.sync_worker_state_cb',
        params={'worker': 'Worker', 'dbname': 'Obj', 'user_schema_pickle': 'Opt[Obj]', 'global_schema_pickle': 'Opt[Obj]',
                'reflection_cache': 'Opt[Obj]', 'database_config': 'Opt[Obj]', 'system_config': 'Opt[Obj]'},
        requires=['implies(not (dbname in worker._dbs), not is_none(user_schema_pickle) and not is_none(reflection_cache) and not is_none(global_schema_pickle) and not is_none(database_config) and not is_none(system_config))',
                  # type invariant: pickles are non-empty bytes, hence truthy
                  'implies(not is_none(user_schema_pickle), bool(some(user_schema_pickle)))',
                  'implies(dbname in worker._dbs, bool(worker._dbs[dbname].user_schema_pickle))'],
        modifies=['Worker._dbs', 'Worker._global_schema_pickle', 'Worker._system_config'],
        ensures=[
            # after acknowledging, the belief about (worker, dbname) is exactly what was transmitted, else what was believed
            'dbname in worker._dbs',
            'worker._dbs[dbname].user_schema_pickle == (some(user_schema_pickle) if not is_none(user_schema_pickle) else old(worker._dbs[dbname].user_schema_pickle))',
            'worker._dbs[dbname].reflection_cache == (some(reflection_cache) if not is_none(reflection_cache) else old(worker._dbs[dbname].reflection_cache))',
            'worker._dbs[dbname].database_config == (some(database_config) if not is_none(database_config) else old(worker._dbs[dbname].database_config))',
            'worker._global_schema_pickle == (some(global_schema_pickle) if not is_none(global_schema_pickle) else old(worker._global_schema_pickle))',
            'worker._system_config == (some(system_config) if not is_none(system_config) else old(worker._system_config))',
            # frame: other databases and other workers untouched
            'forall(Obj, lambda d: implies(d != dbname, (d in worker._dbs) == old(d in worker._dbs) and implies(d in worker._dbs, worker._dbs[d] == old(worker._dbs[d]))))',
            'forall(Worker, lambda o: implies(o != worker, o._dbs == old(o._dbs) and o._global_schema_pickle == old(o._global_schema_pickle) and o._system_config == old(o._system_config)))',
        ])
    w.partial_types['sync_worker_state_cb'] = 'Cb'
    w.contract(POOL, '_pickle_memoized', params={'schema': 'Obj'}, returns='Obj', pure=True, trusted=True,
               ensures=['result == pk(schema)', 'bool(result)'])
    def sent(i, comp, packed):
        a = 'result[0][%d]' % i
        val = 'pk(%s)' % comp if packed else comp
        believed = {'user_schema_pickle': 'worker._dbs[dbname].user_schema_pickle', 'reflection_cache': 'worker._dbs[dbname].reflection_cache',
                    'database_config': 'worker._dbs[dbname].database_config', 'global_schema_pickle': 'worker._global_schema_pickle',
                    'system_config': 'worker._system_config'}[comp]
        return [
            # what is not transmitted is (by identity) what the server believes the worker holds
            'implies(is_none(%s), dbname in worker._dbs and %s == %s)' % (a, believed, comp),
            'implies(not is_none(%s), some(%s) == %s)' % (a, a, val),
            # the acknowledgement callback records exactly the transmitted parts
            'implies(not is_none(%s), not is_none(result[1]) and ("%s" in some(result[1]).kw) and some(result[1]).kw["%s"] == %s)' % (a, comp, comp, comp),
            'implies(is_none(%s) and not is_none(result[1]), not ("%s" in some(result[1]).kw))' % (a, comp),
        ]
    ens = ['len(result[0]) == 7', 'some(result[0][0]) == method_name', 'some(result[0][1]) == dbname', 'not is_none(result[0][0])', 'not is_none(result[0][1])',
           'implies(not (dbname in worker._dbs), not is_none(result[0][2]) and not is_none(result[0][3]) and not is_none(result[0][4]) and not is_none(result[0][5]) and not is_none(result[0][6]))',
           'implies(not is_none(result[1]), some(result[1]).worker == worker and some(result[1]).dbname == dbname)',
           'is_none(result[1]) == (is_none(result[0][2]) and is_none(result[0][3]) and is_none(result[0][4]) and is_none(result[0][5]) and is_none(result[0][6]))']
    for i, comp, packed in [(2, 'user_schema_pickle', False), (3, 'reflection_cache', True), (4, 'global_schema_pickle', False), (5, 'database_config', True), (6, 'system_config', True)]:
        ens += sent(i, comp, packed)
    w.contract(POOL, 'AbstractPool._compute_compile_preargs',
        params={'self': 'Obj', 'method_name': 'Obj', 'worker': 'Worker', 'dbname': 'Obj', 'user_schema_pickle': 'Obj', 'global_schema_pickle': 'Obj',
                'reflection_cache': 'Obj', 'database_config': 'Obj', 'system_config': 'Obj'},
        returns='Tuple[Seq[Opt[Obj]],Opt[Cb]]', ensures=ens,
        hints={'var_types': {'to_update': 'Map[str,Obj]'}})
    # ------------------------------------------------------------------ worker process
    WSTATE = {'DBS': 'Map[Obj,DS]', 'GLOBAL_SCHEMA': 'Obj', 'INSTANCE_CONFIG': 'Obj'}
    SYNC_PARAMS = {'dbname': 'Obj', 'user_schema': 'Opt[Obj]', 'reflection_cache': 'Opt[Obj]', 'global_schema': 'Opt[Obj]',
                   'database_config': 'Opt[Obj]', 'system_config': 'Opt[Obj]'}
    UNCHANGED = ['forall(Obj, lambda d: (d in DBS) == old(d in DBS) and implies(d in DBS, DBS[d] == old(DBS[d])))',
                 'GLOBAL_SCHEMA == old(GLOBAL_SCHEMA)', 'INSTANCE_CONFIG == old(INSTANCE_CONFIG)']
    SYNCED = ['dbname in DBS',
              'DBS[dbname].user_schema == (unpk(some(user_schema)) if not is_none(user_schema) else old(DBS[dbname].user_schema))',
              'DBS[dbname].reflection_cache == (unpk(some(reflection_cache)) if not is_none(reflection_cache) else old(DBS[dbname].reflection_cache))',
              'DBS[dbname].database_config == (unpk(some(database_config)) if not is_none(database_config) else old(DBS[dbname].database_config))',
              'GLOBAL_SCHEMA == (unpk(some(global_schema)) if not is_none(global_schema) else old(GLOBAL_SCHEMA))',
              'INSTANCE_CONFIG == (unpk(some(system_config)) if not is_none(system_config) else old(INSTANCE_CONFIG))',
              'forall(Obj, lambda d: implies(d != dbname, (d in DBS) == old(d in DBS) and implies(d in DBS, DBS[d] == old(DBS[d]))))']
    w.contract(WORKER, '__sync__', params=SYNC_PARAMS, state=WSTATE, returns='DS', modifies=list(WSTATE),
        ensures=SYNCED + ['result == DBS[dbname]'],
        raises={'FailedStateSync': dict(ensures=UNCHANGED)},     # a failed state transfer leaves the worker's state as it was
        hints={'var_types': {'updates': 'Map[str,Obj]'}, 'axioms': ['unpk']})
    return w
