"""C17 sidecar contracts: compiler workers compile against the caller's state.

Coupled state.  Server belief about a worker w:  B(w) = (w._dbs, w._global_schema_pickle, w._system_config,
w._last_pickled_state).  What the worker process really holds: A(w) = (DBS, GLOBAL_SCHEMA, INSTANCE_CONFIG, LAST_STATE);
on the server side A(w) is *ghost* state of the Worker handle (fields A_dbs, A_global, A_sys, A_last), in the worker
process it is the module globals of worker.py.  pickle.dumps/loads are uninterpreted (pk/unpk, unpk(pk(x)) == x);
`is` is identity of opaque references; truthiness of opaque objects is uninterpreted (an empty Map is falsy).

Coupling invariant J(w) (holds whenever no call to w is in flight):
    for every db in w._dbs:  db in A_dbs, A_dbs[db].user_schema == unpk(w._dbs[db].user_schema_pickle),
                             A_dbs[db].reflection_cache == w._dbs[db].reflection_cache, same for database_config;
    A_global == unpk(w._global_schema_pickle);  A_sys == w._system_config.

Chain of obligations that carries the property:
  server  AbstractPool.compile* : J + postcondition of _compute_compile_preargs  ==> precondition of the RPC (pre@callsite of BaseWorker.call)
  server  BaseWorker.call       : acknowledges the transfer (runs the callback) iff the worker completed its state sync
  worker  compile*              : RPC precondition ==> the compiler entry point receives exactly the request's state (pre@callsite of COMPILER.*)
  worker  __sync__              : all-or-nothing
  server  AbstractPool.compile* : J re-established on every outcome
The channel (amsg + worker_proc.worker loop) is trusted glue: `_request` is given the worker functions' *verified*
contracts with the worker globals renamed to the ghost fields (same clause texts, see `_a()`).
"""
import z3
from pyvc.engine import World
from pyvc.vtypes import V, TOpt, NONE, vite, unpack, coerce

POOL = 'edb/server/compiler_pool/pool.py'
WORKER = 'edb/server/compiler_pool/worker.py'
STATE = 'edb/server/compiler_pool/state.py'

COMPS = ['user_schema_pickle', 'reflection_cache', 'global_schema_pickle', 'database_config', 'system_config']

def _a(clauses):
    """worker-process clause -> the same clause over the ghost fields of the server-side Worker handle `self`"""
    out = []
    for c in clauses:
        c = c.replace('GLOBAL_SCHEMA', 'self.A_global').replace('INSTANCE_CONFIG', 'self.A_sys').replace('LAST_STATE', 'self.A_last')
        c = c.replace('DBS', 'self.A_dbs')
        out.append(c)
    return out

def build():
    w = World('C17')
    w.refclass('Obj', {'root_user_schema': 'Obj', '__formatted_error__': 'Obj'}, truthy='uninterpreted', universal=True)
    w.rec('PDS', [('user_schema_pickle', 'Obj'), ('reflection_cache', 'Obj'), ('database_config', 'Obj')], STATE, 'PickledDatabaseState')
    w.rec('DS', [('name', 'Obj'), ('user_schema', 'Obj'), ('reflection_cache', 'Obj'), ('database_config', 'Obj')], STATE, 'DatabaseState')
    w.refclass('Worker', {'_dbs': 'Map[Obj,PDS]', '_global_schema_pickle': 'Obj', '_system_config': 'Obj',
                          '_last_pickled_state': 'Opt[Obj]', '_closed': 'bool', '_con': 'Con', '_last_used': 'float',
                          # ghost: what the worker process holds, and the outcome of the last RPC
                          'A_dbs': 'Map[Obj,DS]', 'A_global': 'Obj', 'A_sys': 'Obj', 'A_last': 'Opt[Obj]',
                          'G_synced': 'bool', 'G_acked': 'bool', 'G_status': 'int', 'G_fss': 'bool'}, POOL, 'BaseWorker')
    w.refclass('Con', {})
    w.refclass('PoolT', {}, POOL, 'AbstractPool')
    w.rec('Cb', [('worker', 'Worker'), ('dbname', 'Obj'), ('kw', 'Map[str,Obj]')])
    w.ufunc('pk', ['Obj'], 'Obj', facts=['unpk(pk(a0)) == a0', 'bool(pk(a0))']); w.ufunc('unpk', ['Obj'], 'Obj')
    w.trusted.append('pickle.dumps/loads are uninterpreted with loads(dumps(x)) == x; a pickle is a non-empty (truthy) bytes object; _pickle_memoized(x) returns dumps(x)')
    w.trusted.append('the amsg channel and worker_proc.worker deliver (method, args) unchanged to the function of that name in worker.py '
                     'and return its outcome as (0,res) / (1,exc,tb) / (2,msg); BaseWorker._request is given the verified contracts of the worker functions')
    w.opaque_exprs['state.REUSE_LAST_STATE_MARKER'] = 'Obj'

    # ------------------------------------------------------------------ server: acknowledgement callback
    w.partial_types['sync_worker_state_cb'] = 'Cb'
    CBQ = 'AbstractPool._compute_compile_preargs.<locals>.sync_worker_state_cb'
    OPTS = {'user_schema_pickle': 'Opt[Obj]', 'global_schema_pickle': 'Opt[Obj]', 'reflection_cache': 'Opt[Obj]',
            'database_config': 'Opt[Obj]', 'system_config': 'Opt[Obj]'}
    def cb_post(wk, db, val):
        """belief after acknowledging: exactly what was transmitted, else what was believed; val(comp) -> (present?, value)"""
        out = ['%s in %s._dbs' % (db, wk)]
        for comp, fld in (('user_schema_pickle', '_dbs[%s].user_schema_pickle' % db), ('reflection_cache', '_dbs[%s].reflection_cache' % db),
                          ('database_config', '_dbs[%s].database_config' % db), ('global_schema_pickle', '_global_schema_pickle'),
                          ('system_config', '_system_config')):
            present, value = val(comp)
            out.append('%s.%s == (%s if %s else old(%s.%s))' % (wk, fld, value, present, wk, fld))
        out.append('map_same_except(%s._dbs, old(%s._dbs), %s)' % (wk, wk, db))
        out.append('heap_same_except("Worker._dbs", %s) and heap_same_except("Worker._global_schema_pickle", %s) and heap_same_except("Worker._system_config", %s)' % (wk, wk, wk))
        return out
    P = {'worker': 'Worker', 'dbname': 'Obj'}; P.update(OPTS)
    w.contract(POOL, CBQ, params=P,
        requires=['implies(not (dbname in worker._dbs), ' + ' and '.join('not is_none(%s)' % c for c in COMPS) + ')',
                  'implies(not is_none(user_schema_pickle), bool(some(user_schema_pickle)))',     # a pickle is truthy
                  'implies(dbname in worker._dbs, bool(worker._dbs[dbname].user_schema_pickle))'],
        modifies=['Worker._dbs', 'Worker._global_schema_pickle', 'Worker._system_config'],
        ensures=cb_post('worker', 'dbname', lambda c: ('not is_none(%s)' % c, 'some(%s)' % c)))
    def call_cb(ex, recv, args, kwargs, node):
        fr = ex.lookup_nested(POOL, CBQ)
        kw = recv.t['kw']
        a = {'worker': recv.t['worker'], 'dbname': recv.t['dbname']}
        for comp in COMPS:
            kt = z3.StringVal(comp)
            a[comp] = V(TOpt(w.ty('Obj')), (z3.Not(z3.Select(kw.t[0], kt)), unpack(z3.Select(kw.t[1], kt), w.ty('Obj'))))
        r = ex.call_func(fr, [], a, node)
        # ghost update attached to the event "the acknowledgement callback ran": G_acked := True on that worker
        ex.heap_write(recv.t['worker'], 'G_acked', V(w.ty('bool'), z3.BoolVal(True)))
        return r
    w.callable_recs['Cb'] = call_cb

    # ------------------------------------------------------------------ server: what is transmitted
    w.contract(POOL, '_pickle_memoized', params={'schema': 'Obj'}, returns='Obj', pure=True, trusted=True,
               ensures=['result == pk(schema)', 'bool(result)'])
    def sent(i, comp, packed):
        a = 'result[0][%d]' % i
        val = 'pk(%s)' % comp if packed else comp
        believed = {'user_schema_pickle': 'worker._dbs[dbname].user_schema_pickle', 'reflection_cache': 'worker._dbs[dbname].reflection_cache',
                    'database_config': 'worker._dbs[dbname].database_config', 'global_schema_pickle': 'worker._global_schema_pickle',
                    'system_config': 'worker._system_config'}[comp]
        return ['implies(is_none(%s), dbname in worker._dbs and %s == %s)' % (a, believed, comp),      # not transmitted = (by identity) what the server believes the worker holds
                'implies(not is_none(%s), some(%s) == %s)' % (a, a, val),
                'implies(not is_none(%s), not is_none(result[1]) and ("%s" in some(result[1]).kw) and some(result[1]).kw["%s"] == %s)' % (a, comp, comp, comp),
                'implies(is_none(%s) and not is_none(result[1]), not ("%s" in some(result[1]).kw))' % (a, comp)]
    ens = ['len(result[0]) == 7', 'not is_none(result[0][0])', 'not is_none(result[0][1])', 'some(result[0][0]) == method_name', 'some(result[0][1]) == dbname',
           'implies(not (dbname in worker._dbs), not is_none(result[0][2]) and not is_none(result[0][3]) and not is_none(result[0][4]) and not is_none(result[0][5]) and not is_none(result[0][6]))',
           'implies(not is_none(result[1]), some(result[1]).worker == worker and some(result[1]).dbname == dbname)',
           'is_none(result[1]) == (is_none(result[0][2]) and is_none(result[0][3]) and is_none(result[0][4]) and is_none(result[0][5]) and is_none(result[0][6]))']
    ORDER = [(2, 'user_schema_pickle', False), (3, 'reflection_cache', True), (4, 'global_schema_pickle', False), (5, 'database_config', True), (6, 'system_config', True)]
    for i, comp, packed in ORDER: ens += sent(i, comp, packed)
    REQP = {'user_schema_pickle': 'Obj', 'global_schema_pickle': 'Obj', 'reflection_cache': 'Obj', 'database_config': 'Obj', 'system_config': 'Obj'}
    P = {'self': 'PoolT', 'method_name': 'Obj', 'worker': 'Worker', 'dbname': 'Obj'}; P.update(REQP)
    w.contract(POOL, 'AbstractPool._compute_compile_preargs', params=P, returns='Tuple[Seq[Opt[Obj]],Opt[Cb]]', ensures=ens,
               hints={'var_types': {'to_update': 'Map[str,Obj]'}})

    # ------------------------------------------------------------------ worker process
    WSTATE = {'DBS': 'Map[Obj,DS]', 'GLOBAL_SCHEMA': 'Obj', 'INSTANCE_CONFIG': 'Obj'}
    SYNC_PARAMS = {'dbname': 'Obj', 'user_schema': 'Opt[Obj]', 'reflection_cache': 'Opt[Obj]', 'global_schema': 'Opt[Obj]',
                   'database_config': 'Opt[Obj]', 'system_config': 'Opt[Obj]'}
    UNCHANGED = ['map_same(DBS, old(DBS))', 'GLOBAL_SCHEMA == old(GLOBAL_SCHEMA)', 'INSTANCE_CONFIG == old(INSTANCE_CONFIG)']
    OTHERS = 'map_same_except(DBS, old(DBS), dbname)'
    SYNCED = ['dbname in DBS',
              'DBS[dbname].user_schema == (unpk(some(user_schema)) if not is_none(user_schema) else old(DBS[dbname].user_schema))',
              'DBS[dbname].reflection_cache == (unpk(some(reflection_cache)) if not is_none(reflection_cache) else old(DBS[dbname].reflection_cache))',
              'DBS[dbname].database_config == (unpk(some(database_config)) if not is_none(database_config) else old(DBS[dbname].database_config))',
              'GLOBAL_SCHEMA == (unpk(some(global_schema)) if not is_none(global_schema) else old(GLOBAL_SCHEMA))',
              'INSTANCE_CONFIG == (unpk(some(system_config)) if not is_none(system_config) else old(INSTANCE_CONFIG))', OTHERS]
    w.contract(WORKER, '__sync__', params=SYNC_PARAMS, state=WSTATE, returns='DS', modifies=list(WSTATE),
        ensures=SYNCED + ['result == DBS[dbname]'],
        raises={'FailedStateSync': dict(ensures=UNCHANGED)},     # a failed state transfer leaves the worker's state as it was
        hints={'var_types': {'updates': 'Map[str,Obj]'}})

    REQ = {'req_usp': 'Obj', 'req_gsp': 'Obj', 'req_rc': 'Obj', 'req_dc': 'Obj', 'req_sc': 'Obj'}   # ghost: the state supplied with the request
    FRESH = ['user_schema == unpk(req_usp)', 'global_schema == unpk(req_gsp)', 'reflection_cache == req_rc',
             'database_config == req_dc', 'system_config == req_sc']
    w.refclass('CompilerT', {})
    for m in ('compile_serialized_request', 'compile_notebook', 'compile_graphql', 'compile_sql'):
        w.ext_methods['CompilerT.' + m] = dict(
            params={'user_schema': 'Obj', 'global_schema': 'Obj', 'reflection_cache': 'Obj', 'database_config': 'Obj', 'system_config': 'Obj'},
            ghost=REQ, requires=FRESH, returns='Tuple[Obj,Opt[Obj]]' if m == 'compile_serialized_request' else 'Obj',
            raises={'CompileError': {}}, tag='property')
    w.ext_methods['CompilerT.compile'] = dict(   # keyword form used by worker.compile_graphql
        params={'user_schema': 'Obj', 'global_schema': 'Obj', 'reflection_cache': 'Obj', 'database_config': 'Obj', 'system_config': 'Obj', 'request': 'Obj'},
        ghost=REQ, requires=FRESH, returns='Tuple[Obj,Opt[Obj]]', raises={'CompileError': {}}, tag='property')
    w.refclass('GqlOp', {'edgeql_ast': 'Obj'})
    w.ext_funcs['graphql.compile_graphql'] = dict(
        params={'std_schema': 'Obj', 'user_schema': 'Obj', 'global_schema': 'Obj', 'database_config': 'Obj', 'system_config': 'Obj'},
        ghost=REQ, requires=['user_schema == unpk(req_usp)', 'global_schema == unpk(req_gsp)', 'database_config == req_dc', 'system_config == req_sc'],
        returns='GqlOp', raises={'CompileError': {}}, tag='property')
    for fn_ in ('edgeql.Source.from_string', 'edgeql.generate_source', 'compiler.CompilationRequest', 'uuidgen.uuid4'):
        w.ext_funcs[fn_] = dict(params={}, returns='Obj', raises={'CompileError': {}})
    for ex_ in ('COMPILER.state.compilation_config_serializer', 'defines.CURRENT_PROTOCOL', 'compiler.OutputFormat.JSON', 'compiler.InputFormat.JSON'):
        w.opaque_exprs[ex_] = 'Obj'

    def part(arg, comp, packed, held):
        sent_ = ('pk(%s)' % comp) if packed else comp
        return ['implies(not is_none(%s), some(%s) == %s)' % (arg, arg, sent_), 'implies(is_none(%s), dbname in DBS and %s)' % (arg, held)]
    # worker-side precondition of a state-carrying request
    WREQ = (part('user_schema', 'req_usp', False, 'DBS[dbname].user_schema == unpk(req_usp)') +
            part('reflection_cache', 'req_rc', True, 'DBS[dbname].reflection_cache == req_rc') +
            part('database_config', 'req_dc', True, 'DBS[dbname].database_config == req_dc') +
            ['implies(not is_none(global_schema), some(global_schema) == req_gsp)', 'implies(is_none(global_schema), GLOBAL_SCHEMA == unpk(req_gsp))',
             'implies(not is_none(system_config), some(system_config) == pk(req_sc))', 'implies(is_none(system_config), INSTANCE_CONFIG == req_sc)',
             'implies(not (dbname in DBS), not is_none(user_schema) and not is_none(reflection_cache) and not is_none(database_config))'])
    # after a completed sync the worker holds exactly the request's state for dbname; other databases untouched
    HOLDS = ['dbname in DBS', 'DBS[dbname].user_schema == unpk(req_usp)', 'DBS[dbname].reflection_cache == req_rc', 'DBS[dbname].database_config == req_dc',
             'GLOBAL_SCHEMA == unpk(req_gsp)', 'INSTANCE_CONFIG == req_sc', OTHERS]
    CST = dict(WSTATE); CST.update({'COMPILER': 'CompilerT', 'LAST_STATE': 'Opt[Obj]', 'STD_SCHEMA': 'Obj'})
    for fn, ret in (('compile', 'Tuple[Obj,Opt[Obj]]'), ('compile_notebook', 'Obj'), ('compile_graphql', 'Tuple[Obj,GqlOp]'), ('compile_sql', 'Obj')):
        P = dict(SYNC_PARAMS); P.update({'compile_args': 'Seq[Obj]', 'compile_kwargs': 'Map[str,Obj]'})
        w.contract(WORKER, fn, params=P, ghost=REQ, state=CST, returns=ret, modifies=list(CST),
                   requires=WREQ, ensures=HOLDS,
                   raises={'FailedStateSync': dict(ensures=UNCHANGED), 'CompileError': dict(ensures=HOLDS)})     # CompileError: whatever the compiler raises (own name: cannot mask KeyError etc.)
    # ---- worker.compile_in_tx
    w.define('corr(c, s)', 'c == unpk(s)')       # compiler state object c is the one the pickled state s denotes
    w.ext_methods['Obj.set_root_user_schema'] = dict(params={'schema': 'Obj'}, modifies=['Obj.root_user_schema'], returns='none',
        ensures=['self.root_user_schema == schema', 'heap_same_except("Obj.root_user_schema", self)'])
    w.ext_methods['CompilerT.compile_serialized_request_in_tx'] = dict(params={'cstate': 'Obj'},
        ghost={'req_state': 'Obj', 'req_usp': 'Obj', 'reuse': 'bool'},
        requires=['corr(cstate, req_state)', 'implies(not reuse, cstate.root_user_schema == unpk(req_usp))'],
        returns='Tuple[Obj,Obj]', raises={'CompileError': {}}, tag='property')
    MARK = 'state.REUSE_LAST_STATE_MARKER'
    w.contract(WORKER, 'compile_in_tx',
        params={'dbname': 'Opt[Obj]', 'user_schema': 'Opt[Obj]', 'cstate': 'Obj', 'args': 'Seq[Obj]', 'kwargs': 'Map[str,Obj]'},
        ghost={'req_state': 'Obj', 'req_usp': 'Obj', 'reuse': 'bool'},
        state={'DBS': 'Map[Obj,DS]', 'LAST_STATE': 'Opt[Obj]', 'COMPILER': 'CompilerT'}, modifies=['LAST_STATE', 'Obj.root_user_schema'],
        returns='Tuple[Obj,Obj]',
        requires=['reuse == (cstate == %s)' % MARK, 'req_state != %s' % MARK,
                  'implies(reuse, not is_none(LAST_STATE) and corr(some(LAST_STATE), req_state))',
                  'implies(not reuse, cstate == req_state)',
                  'implies(not reuse and is_none(dbname), not is_none(user_schema) and some(user_schema) == req_usp)',
                  'implies(not reuse and not is_none(dbname), some(dbname) in DBS and DBS[some(dbname)].user_schema == unpk(req_usp))'],
        ensures=['not is_none(LAST_STATE)', 'corr(some(LAST_STATE), result[1])'],     # K re-established for the returned pickled state
        # a statement that fails leaves the state the worker keeps for REUSE_LAST_STATE_MARKER alone (the server keeps believing in the previous one)
        raises={'CompileError': dict(ensures=['LAST_STATE == old(LAST_STATE)']), 'PickleError': dict(ensures=['LAST_STATE == old(LAST_STATE)'])})

    # ------------------------------------------------------------------ server: the RPC
    # J is stated for one arbitrary database d (a ghost constant of each pool entry point): equivalent to "for all d", and keeps every VC ground
    w.define('JD(wk, d)', 'implies(d in wk._dbs, d in wk.A_dbs and wk.A_dbs[d].user_schema == unpk(wk._dbs[d].user_schema_pickle) '
             'and wk.A_dbs[d].reflection_cache == wk._dbs[d].reflection_cache and wk.A_dbs[d].database_config == wk._dbs[d].database_config '
             'and bool(wk._dbs[d].user_schema_pickle))')
    w.define('JG(wk)', 'wk.A_global == unpk(wk._global_schema_pickle) and wk.A_sys == wk._system_config')
    # K: the believed last pickled state denotes the worker's LAST_STATE  (maintained by compile/compile_in_tx storing result[1]; see level_note)
    w.define('K(wk)', 'implies(not is_none(wk._last_pickled_state), not is_none(wk.A_last) and corr(some(wk.A_last), some(wk._last_pickled_state)))')
    A_OTHERS = 'heap_same_except("Worker.A_dbs", self) and heap_same_except("Worker.A_global", self) and heap_same_except("Worker.A_sys", self) and heap_same_except("Worker.A_last", self)'
    def sub(cl):    # worker clause over (dbname, user_schema, ...) -> over the RPC argument vector
        out = []
        for c in _a(cl):
            for nm, i in (('user_schema', 1), ('reflection_cache', 2), ('global_schema', 3), ('database_config', 4), ('system_config', 5)):
                c = c.replace('some(%s)' % nm, 'some(args[%d])' % i).replace('is_none(%s)' % nm, 'is_none(args[%d])' % i)
            c = c.replace('dbname', 'some(args[0])')
            out.append(c)
        return out
    RPC1_PRE = ['len(args) >= 6', 'not is_none(args[0])'] + sub(WREQ)
    RPC1_HOLDS = sub(HOLDS); RPC1_UNCH = sub(UNCHANGED)
    RPC2_PRE = ['len(args) >= 4', 'not is_none(args[2])', 'req_state != %s' % MARK,
                'implies(some(args[2]) == %s, not is_none(self.A_last) and corr(some(self.A_last), req_state))' % MARK,
                'implies(some(args[2]) != %s, some(args[2]) == req_state)' % MARK,
                'implies(some(args[2]) != %s and is_none(args[0]), not is_none(args[1]) and some(args[1]) == req_usp)' % MARK,
                'implies(some(args[2]) != %s and not is_none(args[0]), some(args[0]) in self.A_dbs and self.A_dbs[some(args[0])].user_schema == unpk(req_usp))' % MARK]
    GREQ = dict(REQ); GREQ.update({'kind': 'int', 'req_state': 'Obj'})
    def guard(k, cls): return ['implies(kind == %d, %s)' % (k, c) for c in cls]
    RPC_PRE = guard(1, RPC1_PRE) + guard(2, RPC2_PRE)
    A_FIELDS = ['Worker.A_dbs', 'Worker.A_global', 'Worker.A_sys', 'Worker.A_last']
    G_FIELDS = ['Worker.G_synced', 'Worker.G_acked', 'Worker.G_status', 'Worker.G_fss', 'Worker.G_calls']
    w.classes['Worker']['G_calls'] = 'int'
    RPC_EFFECT = (['implies(kind == 1 and self.G_synced, %s)' % c for c in RPC1_HOLDS] +
                  ['implies(kind == 1 and not self.G_synced, %s)' % c for c in RPC1_UNCH] +
                  ['implies(kind == 2, %s)' % c for c in RPC1_UNCH] + [A_OTHERS])     # worker.compile_in_tx only replaces LAST_STATE
    w.ext_methods['Worker._request'] = dict(
        params={'method_name': 'Obj', 'args': 'Seq[Opt[Obj]]'}, ghost=GREQ, requires=RPC_PRE, returns='Obj',
        modifies=A_FIELDS + G_FIELDS,
        ensures=RPC_EFFECT + [
            'self.G_calls == old(self.G_calls) + 1', 'self.G_status >= 0 and self.G_status <= 2', 'not self.G_acked',
            'implies(self.G_status == 0, self.G_synced)',                          # the handler returned normally: it completed its sync
            'implies(self.G_status == 1 and self.G_fss, not self.G_synced)',        # FailedStateSync: all-or-nothing (worker.__sync__ contract)
            'heap_same_except("Worker.G_calls", self)'],
        tag='property')
    w.ext_methods['Con.is_closed'] = dict(params={}, returns='bool')
    w.ext_funcs['time.monotonic'] = dict(params={}, returns='float')
    LOADS = dict(params={'data': 'Obj'}, state=['self'], returns='Seq[Obj]',
                 ensures=['len(result) >= 2', 'result[0] == self.G_status', 'implies(self.G_status == 1, len(result) == 3)',
                          'implies(self.G_status != 1, len(result) == 2)',
                          'implies(self.G_status == 1, isinstance(result[1], state.FailedStateSync) == self.G_fss)'])
    CB_REQ = ['implies(not is_none(sync_state), some(sync_state).worker == self)',
              'implies(not is_none(sync_state) and not (some(sync_state).dbname in self._dbs), ' + ' and '.join('("%s" in some(sync_state).kw)' % c for c in COMPS) + ')',
              'implies(not is_none(sync_state) and ("user_schema_pickle" in some(sync_state).kw), bool(some(sync_state).kw["user_schema_pickle"]))',
              'implies(not is_none(sync_state) and (some(sync_state).dbname in self._dbs), bool(self._dbs[some(sync_state).dbname].user_schema_pickle))']
    BEL_UNCH = ['heap_same("Worker._dbs") and heap_same("Worker._global_schema_pickle") and heap_same("Worker._system_config")']
    ACKED = cb_post('self', 'some(sync_state).dbname', lambda c: ('("%s" in some(sync_state).kw)' % c, 'some(sync_state).kw["%s"]' % c))
    BELIEF = (['implies(self.G_acked, %s)' % c for c in ACKED] + ['implies(not self.G_acked, %s)' % c for c in BEL_UNCH])
    # the policy the property's last sentence demands: acknowledge exactly when the worker completed the transfer.
    # Two recorded findings (known_findings.json) are carved out by their exact outcome class; everything else must hold.
    KF1 = 'self.G_status == 1 and not self.G_fss and not self.G_synced'     # handler never ran (request could not be decoded in worker_proc) but ack is sent
    KF2 = 'self.G_status == 2 and self.G_synced'                            # result not picklable after a completed sync: no ack
    POLICY = 'implies(not is_none(sync_state) and not (%s) and not (%s), self.G_acked == self.G_synced)' % (KF1, KF2)
    w.contract(POOL, 'BaseWorker.call',
        params={'self': 'Worker', 'method_name': 'Obj', 'args': 'Seq[Opt[Obj]]', 'sync_state': 'Opt[Cb]'}, ghost=GREQ, returns='Obj',
        requires=RPC_PRE + CB_REQ + ['not self._closed'],
        modifies=A_FIELDS + G_FIELDS + ['Worker._dbs', 'Worker._global_schema_pickle', 'Worker._system_config', 'Worker._last_used', 'Obj.__formatted_error__'],
        ensures=RPC_EFFECT + BELIEF + ['self.G_calls == old(self.G_calls) + 1', 'self.G_synced', 'self.G_acked == (not is_none(sync_state))', 'self.G_status == 0'],
        raises={'Exception': dict(ensures=['implies(self.G_calls == old(self.G_calls), %s)' % c for c in BEL_UNCH + sub(UNCHANGED) + [A_OTHERS]] +
                                          ['implies(self.G_calls != old(self.G_calls), %s)' % c for c in RPC_EFFECT + BELIEF + [POLICY, 'implies(is_none(sync_state), not self.G_acked)']])},
        hints={'ext_funcs': {'pickle.loads': LOADS}},
        tags={POLICY: 'property'})
    w._kf = {'KF1': KF1, 'KF2': KF2}

    # ------------------------------------------------------------------ server: the pool entry points
    NOTKF = 'not (worker.G_status == 1 and not worker.G_fss and not worker.G_synced) and not (worker.G_status == 2 and worker.G_synced)'
    w.ext_methods['PoolT._acquire_worker'] = dict(params={}, returns='Worker', optional=('condition', 'weighter', 'compiler_args'),
        ghost={'d0': 'Obj', 'd1': 'Obj'},
        ensures=['JD(result, d0)', 'JD(result, d1)', 'JG(result)', 'K(result)', 'not result._closed', 'result.G_calls == 0'], accept_any=True)
    w.ext_methods['PoolT._release_worker'] = dict(params={'worker': 'Worker'}, returns='none', optional=('put_in_front',),
        # handing a worker back requires the coupling invariant for it again (outside the two recorded findings)
        ghost={'d0': 'Obj', 'd1': 'Obj'},
        requires=['implies(worker.G_calls == 0 or (%s), JD(worker, d0) and JD(worker, d1) and JG(worker))' % NOTKF], tag='property')
    for fn in ('compile', 'compile_notebook', 'compile_graphql', 'compile_sql'):
        P = {'self': 'PoolT', 'dbname': 'Obj', 'compile_args': 'Seq[Obj]', 'compiler_args': 'Map[str,Obj]'}; P.update(REQP)
        w.contract(POOL, 'AbstractPool.' + fn, params=P, returns='Seq[Obj]' if fn == 'compile' else 'Obj', ghost={'d0': 'Obj'},
            requires=['bool(user_schema_pickle)'],
            modifies=A_FIELDS + G_FIELDS + ['Worker._dbs', 'Worker._global_schema_pickle', 'Worker._system_config', 'Worker._last_used', 'Worker._last_pickled_state', 'Obj.__formatted_error__'],
            raises={'Exception': {}},
            call_ghost={'BaseWorker.call': {'req_usp': 'user_schema_pickle', 'req_gsp': 'global_schema_pickle', 'req_rc': 'reflection_cache',
                                            'req_dc': 'database_config', 'req_sc': 'system_config', 'kind': '1', 'req_state': 'user_schema_pickle'},
                        'PoolT._acquire_worker': {'d1': 'dbname'}, 'PoolT._release_worker': {'d1': 'dbname'}})
    w.contract(POOL, 'AbstractPool.compile_in_tx',
        params={'self': 'PoolT', 'dbname': 'Obj', 'user_schema_pickle': 'Obj', 'txid': 'Obj', 'pickled_state': 'Obj', 'state_id': 'Obj',
                'compile_args': 'Seq[Obj]', 'compiler_args': 'Map[str,Obj]'}, returns='Tuple[Obj,Obj,int]',
        ghost={'d0': 'Obj'},
        requires=['pickled_state != %s' % MARK],
        modifies=A_FIELDS + G_FIELDS + ['Worker._dbs', 'Worker._global_schema_pickle', 'Worker._system_config', 'Worker._last_used', 'Worker._last_pickled_state', 'Obj.__formatted_error__'],
        raises={'Exception': {}},
        hints={'entry_values': {'dbname': 'dbname0', 'user_schema_pickle': 'usp0', 'pickled_state': 'state0'}},
        call_ghost={'BaseWorker.call': {'req_usp': 'usp0', 'req_gsp': 'usp0', 'req_rc': 'usp0', 'req_dc': 'usp0', 'req_sc': 'usp0', 'kind': '2', 'req_state': 'state0'},
                    'PoolT._acquire_worker': {'d1': 'dbname0'}, 'PoolT._release_worker': {'d1': 'dbname0'}})
    w._wreq, w._holds, w._unchanged = WREQ, HOLDS, UNCHANGED
    build_mt(w)
    build_remote_server(w)
    return w

def build_mt(w):
    """multi-tenant pool (MultiTenantPool / MultiTenantWorker): server side.  Belief about worker w and tenant c: w._cache[c] (a TenantSchema);
    the acknowledgement callback must record exactly what was transmitted, `_compute_compile_preargs` must transmit every part of the
    request that differs (by identity) from the belief and everything the worker cannot have."""
    w.refclass('TS', {'client_id': 'Obj', 'dbs': 'Map[Obj,PDS]', 'global_schema_pickle': 'Obj', 'system_config': 'Obj'}, POOL, 'TenantSchema')
    w.refclass('MTW', {'_cache': 'Map[Obj,TS]', '_invalidated_clients': 'Seq[Obj]', '_last_used_by_client': 'Map[Obj,float]',
                       'current_client_id': 'Opt[Obj]', '_manager': 'PoolT'}, POOL, 'MultiTenantWorker')
    w.builtin_alias['collections.OrderedDict'] = 'dict'
    w.trusted.append('MultiTenantWorker._cache (an OrderedDict) is modelled as a finite map: its order only decides which tenant maybe_invalidate_last evicts')
    TSF = ['TS.dbs', 'TS.global_schema_pickle', 'TS.system_config', 'TS.client_id']
    w.contract(POOL, 'MultiTenantWorker.set_tenant_schema', params={'self': 'MTW', 'client_id': 'Obj', 'tenant_schema': 'TS'}, returns='none',
        modifies=['MTW._cache', 'MTW._last_used_by_client'],
        ensures=['client_id in self._cache and self._cache[client_id] == tenant_schema', 'map_same_except(self._cache, old(self._cache), client_id)',
                 'heap_same_except("MTW._cache", self)'])
    w.contract(POOL, 'MultiTenantWorker.flush_invalidation', params={'self': 'MTW'}, returns='none',
        modifies=['MTW._cache', 'MTW._last_used_by_client', 'MTW._invalidated_clients'],
        ensures=['len(self._invalidated_clients) == 0',
                 # exactly the invalidated tenants are forgotten
                 'forall(Obj, lambda c: (c in self._cache) == ((c in old(self._cache)) and not exists(0, len(old(self._invalidated_clients)), lambda j: old(self._invalidated_clients)[j] == c)))',
                 'forall(Obj, lambda c: implies(c in self._cache, self._cache[c] == old(self._cache)[c]))',
                 'heap_same_except("MTW._cache", self) and heap_same_except("MTW._invalidated_clients", self)'],
        loops={0: dict(fingerprint='for client_id in client_ids', index='i', invariant=[
                 'forall(Obj, lambda c: (c in self._cache) == ((c in old(self._cache)) and not exists(0, i, lambda j: client_ids[j] == c)))',
                 'forall(Obj, lambda c: implies(c in self._cache, self._cache[c] == old(self._cache)[c]))',
                 'len(self._invalidated_clients) == 0', 'heap_same_except("MTW._cache", self) and heap_same_except("MTW._invalidated_clients", self)'])})
    INV_ = lambda wk, c: 'exists(0, len(%s._invalidated_clients), lambda j: %s._invalidated_clients[j] == %s)' % (wk, wk, c)
    w.contract(POOL, 'MultiTenantWorker.get_tenant_schema', params={'self': 'MTW', 'client_id': 'Obj'}, returns='Opt[TS]',
        # what is recorded about a tenant counts only while the tenant is not marked for invalidation (the worker process drops those first)
        ensures=['is_none(result) == (not (client_id in self._cache) or %s)' % INV_('self', 'client_id'),
                 'implies(not is_none(result), some(result) == self._cache[client_id])'])
    CBQ = 'MultiTenantPool._compute_compile_preargs.<locals>.sync_worker_state_cb'
    OPTS = {'user_schema_pickle': 'Opt[Obj]', 'global_schema_pickle': 'Opt[Obj]', 'reflection_cache': 'Opt[Obj]', 'database_config': 'Opt[Obj]', 'instance_config': 'Opt[Obj]'}
    P = {'worker': 'MTW', 'client_id': 'Obj', 'dbname': 'Obj'}; P.update(OPTS)
    KNOWN = '(client_id in worker._cache and not %s)' % INV_('worker', 'client_id')       # the belief the transmitted diff was computed against
    def rec(comp, fld):
        # the belief after the acknowledgement: what was transmitted, else what was believed before
        return ('worker._cache[client_id].%s == (some(%s) if not is_none(%s) else old(worker._cache[client_id].%s))' % (fld, comp, comp, fld))
    w.contract(POOL, CBQ, params=P,
        requires=['implies(not %s, %s)' % (KNOWN, ' and '.join('not is_none(%s)' % c for c in OPTS)),
                  'implies(%s and not (dbname in worker._cache[client_id].dbs), not is_none(user_schema_pickle) and not is_none(reflection_cache) and not is_none(database_config))' % KNOWN,
                  'implies(not is_none(user_schema_pickle), bool(some(user_schema_pickle)))',
                  'implies(%s and dbname in worker._cache[client_id].dbs, bool(worker._cache[client_id].dbs[dbname].user_schema_pickle))' % KNOWN],
        modifies=['MTW._cache', 'MTW._last_used_by_client', 'MTW._invalidated_clients', '$alloc'] + TSF,
        ensures=['client_id in worker._cache and dbname in worker._cache[client_id].dbs',
                 rec('user_schema_pickle', 'dbs[dbname].user_schema_pickle'), rec('reflection_cache', 'dbs[dbname].reflection_cache'),
                 rec('database_config', 'dbs[dbname].database_config'), rec('global_schema_pickle', 'global_schema_pickle'), rec('instance_config', 'system_config'),
                 # the tenant's other databases keep their recorded state
                 'implies(old(%s), map_same_except(worker._cache[client_id].dbs, old(worker._cache[client_id].dbs), dbname))' % KNOWN,
                 # the invalidated tenants are forgotten (as in the worker process), nobody else is
                 'len(worker._invalidated_clients) == 0',
                 'forall(Obj, lambda c: implies(c != client_id, (c in worker._cache) == ((c in old(worker._cache)) and not exists(0, len(old(worker._invalidated_clients)), lambda j: old(worker._invalidated_clients)[j] == c))))'])

    # ---- what the multi-tenant pool transmits
    w.rec('PSt', [('user_schema', 'Opt[Obj]'), ('reflection_cache', 'Opt[Obj]'), ('database_config', 'Opt[Obj]')], POOL, 'PickledState')
    w.rec('PSch', [('dbs', 'Opt[Map[Obj,PSt]]'), ('global_schema', 'Opt[Obj]'), ('instance_config', 'Opt[Obj]'), ('dropped_dbs', 'Seq[Obj]')], POOL, 'PickledSchema')
    w.partial_types['MultiTenantPool._compute_compile_preargs.<locals>.sync_worker_state_cb'] = 'CbMT'
    w.rec('CbMT', [('worker', 'MTW'), ('client_id', 'Obj'), ('dbname', 'Obj'), ('kw', 'Map[str,Obj]')])
    P = {'self': 'PoolT', 'method_name': 'Obj', 'worker': 'MTW', 'dbname': 'Obj', 'user_schema_pickle': 'Obj', 'global_schema_pickle': 'Obj', 'reflection_cache': 'Obj',
         'database_config': 'Obj', 'system_config': 'Obj'}
    C = 'some(worker.current_client_id)'
    INVC = 'exists(0, len(worker._invalidated_clients), lambda j: worker._invalidated_clients[j] == %s)' % C
    KN = '(%s in worker._cache and not %s)' % (C, INVC)                 # the tenant is known to the worker (as far as the server believes) when the call is made
    KNDB = '(%s and dbname in worker._cache[%s].dbs)' % (KN, C)
    PSV = 'some(result[0][2])'; HASPS = '(not is_none(result[0][2]))'
    HASDB = '(%s and not is_none(%s.dbs) and dbname in some(%s.dbs))' % (HASPS, PSV, PSV); DBV = 'some(%s.dbs)[dbname]' % PSV
    CBV = 'some(result[1])'
    def sent_mt(present, value, believed_ok, comp_kw, raw, packed):
        tv = ('pk(%s)' % raw) if packed else raw
        return ['implies(not (%s), %s)' % (present, believed_ok),                                                          # not transmitted = what the server believes the worker holds (by identity)
                'implies(%s, %s == %s)' % (present, value, tv),
                'implies(%s, not is_none(result[1]) and ("%s" in %s.kw) and %s.kw["%s"] == %s)' % (present, comp_kw, CBV, CBV, comp_kw, raw),
                'implies(not (%s) and not is_none(result[1]), not ("%s" in %s.kw))' % (present, comp_kw, CBV)]
    TEN = 'old(worker._cache[%s])' % C
    ens_mt = ['result[0][1] == %s' % C, 'result[0][5] == method_name', 'result[0][6] == dbname', 'result[0][3] == worker._invalidated_clients',
              'is_none(result[1]) == is_none(result[0][2])',
              'implies(not is_none(result[1]), %s.worker == worker and %s.client_id == %s and %s.dbname == dbname)' % (CBV, CBV, C, CBV),
              # a tenant the worker does not know gets everything, a database it does not know the three per-database parts
              'implies(not old(%s), %s and not is_none(%s.user_schema) and not is_none(%s.reflection_cache) and not is_none(%s.database_config) and not is_none(%s.global_schema) and not is_none(%s.instance_config))'
              % (KN, HASDB, DBV, DBV, DBV, PSV, PSV),
              'implies(old(%s) and not old(%s), %s and not is_none(%s.user_schema) and not is_none(%s.reflection_cache) and not is_none(%s.database_config))' % (KN, KNDB, HASDB, DBV, DBV, DBV)]
    ens_mt += sent_mt('%s and not is_none(%s.user_schema)' % (HASDB, DBV), 'some(%s.user_schema)' % DBV, 'old(%s) and %s.dbs[dbname].user_schema_pickle == user_schema_pickle' % (KNDB, TEN), 'user_schema_pickle', 'user_schema_pickle', False)
    ens_mt += sent_mt('%s and not is_none(%s.reflection_cache)' % (HASDB, DBV), 'some(%s.reflection_cache)' % DBV, 'old(%s) and %s.dbs[dbname].reflection_cache == reflection_cache' % (KNDB, TEN), 'reflection_cache', 'reflection_cache', True)
    ens_mt += sent_mt('%s and not is_none(%s.database_config)' % (HASDB, DBV), 'some(%s.database_config)' % DBV, 'old(%s) and %s.dbs[dbname].database_config == database_config' % (KNDB, TEN), 'database_config', 'database_config', True)
    ens_mt += sent_mt('%s and not is_none(%s.global_schema)' % (HASPS, PSV), 'some(%s.global_schema)' % PSV, 'old(%s) and %s.global_schema_pickle == global_schema_pickle' % (KN, TEN), 'global_schema_pickle', 'global_schema_pickle', False)
    ens_mt += sent_mt('%s and not is_none(%s.instance_config)' % (HASPS, PSV), 'some(%s.instance_config)' % PSV, 'old(%s) and %s.system_config == system_config' % (KN, TEN), 'instance_config', 'system_config', True)
    w.contract(POOL, 'MultiTenantPool._compute_compile_preargs', params=P, returns='Tuple[Tuple[Obj,Obj,Opt[PSch],Seq[Obj],none,Obj,Obj],Opt[CbMT]]',
        requires=['not is_none(worker.current_client_id)'], modifies=['MTW._invalidated_clients'],
        ensures=ens_mt + ['heap_same("MTW._cache")', 'heap_same("TS.dbs") and heap_same("TS.global_schema_pickle") and heap_same("TS.system_config")'],
        raises={'AssertionError': dict(only_if='False')}, hints={'kwdict_vars': ['to_update', 'pickled']})
    w.contract(POOL, 'MultiTenantWorker.maybe_invalidate_last', params={'self': 'MTW'}, returns='none', trusted=True, modifies=['MTW._invalidated_clients'],
        # (assumed: OrderedDict order / next(reversed(..)) are outside the subset) at most one more tenant is marked, and it is a cached one
        ensures=['is_prefix(old(self._invalidated_clients), self._invalidated_clients)', 'len(self._invalidated_clients) <= old(len(self._invalidated_clients)) + 1',
                 'forall(old(len(self._invalidated_clients)), len(self._invalidated_clients), lambda j: self._invalidated_clients[j] in self._cache)',
                 'heap_same_except("MTW._invalidated_clients", self)'])

    # ---- multi-tenant worker process: __sync__ is all-or-nothing for the tenant (FailedStateSync => the tenant's state is what it was), drops exactly the
    # invalidated tenants, touches no other tenant, installs the transmitted global schema / instance config.  (The per-database clause "every transmitted
    # part of database d0 is installed" was tried with a ghost database and ground invariants: z3 left it unknown after 80 s per path -- it is exercised by
    # scenario_mt.py instead, labelled bounded.)
    MTWK = 'edb/server/compiler_pool/multitenant_worker.py'
    w.opaque_exprs['debug.flags.server'] = 'bool'
    w.rec('CS', [('dbs', 'Map[Obj,DS]'), ('global_schema', 'Obj'), ('instance_config', 'Obj')], MTWK, 'ClientSchema')
    GONE = lambda c: 'exists(0, len(invalidation), lambda j: invalidation[j] == %s)' % c
    OTHERS_MT = ('forall(Obj, lambda c: implies(c != client_id, (c in clients) == ((c in old(clients)) and not %s) and implies(c in clients, clients[c] == old(clients)[c])))' % GONE('c'))
    HAD = '(client_id in old(clients) and not %s)' % GONE('client_id')      # the tenant was held (and is not dropped by this very call)
    OLDC = 'old(clients)[client_id]'
    PSW = 'some(pickled_schema)'
    def part_mt(newv, present, oldv): return '%s == (unpk(some(%s)) if %s else %s)' % (newv, present.replace('not is_none(', '').rstrip(')') if False else present[len('not is_none('):-1], present, oldv)
    # multi-tenant worker, compile(): the transaction state kept for REUSE_LAST_STATE_MARKER is replaced only by a compile that returns one; a compile outside a transaction
    # (no state returned) leaves it alone -- the remote compiler server (server.MultiSchemaPool) keeps believing in it
    # (every handler hands the compiler the five components recorded for the tenant / database -- a precondition of the compiler entry point at each call site)
    MTARGS = dict(params={'user_schema': 'Obj', 'global_schema': 'Obj', 'reflection_cache': 'Obj', 'database_config': 'Obj', 'system_config': 'Obj'}, raises={'CompileError': {}},
                  bind={'K_cs': 'clients[client_id]', 'K_db': 'clients[client_id].dbs[dbname]'}, tag='property',
                  requires=['user_schema == K_db.user_schema', 'global_schema == K_cs.global_schema', 'reflection_cache == K_db.reflection_cache',
                            'database_config == K_db.database_config', 'system_config == K_cs.instance_config'])
    w.contract(MTWK, 'compile', params={'client_id': 'Obj', 'dbname': 'Obj', 'compile_args': 'Seq[Obj]', 'compile_kwargs': 'Map[str,Obj]'},
        state={'clients': 'Map[Obj,CS]', 'COMPILER': 'CompilerT', 'LAST_STATE': 'Opt[Obj]'}, returns='Tuple[Obj,Opt[Obj]]', modifies=['LAST_STATE'],
        ensures=['implies(is_none(result[1]), LAST_STATE == old(LAST_STATE))', 'implies(not is_none(result[1]), not is_none(LAST_STATE) and some(result[1]) == pk(some(LAST_STATE)))',
                 'map_same(clients, old(clients))'],
        raises={'CompileError': dict(ensures=['LAST_STATE == old(LAST_STATE)']), 'KeyError': dict(ensures=['LAST_STATE == old(LAST_STATE)'])},
        hints={'ext_funcs': {'CompilerT.compile_serialized_request': dict(MTARGS, returns='Tuple[Obj,Opt[Obj]]')}})
    for fn_, meth_, ret_ in (('compile_notebook', 'compile_notebook', 'Obj'), ('compile_sql', 'compile_sql', 'Obj')):
        w.contract(MTWK, fn_, params={'client_id': 'Obj', 'dbname': 'Obj', 'compile_args': 'Seq[Obj]', 'compile_kwargs': 'Map[str,Obj]'},
            state={'clients': 'Map[Obj,CS]', 'COMPILER': 'CompilerT', 'LAST_STATE': 'Opt[Obj]'}, returns=ret_,
            ensures=['map_same(clients, old(clients))', 'LAST_STATE == old(LAST_STATE)'], raises={'CompileError': {}, 'KeyError': {}},
            hints={'ext_funcs': {'CompilerT.' + meth_: dict(MTARGS, returns=ret_)}})
    MARK = 'state.REUSE_LAST_STATE_MARKER'
    # multi-tenant worker, compile_in_tx(): as for the plain worker -- the statement is compiled against the state the marker stands for / the state supplied, whose root user
    # schema is the one supplied (client_id None) or the tenant's recorded one; K is re-established for the returned state; a failing statement leaves LAST_STATE alone
    w.contract(MTWK, 'compile_in_tx',
        params={'_': 'Obj', 'client_id': 'Opt[Obj]', 'dbname': 'Opt[Obj]', 'user_schema': 'Opt[Obj]', 'cstate': 'Obj', 'args': 'Seq[Obj]', 'kwargs': 'Map[str,Obj]'},
        ghost={'req_state': 'Obj', 'req_usp': 'Obj', 'reuse': 'bool'},
        state={'clients': 'Map[Obj,CS]', 'LAST_STATE': 'Opt[Obj]', 'COMPILER': 'CompilerT'}, modifies=['LAST_STATE', 'Obj.root_user_schema'],
        returns='Tuple[Obj,Obj]',
        requires=['reuse == (cstate == %s)' % MARK, 'req_state != %s' % MARK,
                  'implies(reuse, not is_none(LAST_STATE) and corr(some(LAST_STATE), req_state))',
                  'implies(not reuse, cstate == req_state)',
                  'implies(not reuse and is_none(client_id), not is_none(user_schema) and some(user_schema) == req_usp)',
                  'implies(not reuse and not is_none(client_id), not is_none(dbname) and some(client_id) in clients and some(dbname) in clients[some(client_id)].dbs '
                  'and clients[some(client_id)].dbs[some(dbname)].user_schema == unpk(req_usp))'],
        ensures=['not is_none(LAST_STATE)', 'corr(some(LAST_STATE), result[1])'],
        raises={'CompileError': dict(ensures=['LAST_STATE == old(LAST_STATE)']), 'PickleError': dict(ensures=['LAST_STATE == old(LAST_STATE)'])})
    w.contract(MTWK, '__sync__', params={'client_id': 'Obj', 'pickled_schema': 'Opt[PSch]', 'invalidation': 'Seq[Obj]'}, state={'clients': 'Map[Obj,CS]'}, ghost={'d0': 'Obj'}, returns='none',
        modifies=['clients'],
        requires=['implies(not is_none(pickled_schema), is_none(%s.dbs) or len(some(%s.dbs)) >= 0)' % (PSW, PSW)],
        ensures=[OTHERS_MT, 'client_id in clients',
                 # global schema / instance config: what was transmitted, else what was held
                 'implies(not is_none(pickled_schema) and not is_none(%s.global_schema), clients[client_id].global_schema == unpk(some(%s.global_schema)))' % (PSW, PSW),
                 'implies(%s and (is_none(pickled_schema) or is_none(%s.global_schema)), clients[client_id].global_schema == %s.global_schema)' % (HAD, PSW, OLDC),
                 'implies(not is_none(pickled_schema) and not is_none(%s.instance_config), clients[client_id].instance_config == unpk(some(%s.instance_config)))' % (PSW, PSW),
                 'implies(%s and (is_none(pickled_schema) or is_none(%s.instance_config)), clients[client_id].instance_config == %s.instance_config)' % (HAD, PSW, OLDC),
                 ],
        raises={'FailedStateSync': dict(ensures=[OTHERS_MT, 'implies(%s, client_id in clients and clients[client_id] == %s)' % (HAD, OLDC), 'implies(not %s, not (client_id in clients))' % HAD])},
        abstract={'if debug.flags.server:': dict(),       # debug printing (no effect on the state)
                  'dbs = {dbname: state.DatabaseState(dbname, None if pickled_state.user_schema is None else pickle.loads(pickled_state.user_schema), pickle.loads(pickled_state.reflection_cache), pickle.loads(pickled_state.database_config)) for dbname, pickled_state in pickled_schema.dbs.items()}':
                  # (assumed) a dict comprehension over a map: same keys, every value built from its own item (stated for the arbitrary database d0); unpickling may fail
                  dict(assigns={'dbs': 'Map[Obj,DS]'}, raises=['PickleError', 'AttributeError'],
                       ensures=['not is_none(%s.dbs)' % PSW, '(d0 in dbs) == (d0 in some(%s.dbs))' % PSW,
                                'implies(d0 in dbs, implies(not is_none(some(%s.dbs)[d0].user_schema), dbs[d0].user_schema == unpk(some(some(%s.dbs)[d0].user_schema))) '
                                'and dbs[d0].reflection_cache == unpk(some(some(%s.dbs)[d0].reflection_cache)) and dbs[d0].database_config == unpk(some(some(%s.dbs)[d0].database_config)))' % ((PSW,) * 4)])},
        loops={0: dict(fingerprint='for cid in invalidation', index='i0', invariant=[
                   'forall(Obj, lambda c: (c in clients) == ((c in old(clients)) and not exists(0, i0, lambda j: invalidation[j] == c)) and implies(c in clients, clients[c] == old(clients)[c]))']),
               1: dict(fingerprint='for (dbname, pickled_state) in pickled_schema.dbs.items()', done='D1', invariant=[
                   'implies(d0 in D1, d0 in dbs '
                   'and implies(not is_none(some(%s.dbs)[d0].user_schema), dbs[d0].user_schema == unpk(some(some(%s.dbs)[d0].user_schema))) '
                   'and implies(not is_none(some(%s.dbs)[d0].reflection_cache), dbs[d0].reflection_cache == unpk(some(some(%s.dbs)[d0].reflection_cache))) '
                   'and implies(not is_none(some(%s.dbs)[d0].database_config), dbs[d0].database_config == unpk(some(some(%s.dbs)[d0].database_config))))' % ((PSW,) * 6)]),
               2: dict(fingerprint='for dbname in pickled_schema.dropped_dbs', index='i2', invariant=['True'])},
        hints={'kwdict_vars': ['updates', 'db_updates'], 'var_types': {'client_schema': 'Opt[CS]'}})

def configure(vf):
    pass

def build_remote_server(w):
    """the remote compiler SERVER (compiler_pool/server.py, MultiSchemaPool): what an instance transmitted is recorded per client by _sync (each part given replaces the
    recorded one, the others stay), and what is forwarded to a worker is the DIFFERENCE between the recorded client state and what that worker holds:
      PickledState.diff / ClientSchema.diff: a part is transmitted iff it is not (by identity) the part the worker holds; an unknown database is transmitted whole;
      databases the worker holds and the client no longer has are listed as dropped"""
    SRV = 'edb/server/compiler_pool/server.py'
    w.rec('SPS', [('user_schema', 'Opt[Obj]'), ('reflection_cache', 'Opt[Obj]'), ('database_config', 'Opt[Obj]')], SRV, 'PickledState')
    w.rec('SCS', [('dbs', 'Map[Obj,SPS]'), ('global_schema', 'Opt[Obj]'), ('instance_config', 'Opt[Obj]'), ('dropped_dbs', 'Seq[Obj]')], SRV, 'ClientSchema')
    PART = lambda f: 'result.%s == (self.%s if self.%s != other.%s else None)' % (f, f, f, f)
    w.contract(SRV, 'PickledState.diff', params={'self': 'SPS', 'other': 'SPS'}, returns='SPS',
        ensures=[PART('user_schema'), PART('reflection_cache'), PART('database_config')])
    D0 = 'd0'
    w.contract(SRV, 'ClientSchema.diff', params={'self': 'SCS', 'other': 'SCS'}, returns='SCS', ghost={'d0': 'Obj'},
        ensures=['result.global_schema == (self.global_schema if self.global_schema != other.global_schema else None)',
                 'result.instance_config == (self.instance_config if self.instance_config != other.instance_config else None)',
                 # one arbitrary database d0: transmitted whole if the worker does not know it, as a diff if it differs, not at all if identical or not the client's
                 'implies(d0 in self.dbs and not (d0 in other.dbs), d0 in result.dbs and result.dbs[d0] == self.dbs[d0])',
                 # (identity of the recorded states is not modelled: `is` is an arbitrary boolean that implies equality -- so "different values are transmitted" is what can be said)
                 'implies(d0 in self.dbs and d0 in other.dbs and self.dbs[d0] != other.dbs[d0], d0 in result.dbs)',
                 'implies(not (d0 in self.dbs), not (d0 in result.dbs))'],
        abstract={'dropped_dbs = tuple((dbname for dbname in other.dbs if dbname not in self.dbs))': dict(assigns={'dropped_dbs': 'Seq[Obj]'})},
        loops={0: dict(fingerprint='for (dbname, state) in self.dbs.items()', done='D', invariant=[
                   'implies(d0 in D and not (d0 in other.dbs), d0 in dbs and dbs[d0] == self.dbs[d0])',
                   'implies(d0 in D and d0 in other.dbs and self.dbs[d0] != other.dbs[d0], d0 in dbs)',
                   'implies(not (d0 in D), not (d0 in dbs))'])},
        hints={'var_types': {'dbs': 'Map[Obj,SPS]'}})
    # _sync: the per-client record after an instance's request
    w.refclass('MSP', {'_clients': 'Map[Obj,SCS]'})
    OLDC = 'old(self._clients)[client_id]'; NEWC = 'self._clients[client_id]'
    def kept(newv, arg, oldv): return '%s == (%s if not is_none(%s) else %s)' % (newv, arg, arg, oldv)
    w.contract(SRV, 'MultiSchemaPool._sync', params={'self': 'MSP', 'client_id': 'Obj', 'dbname': 'Obj', 'user_schema': 'Opt[Obj]', 'reflection_cache': 'Opt[Obj]', 'global_schema': 'Opt[Obj]',
                                                   'database_config': 'Opt[Obj]', 'system_config': 'Opt[Obj]'}, returns='bool', modifies=['MSP._clients'],
        ensures=['client_id in self._clients', 'map_same_except(self._clients, old(self._clients), client_id)',
                 kept('%s.global_schema' % NEWC, 'global_schema', '%s.global_schema' % OLDC), kept('%s.instance_config' % NEWC, 'system_config', '%s.instance_config' % OLDC),
                 'dbname in %s.dbs' % NEWC, 'map_same_except(%s.dbs, %s.dbs, dbname)' % (NEWC, OLDC),
                 'implies(dbname in %s.dbs, %s and %s and %s)' % (OLDC, kept('%s.dbs[dbname].user_schema' % NEWC, 'user_schema', '%s.dbs[dbname].user_schema' % OLDC),
                                                                   kept('%s.dbs[dbname].reflection_cache' % NEWC, 'reflection_cache', '%s.dbs[dbname].reflection_cache' % OLDC),
                                                                   kept('%s.dbs[dbname].database_config' % NEWC, 'database_config', '%s.dbs[dbname].database_config' % OLDC)),
                 'implies(not (dbname in %s.dbs), %s.dbs[dbname].user_schema == user_schema and %s.dbs[dbname].reflection_cache == reflection_cache and %s.dbs[dbname].database_config == database_config)' % (OLDC, NEWC, NEWC, NEWC),
                 'implies(not result, %s == %s)' % (NEWC, OLDC)],
        raises={'KeyError': dict(ensures=['map_same(self._clients, old(self._clients))']), 'AssertionError': dict(ensures=['map_same(self._clients, old(self._clients))'])},
        hints={'kwdict_vars': ['updates', 'client_updates']})
    return w

def extra_obligations(w, tier, seed):
    """remote (shared) compiler pool: RemotePool._compute_compile_preargs waits for the connection-wide state-sync lock.  What it returns must have been computed AFTER the last
    wait (another request's acknowledgement may have changed what the server believes the worker holds while this one was waiting): AST obligation on the real body --
    every `await` of anything but the base computation is followed, before the return, by a re-computation `preargs, callback = await super()._compute_compile_preargs(*args)`."""
    import ast
    from pyvc import repo
    out = []
    fn, _ = repo.find_def(POOL, 'RemotePool._compute_compile_preargs')
    BASE = 'super()._compute_compile_preargs(*args)'
    events = []      # source-ordered: ('wait', line) / ('compute', line) / ('return', line)
    for n in ast.walk(fn):
        if isinstance(n, ast.Await):
            events.append((n.lineno, n.col_offset, 'compute' if ast.unparse(n.value) == BASE else 'wait'))
        if isinstance(n, ast.Return): events.append((n.lineno, n.col_offset, 'return'))
    events.sort()
    assigned = [n.lineno for n in ast.walk(fn) if isinstance(n, ast.Assign) and isinstance(n.value, ast.Await) and ast.unparse(n.value.value) == BASE
                and ast.unparse(n.targets[0]).replace(' ', '') in ('preargs,callback', '(preargs,callback)')]
    ok = bool(assigned) and any(k == 'return' for _, _, k in events)
    bad = []
    for i, (ln, _, k) in enumerate(events):
        if k == 'wait' and not any(k2 == 'compute' and ln2 in assigned for ln2, _, k2 in events[i + 1:]):
            bad.append('line %d: awaits something after the last computation of the pre-arguments' % ln)
    rets = [ast.unparse(n.value) for n in ast.walk(fn) if isinstance(n, ast.Return) and n.value is not None]
    shape = rets == ['(preargs, callback)']
    out.append(dict(id='scan/RemotePool/preargs-computed-after-last-wait', kind='shape', tag='property', paths=1,
                    status='discharged' if (ok and shape and not bad) else ('failed' if bad else 'unknown'), backend='ast-scan', seconds=0.0,
                    clause='RemotePool._compute_compile_preargs: the (preargs, callback) it returns come from a base computation that no other await follows',
                    model=None if (ok and shape and not bad) else {'offending_source_location': bad or rets}, where='; '.join(bad) or '%s: events %s' % (POOL, [(l, k) for l, _, k in events]), function='ast-scan'))
    return out

def scenarios(tier, seed, repo_root, outdir):
    """bounded stand-in: request histories on the real pool/worker code (see scenario.py)"""
    import os, json, subprocess
    here = os.path.dirname(os.path.abspath(__file__)); root = os.path.dirname(os.path.dirname(here))
    out = os.path.join(outdir, 'scenario_out.json')
    if os.path.exists(out): os.unlink(out)
    n, ln = (300, 5) if tier == 'quick' else (6000, 7)
    env = dict(os.environ); env['PYTHONPATH'] = '%s:%s' % (os.path.join(root, 'stubs'), repo_root); env['VERIF_REPO'] = repo_root
    p = subprocess.run(['/venv/bin/python', os.path.join(here, 'scenario.py'), str(seed), str(n), str(ln), out], capture_output=True, text=True, env=env, cwd=repo_root, timeout=3000)
    if not os.path.exists(out): raise RuntimeError('scenario runner failed: ' + (p.stderr or p.stdout)[-2000:])
    r = json.load(open(out))
    if not r['failure'] and (r['stats']['compiled'] < r['histories'] or r['stats']['tx'] == 0 or r['stats']['failed_sync'] == 0):
        raise RuntimeError('scenario explorer is vacuous: %r' % r['stats'])
    # multi-tenant pool: MultiTenantPool / MultiTenantWorker + the real multitenant_worker.py handlers
    out2 = os.path.join(outdir, 'scenario_mt_out.json')
    if os.path.exists(out2): os.unlink(out2)
    p2 = subprocess.run(['/venv/bin/python', os.path.join(here, 'scenario_mt.py'), str(seed), str(n), str(ln), out2], capture_output=True, text=True, env=env, cwd=repo_root, timeout=3000)
    if not os.path.exists(out2): raise RuntimeError('multi-tenant scenario runner failed: ' + (p2.stderr or p2.stdout)[-2000:])
    r2 = json.load(open(out2))
    if not r2['failure'] and (r2['stats']['compiled'] == 0 or r2['stats']['evictions'] == 0 or r2['stats']['drops'] == 0 or r2['stats']['failed_sync'] == 0):
        raise RuntimeError('multi-tenant scenario explorer is vacuous: %r' % r2['stats'])
    fail = r['failure']
    if not fail and r2['failure']: fail = dict(pool='MultiTenantPool', **r2['failure'])
    if not fail and r2.get('other_failures'): fail = dict(pool='MultiTenantPool', **r2['other_failures'][0])
    if not fail and r2['stats'].get('nonfaulty_failed'): pass     # availability only (a request failed although nothing was wrong with it): reported in the stats, not a violation of C17
    return dict(stats=r['stats'], stats_multitenant=r2['stats'], evaluations=r['histories'] + r2['histories'], failure=fail,
                label='request histories <= %d steps over 2 databases x 2 workers, state changes incl. empty maps, failed syncs; multi-tenant pool: 3 tenants x 2 databases x 2 workers, cache size 2, evictions, drop_tenant (bounded)' % ln,
                clause='every request that reaches the compiler is compiled with exactly the state supplied with it')
