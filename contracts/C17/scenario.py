"""C17 bounded stand-in / counterexample finder (native, never counted as proof).

Drives REAL code: pool.AbstractPool.compile / compile_in_tx, _compute_compile_preargs, BaseWorker.call, the REAL
worker_proc.worker loop and the REAL worker.py handlers (in-process hand-over instead of the socket; recording COMPILER).
Explores request histories over 2 databases x 2 workers with state changes between requests (including empty maps and
re-presenting earlier objects) and failed state synchronisation (an unloadable pickle in any transmitted part).
Checks: every request that reaches the compiler is compiled with exactly the state supplied with it.
The two recorded RPC-boundary findings (undecodable request, unpicklable result) are not generated here.

usage: scenario.py <seed> <n_random> <max_len> <out.json>
"""
import asyncio, pickle, sys, json, random, itertools, immutables
from edb.server.compiler_pool import pool, state, worker, worker_proc, amsg

class Recorder:
    def __init__(self): self.last = None
    def compile_serialized_request(self, user_schema, global_schema, refl, dbc, sysc, *a, **k):
        self.last = (user_schema, global_schema, refl, dbc, sysc); return ('units', None)
    def compile_serialized_request_in_tx(self, cstate, *a, **k):
        self.last = ('in_tx', getattr(cstate, 'root', None)); return ('units', cstate)
    def compile_notebook(self, *a, **k): return self.compile_serialized_request(*a, **k)
    def compile_sql(self, *a, **k): return self.compile_serialized_request(*a, **k)

class FakeCState:
    """stands for CompilerConnectionState: the pickle does not carry the root user schema"""
    def __init__(self): self.root = None
    def set_root_user_schema(self, s): self.root = s
    def __getstate__(self): return {}
    def __setstate__(self, st): self.root = None

class Bad:
    """a value whose pickle cannot be loaded in the worker -> FailedStateSync"""
    def __init__(self, tag): self.tag = tag
    def __reduce__(self): return (_boom, (self.tag,))
def _boom(tag):
    # loading the pickle fails -- with one of several exception classes: a sync failure is a sync failure whatever its class
    n = sum(ord(ch) for ch in tag)
    raise (ValueError, MemoryError, RecursionError, pickle.UnpicklingError)[n % 4]('cannot load ' + tag)

class WorkerProc:
    """one simulated worker process: its own copy of worker.py's module globals"""
    def __init__(self): self.g = None
    def swap_in(self):
        self.saved = {k: getattr(worker, k, None) for k in ('DBS', 'GLOBAL_SCHEMA', 'INSTANCE_CONFIG', 'LAST_STATE', 'COMPILER')}
        for k, v in self.g.items(): setattr(worker, k, v)
    def swap_out(self):
        self.g = {k: getattr(worker, k, None) for k in self.saved}
        for k, v in self.saved.items(): setattr(worker, k, v)

class InProcCon:
    def __init__(self, proc): self.proc = proc
    def is_closed(self): return False
    async def request(self, msg):
        box = {}
        class FakeWC:
            def __init__(s, *a): pass
            def iter_request(s): yield (1, msg)
            def reply(s, req_id, data): box['data'] = data
            def abort(s): pass
        orig = amsg.WorkerConnection; amsg.WorkerConnection = FakeWC
        self.proc.swap_in()
        try: worker_proc.worker('sock', 0, worker.get_handler)
        finally:
            self.proc.swap_out(); amsg.WorkerConnection = orig
        return box['data']

def mk_values():
    vals = {}
    vals['usp'] = [pickle.dumps('S%d' % i) for i in range(2)]
    vals['gsp'] = [pickle.dumps('G%d' % i) for i in range(2)]
    vals['rc'] = [immutables.Map({'r': 1}), immutables.Map()]            # includes an EMPTY map
    vals['dc'] = [immutables.Map({'d': 1}), immutables.Map()]
    vals['sc'] = [immutables.Map({'s': 1}), immutables.Map()]
    return vals

def expected(usp, gsp, rc, dc, sc):
    return (pickle.loads(usp), pickle.loads(gsp), rc, dc, sc)

worker.INITED = True
STATS = dict(compiled=0, failed_sync=0, tx=0)

def run_history(hist):
    """hist: list of steps (worker_idx, db, usp_i, gsp_i, rc_i, dc_i, sc_i, fault) ; fault in (None,'usp','gsp','rc','dc','sc')"""
    vals = mk_values()
    procs = [WorkerProc(), WorkerProc()]; workers = []
    init_gsp, init_sc = vals['gsp'][0], vals['sc'][0]
    for pr in procs:
        pr.g = dict(DBS=immutables.Map(), GLOBAL_SCHEMA=pickle.loads(init_gsp), INSTANCE_CONFIG=init_sc, LAST_STATE=None, COMPILER=Recorder())
        w = pool.BaseWorker(immutables.Map(), None, None, None, None, init_gsp, init_sc); w._con = InProcCon(pr); workers.append(w)
    p = pool.AbstractPool.__new__(pool.AbstractPool)
    cur = {}
    async def acq(**kw): return cur['w']
    p._acquire_worker = acq; p._release_worker = lambda wk, **kw: None
    async def acq2(condition=None, **kw): return cur['w']
    p._acquire_worker = lambda **kw: acq2(**kw)
    for n, (wi, db, ui, gi, ri, di, si, fault) in enumerate(hist):
        usp, gsp, rc, dc, sc = vals['usp'][ui], vals['gsp'][gi], vals['rc'][ri], vals['dc'][di], vals['sc'][si]
        if fault == 'usp': usp = pickle.dumps(Bad('usp%d' % n))
        elif fault == 'gsp': gsp = pickle.dumps(Bad('gsp%d' % n))
        elif fault == 'rc': rc = immutables.Map({'bad': Bad('rc%d' % n)})
        elif fault == 'dc': dc = immutables.Map({'bad': Bad('dc%d' % n)})
        elif fault == 'sc': sc = immutables.Map({'bad': Bad('sc%d' % n)})
        cur['w'] = workers[wi]; rec = procs[wi].g['COMPILER']; rec.last = None
        if fault == 'tx':
            # a statement inside a transaction: compile_in_tx with a pickled compiler state (non-REUSE path)
            try: asyncio.run(p.compile_in_tx('db%d' % db, usp, 1, pickle.dumps(FakeCState()), 0, 'q'))
            except Exception: continue
            STATS['tx'] += 1
            if rec.last is not None and rec.last != ('in_tx', pickle.loads(usp)):
                return dict(step=n, differs=['root user schema of the transaction'], compiled_with=repr(rec.last), supplied=repr(pickle.loads(usp)))
            continue
        try: asyncio.run(p.compile('db%d' % db, usp, gsp, rc, dc, sc, 'q'))
        except state.FailedStateSync:
            STATS['failed_sync'] += 1; continue
        except Exception: pass
        if rec.last is not None: STATS['compiled'] += 1
        if rec.last is not None and fault is None:
            exp = expected(usp, gsp, rc, dc, sc)
            if rec.last != exp:
                which = [nm for nm, a, b in zip(('user_schema', 'global_schema', 'reflection_cache', 'database_config', 'system_config'), rec.last, exp) if a != b]
                return dict(step=n, differs=which, compiled_with=repr(rec.last), supplied=repr(exp))
    return None

def main():
    seed, n_random, max_len, out = int(sys.argv[1]), int(sys.argv[2]), int(sys.argv[3]), sys.argv[4]
    rnd = random.Random(seed)
    faults = [None, None, None, 'tx', 'tx', 'usp', 'gsp', 'rc', 'dc', 'sc']
    def step(): return (rnd.randrange(2), rnd.randrange(2), rnd.randrange(2), rnd.randrange(2), rnd.randrange(2), rnd.randrange(2), rnd.randrange(2), rnd.choice(faults))
    res = dict(histories=0, failure=None)
    # structured family first: vary one component at a time on one worker/db, with faults, length 3 (exhaustive)
    alpha = []
    for comp in range(5):
        for v in (0, 1):
            for f in (None, ('usp', 'gsp', 'rc', 'dc', 'sc')[comp]):
                s = [0, 0, 0, 0, 0, 0, 0, f]; s[2 + comp] = v; alpha.append(tuple(s))
    fam = list(itertools.product(alpha, repeat=3))
    rnd.shuffle(fam)
    for h in fam[:max(0, n_random)]:
        res['histories'] += 1
        f = run_history(list(h))
        if f: res['failure'] = dict(history=[list(x) for x in h], **f); break
    if not res['failure']:
        for _ in range(n_random):
            h = [step() for _ in range(rnd.randint(2, max_len))]
            res['histories'] += 1
            f = run_history(h)
            if f: res['failure'] = dict(history=[list(x) for x in h], **f); break
    res['stats'] = STATS
    json.dump(res, open(out, 'w'), indent=1)

if __name__ == '__main__':
    main()
