"""C15 / C16 bounded stand-in (native; never counted as proof).

Random client populations are run against the REAL edb.server.connpool.pool.Pool on a virtual-time asyncio loop
(timers fire in order, no wall-clock waiting; time.monotonic inside pool.py reads the virtual clock).  A fake backend
records the true state of every connection (opening / open / closing / closed; broken hand-backs are marked at release).
Checked at every backend event and after every client step:
  C15  open + opening (broken hand-backs counted as closed) <= max_capacity;   pool.current_capacity == open + opening + closing
       at quiescence (in flight: never below open + closing, never above max_capacity + broken connections being closed);
       a connection is lent to one client at a time, is open while lent, and belongs to the requested database
  C16  driven to quiescence, every acquire() has completed (with a connection, or with the connect error once retries are exhausted)
usage: scenario.py <seed> <n_scenarios> <out.json>
"""
import sys, json, random, asyncio, heapq, logging, types
from unittest import mock

_rn = types.ModuleType('edb.server._rust_native'); _rn.__path__ = []
_cp = mock.MagicMock(); _rn._conn_pool = _cp
sys.modules.setdefault('edb.server._rust_native', _rn); sys.modules.setdefault('edb.server._rust_native._conn_pool', _cp)
from edb.server.connpool import pool as pool_mod, config as pool_config   # noqa: E402
logging.getLogger('edb.server').setLevel(logging.CRITICAL)
logging.getLogger('asyncio').setLevel(logging.CRITICAL)

class VirtualLoop(asyncio.SelectorEventLoop):
    """timers fire in virtual time: when nothing is ready the clock jumps to the next timer"""
    def __init__(self):
        super().__init__(); self._vt = 1000.0
    def time(self): return self._vt
    def _run_once(self):
        if not self._ready and self._scheduled:
            # drop cancelled timers, then jump
            while self._scheduled and self._scheduled[0]._cancelled:
                h = heapq.heappop(self._scheduled); h._scheduled = False
            if self._scheduled and not self._ready:
                self._vt = max(self._vt, self._scheduled[0]._when)
        super()._run_once()

class FakeTime:
    def __init__(self, loop): self.loop = loop
    def monotonic(self): return self.loop.time()
    def __getattr__(self, n):
        import time as _t; return getattr(_t, n)

class Conn:
    n = 0
    def __init__(self, db): Conn.n += 1; self.id = Conn.n; self.db = db; self.state = 'opening'; self.broken = False; self.holder = None
    def __repr__(self): return '<c%d %s %s%s>' % (self.id, self.db, self.state, ' broken' if self.broken else '')

class ConnectFailed(Exception): pass
class DisconnectFailed(Exception): pass

class World:
    def __init__(self, rnd, maxcap, fail_rate, slow):
        self.rnd, self.max, self.fail_rate, self.slow = rnd, maxcap, fail_rate, slow
        self.conns = []; self.failure = None; self.events = []; self.peak = 0; self.disc_fail_rate = 0.0
    def fail(self, kind, msg):
        if self.failure is None: self.failure = dict(kind=kind, problem=msg, trace=self.events[-40:])
    def live(self): return sum(1 for c in self.conns if c.state in ('opening', 'open') and not c.broken)
    def check_bound(self, where):
        n = self.live(); self.peak = max(self.peak, n)
        if n > self.max: self.fail('C15 bound', '%s: %d backend connections open or being opened (broken hand-backs excluded), max_capacity=%d' % (where, n, self.max))
    async def connect(self, db):
        c = Conn(db); self.conns.append(c); self.events.append('connect-start %r' % c); self.check_bound('connect(%s)' % db)
        await asyncio.sleep(self.rnd.choice(self.slow))
        if self.rnd.random() < self.fail_rate:
            c.state = 'closed'; self.events.append('connect-fail %r' % c); raise ConnectFailed(db)
        c.state = 'open'; self.events.append('connect-done %r' % c); return c
    async def disconnect(self, c):
        if c.state != 'open': self.fail('C15 lifecycle', 'disconnect of %r' % c)
        if c.holder is not None: self.fail('C15 lending', 'connection %r closed while lent to client %s' % (c, c.holder))
        c.state = 'closing'; self.events.append('disconnect-start %r' % c)
        await asyncio.sleep(self.rnd.choice(self.slow))
        c.state = 'closed'; self.events.append('disconnect-done %r' % c)
        if self.rnd.random() < self.disc_fail_rate:
            self.events.append('disconnect-error %r' % c); raise DisconnectFailed(c.db)      # the connection is gone, but the callback reports an error
    def usage_true(self): return sum(1 for c in self.conns if c.state in ('opening', 'open', 'closing'))

async def client(i, w, pool, db, hold, discard, stats):
    stats['started'] += 1
    try:
        c = await pool.acquire(db)
    except ConnectFailed:
        stats['reported_failure'] += 1; w.events.append('client %d: connect error reported' % i); return
    w.events.append('client %d got %r' % (i, c))
    if c.holder is not None: w.fail('C15 lending', 'connection %r lent to client %d while still lent to client %s' % (c, i, c.holder))
    if c.state != 'open' or c.broken: w.fail('C15 lending', 'client %d was lent %r which is not an open connection' % (i, c))
    if c.db != db: w.fail('C15 lending', 'client %d asked for %s and was lent %r' % (i, db, c))
    c.holder = i
    await asyncio.sleep(hold)
    c.holder = None
    if discard: c.broken = True
    w.events.append('client %d releases %r%s' % (i, c, ' (discard)' if discard else ''))
    pool.release(db, c, discard=discard)
    w.check_bound('release by client %d' % i)
    stats['served'] += 1

async def scenario(loop, rnd, w, spec, stats):
    pool = pool_mod.Pool(connect=w.connect, disconnect=w.disconnect, max_capacity=w.max, min_idle_time_before_gc=spec['gc'])
    tasks = []
    for i, (at, db, hold, discard) in enumerate(spec['clients']):
        async def later(i=i, at=at, db=db, hold=hold, discard=discard):
            await asyncio.sleep(at); await client(i, w, pool, db, hold, discard, stats)
        tasks.append(loop.create_task(later()))
    async def pruner(at, db):
        await asyncio.sleep(at)
        w.events.append('prune_inactive_connections(%s)' % db)
        await pool.prune_inactive_connections(db)
        w.check_bound('prune(%s)' % db)
    ptasks = [loop.create_task(pruner(at, db)) for at, db in spec.get('prunes', [])]
    # clients that keep asking: acquire, hold, release, again -- for `dur` virtual seconds.  Oracle (bounded stand-in for "eventually served" under sustained load):
    # every looper is served at least once although the others were served many times, and a scripted request with a deadline is served within it
    loop_stats = {}; w.loop_stats = loop_stats
    for li, (at, db, hold, dur) in enumerate(spec.get('loopers', [])):
        loop_stats[li] = dict(db=db, served=0, served_by_80pct=None)
        async def looper(li=li, at=at, db=db, hold=hold, dur=dur):
            await asyncio.sleep(at); t_end = loop.time() + dur
            async def checkpoint():      # what each looper had got when 80% of the run was over (afterwards the others stop asking and anybody is served)
                await asyncio.sleep(0.8 * dur); loop_stats[li]['served_by_80pct'] = loop_stats[li]['served']
            loop.create_task(checkpoint())
            while loop.time() < t_end:
                stats['started'] += 1
                c = await pool.acquire(db)
                if c.holder is not None or c.state != 'open' or c.db != db: w.fail('C15 lending', 'looper %d was lent %r for %s' % (li, c, db))
                c.holder = 'looper%d' % li; await asyncio.sleep(hold); c.holder = None
                pool.release(db, c); w.check_bound('release by looper %d' % li); stats['served'] += 1; loop_stats[li]['served'] += 1      # (asks again at once)
        tasks.append(loop.create_task(looper()))
    if spec.get('script'):
        # one driver task executing steps strictly one after the other (what a single server task does): ('acq', key, db) / ('rel', key) / ('prune', db) /
        # ('sleep', t) / ('bg', key, db): start an acquire in the background / ('wait', key): the background acquire must complete, then release it
        async def driver():
            held = {}; bg = {}
            async def acq(key, db):
                stats['started'] += 1
                c = await pool.acquire(db); w.events.append('script: got %r' % c)
                if c.holder is not None or c.state != 'open' or c.db != db: w.fail('C15 lending', 'script was lent %r for %s' % (c, db))
                c.holder = 'script:' + key; held[key] = (db, c); stats['served'] += 1
            for st in spec['script']:
                if st[0] == 'acq': await acq(st[1], st[2])
                elif st[0] == 'rel':
                    db, c = held.pop(st[1]); c.holder = None; w.events.append('script: releases %r' % c); pool.release(db, c); w.check_bound('script release')
                elif st[0] == 'prune':
                    w.events.append('script: prune_inactive_connections(%s)' % st[1]); await pool.prune_inactive_connections(st[1])
                elif st[0] == 'sleep': await asyncio.sleep(st[1])
                elif st[0] == 'bgprune':      # the prune runs concurrently with what follows (its disconnects are in flight)
                    w.events.append('script: prune_inactive_connections(%s) in the background' % st[1]); ptasks.append(loop.create_task(pool.prune_inactive_connections(st[1])))
                elif st[0] == 'bg': bg[st[1]] = loop.create_task(acq(st[1], st[2]))
                elif st[0] == 'wait':
                    if len(st) > 2:      # ('wait', key, deadline): the background request must have been served `deadline` virtual seconds from now
                        done_, _ = await asyncio.wait([bg[st[1]]], timeout=st[2])
                        if not done_:
                            w.fail('C16 liveness', 'a queued request for %r was not served within %.1f virtual seconds while other databases were served %d times; blocks %s'
                                   % (st[1], st[2], sum(v['served'] for v in loop_stats.values()), {k: (len(b.conns), b.pending_conns, b.conn_waiters_num, b.quota, getattr(b, 'suppressed', None)) for k, b in pool._blocks.items()}))
                            bg[st[1]].cancel(); continue
                    await bg[st[1]]
                    db, c = held.pop(st[1]); c.holder = None; pool.release(db, c)
        tasks.append(loop.create_task(driver()))
    async def monitor():
        while True:
            await asyncio.sleep(0.0037)
            w.check_bound('monitor')
            # reported usage vs truth: a connect scheduled for a *transfer* is counted by the pool only once the old connection is closed,
            # so in flight only the one-sided bound is checked; exact equality is checked at quiescence below
            rep, tru = pool.current_capacity, w.usage_true()
            if rep < sum(1 for c in w.conns if c.state in ('open', 'closing')):
                w.fail('C15 usage', 'pool reports %d connections in use, backend has %d open or closing' % (rep, sum(1 for c in w.conns if c.state in ('open', 'closing'))))
            if rep - sum(1 for c in w.conns if c.broken and c.state in ('open', 'closing')) > w.max:
                w.fail('C15 bound', 'pool reports %d connections in use (max_capacity %d) beyond the broken ones being closed' % (rep, w.max))
    mon = loop.create_task(monitor())
    done, pending = await asyncio.wait(tasks, timeout=spec['horizon'])
    mon.cancel()
    if loop_stats and not w.failure:
        total = sum(v['served'] for v in loop_stats.values())
        starved = [(li, v['db']) for li, v in loop_stats.items() if v['served_by_80pct'] == 0]
        if starved and total >= 50:
            w.fail('C16 liveness', 'client(s) %s kept a request pending for 80%% of the run and were not served once while the others were served %d times: %s' % (starved, total, loop_stats))
    if ptasks: await asyncio.wait(ptasks, timeout=60.0)      # (never cancel a prune in flight: that would cancel its disconnects)
    if pending:
        blocked = [i for i, t in enumerate(tasks) if t in pending]
        w.fail('C16 liveness', '%d acquire request(s) never completed within %.0f virtual seconds although every holder released and connects can succeed: clients %s; blocks %s'
               % (len(pending), spec['horizon'], blocked[:8], {k: (len(b.conns), b.pending_conns, b.conn_waiters_num, b.quota) for k, b in pool._blocks.items()}))
        for t in pending: t.cancel()
    for t in done:
        if t.exception() is not None and not isinstance(t.exception(), asyncio.CancelledError):
            w.fail('crash', 'client task died: %r' % (t.exception(),))
    # quiescent: usage must be exact
    await asyncio.sleep(0.5)
    if not w.failure and pool.current_capacity != w.usage_true():
        w.fail('C15 usage', 'at quiescence the pool reports %d connections, the backend has %d open/opening/closing' % (pool.current_capacity, w.usage_true()))

def gen_spec(rnd):
    ndb = rnd.choice([1, 2, 2, 3, 4, 6]); maxcap = rnd.choice([1, 2, 3, 4, 4, 6])
    ncl = rnd.randint(2, 14)
    dbs = ['db%d' % i for i in range(ndb)]
    burst = rnd.random() < 0.5
    clients = []
    for _ in range(ncl):
        at = 0.0 if burst and rnd.random() < 0.7 else rnd.choice([0.0, 0.001, 0.005, 0.012, 0.02, 0.05, 0.2])
        clients.append((at, rnd.choice(dbs), rnd.choice([0.0, 0.001, 0.004, 0.03, 0.1]), rnd.random() < 0.15))
    prunes = [(rnd.choice([0.001, 0.006, 0.013, 0.03, 0.08]), rnd.choice(dbs)) for _ in range(rnd.choice([0, 0, 1, 2]))]
    return dict(maxcap=maxcap, clients=clients, prunes=prunes, slow=rnd.choice([[0.0], [0.001, 0.02], [0.02, 0.05], [0.0, 0.1]]),
                fail_rate=rnd.choice([0.0, 0.0, 0.0, 0.1, 0.3]), disc_fail_rate=rnd.choice([0.0, 0.0, 0.0, 0.2]), gc=rnd.choice([0.01, 1.0, 120.0]), horizon=600.0)

def run_one(seed, spec=None):
    rnd = random.Random(seed); spec = spec or gen_spec(rnd)
    loop = VirtualLoop(); asyncio.set_event_loop(loop)
    pool_mod.time = FakeTime(loop)
    # an exception escaping from one of the pool's own callbacks (the rebalancing tick, the GC) aborts that round of maintenance: queued requests then depend on
    # luck (e.g. the idle-connection GC minutes later).  Exceptions of the injected connect / disconnect failures never reach the loop's handler.
    def on_loop_exception(lp, context):
        exc = context.get('exception'); cb = str(context.get('handle') or context.get('future') or '')
        if isinstance(exc, (ConnectFailed, DisconnectFailed, asyncio.CancelledError)) or exc is None: return
        # where it was raised (innermost frame of the pool module): recorded findings are identified by the exact statement that fails
        import traceback as _tb, linecache as _lc
        fr = [f for f in _tb.extract_tb(exc.__traceback__) if f.filename.endswith('connpool/pool.py')]
        site = (fr[-1].name, (fr[-1].line or '').strip()) if fr else ('?', '?')
        for kid, (fn_, stmt_) in KNOWN_SITES.items():
            if isinstance(exc, AssertionError) and site == (fn_, stmt_):
                known_hits.setdefault(kid, '%r in %s' % (exc, cb[:80])); return
        if not errors_seen: errors_seen.append('%r in %s (raised at %s: `%s`)' % (exc, cb[:120], site[0], site[1]))
    errors_seen = []; known_hits = {}
    loop.set_exception_handler(on_loop_exception)
    w = World(rnd, spec['maxcap'], spec['fail_rate'], spec['slow']); w.disc_fail_rate = spec.get('disc_fail_rate', 0.0); stats = dict(started=0, served=0, reported_failure=0)
    try:
        loop.run_until_complete(scenario(loop, rnd, w, spec, stats))
    except Exception as e:       # noqa
        w.fail('crash', 'scenario raised %r' % (e,))
    finally:
        try:
            for t in asyncio.all_tasks(loop): t.cancel()
            loop.run_until_complete(asyncio.sleep(0))
        except Exception: pass
        loop.close()
    if errors_seen and not w.failure:
        w.fail('C16 liveness', 'a maintenance callback of the pool died while requests were queued (they were served only later, if at all): %s' % errors_seen[0])
    w.known_hits = known_hits
    return w, stats, spec

# failures of the pool that are recorded as open findings in /verif/known_findings.json, identified by the statement that raises (function, source text);
# a scenario that only hits one of these is reported under `known`, not as a failure -- anything else still is
KNOWN_SITES = {'C16-KF1-tick-mode-c-assert': ('_tick', 'assert capacity_left > 0')}

# fixed patterns known to be delicate (pending connects when the tick fires; more databases than connections; discards under pressure)
def patterns():
    # the pool is full, two databases queue with nothing coming, then one slot is freed without being handed over (prune) before a tick
    yield dict(maxcap=2, clients=[(0.0, 'd', 0.5, False), (0.0, 'a', 0.0, False), (0.004, 'b', 0.01, False), (0.004, 'c', 0.01, False)], prunes=[(0.006, 'a')],
               slow=[0.0], fail_rate=0.0, gc=120.0, horizon=600.0)
    # a pruned (suppressed, now empty) block is requested again while the pool is full of another database's idle connections, before any tick dropped it
    yield dict(maxcap=2, clients=[(0.0, 'a', 0.0, False), (0.002, 'b', 0.0005, False), (0.002, 'b', 0.0005, False), (0.004, 'a', 0.0, False)], prunes=[(0.001, 'a')],
               slow=[0.0], fail_rate=0.0, gc=120.0, horizon=600.0)
    yield dict(maxcap=1, clients=[(0.0, 'a', 0.0, False), (0.002, 'b', 0.0, False), (0.004, 'a', 0.0, False)], prunes=[(0.001, 'a')], slow=[0.0], fail_rate=0.0, gc=120.0, horizon=600.0)
    yield dict(maxcap=2, clients=[(0.0, 'tpl', 0.0, False), (0.6, 'A', 0.0002, False), (0.6, 'A', 0.0002, False), (0.601, 'tpl', 0.0, False)], prunes=[(0.5, 'tpl')],
               slow=[0.0], fail_rate=0.0, gc=120.0, horizon=600.0)
    # the same as one server task would do it, step by step: use and prune a database, fill the pool with idle connections of another one, ask for the first again
    yield dict(maxcap=2, clients=[], script=[('acq', 't0', 'tpl'), ('rel', 't0'), ('sleep', 1.0), ('prune', 'tpl'), ('acq', 'a1', 'A'), ('acq', 'a2', 'A'), ('rel', 'a1'), ('rel', 'a2'),
                                              ('bg', 't1', 'tpl'), ('wait', 't1')], slow=[0.0], fail_rate=0.0, gc=120.0, horizon=600.0)
    yield dict(maxcap=2, clients=[], script=[('acq', 't0', 'tpl'), ('rel', 't0'), ('sleep', 1.0), ('prune', 'tpl'), ('acq', 'a1', 'A'), ('acq', 'a2', 'A'), ('bg', 't1', 'tpl'),
                                              ('sleep', 0.05), ('rel', 'a1'), ('sleep', 0.05), ('rel', 'a2'), ('wait', 't1')], slow=[0.0], fail_rate=0.0, gc=120.0, horizon=600.0)
    yield dict(maxcap=1, clients=[(0.0, 'tpl', 0.0, False), (0.6, 'A', 0.0002, False), (0.601, 'tpl', 0.0, False)], prunes=[(0.5, 'tpl')], slow=[0.0], fail_rate=0.0, gc=120.0, horizon=600.0)
    # a lone request for a database without connections arrives at a pool whose whole capacity idles in another block (only the tick can move it)
    yield dict(maxcap=2, clients=[(0.0, 'a', 0.0, False), (0.0, 'a', 0.0, False), (0.5, 'b', 0.0, False)], slow=[0.0], fail_rate=0.0, gc=120.0, horizon=600.0)
    yield dict(maxcap=1, clients=[(0.0, 'a', 0.0, False), (0.5, 'b', 0.0, False), (1.0, 'c', 0.0, False), (1.5, 'd', 0.0, False)], slow=[0.0], fail_rate=0.0, gc=120.0, horizon=600.0)
    yield dict(maxcap=4, clients=[(0.0, 'A', 0.05, False)] * 4 + [(0.001, 'B', 0.01, False)] * 2, slow=[0.05], fail_rate=0.0, gc=120.0, horizon=600.0)
    yield dict(maxcap=2, clients=[(0.0, 'db%d' % (i % 5), 0.01, False) for i in range(10)], slow=[0.001, 0.02], fail_rate=0.0, gc=120.0, horizon=600.0)
    yield dict(maxcap=2, clients=[(0.0, 'A', 0.02, True), (0.0, 'A', 0.02, True), (0.001, 'B', 0.0, False), (0.002, 'A', 0.0, False), (0.03, 'B', 0.0, True)], slow=[0.02], fail_rate=0.0, gc=120.0, horizon=600.0)
    yield dict(maxcap=1, clients=[(0.0, 'A', 0.0, False), (0.0, 'B', 0.0, False), (0.0, 'C', 0.0, False), (0.0, 'A', 0.0, False)], slow=[0.0], fail_rate=0.0, gc=0.01, horizon=600.0)
    yield dict(maxcap=3, clients=[(0.0, 'A', 0.01, False)] * 6, slow=[0.0, 0.1], fail_rate=0.3, gc=120.0, horizon=600.0)
    yield dict(maxcap=3, clients=[(0.0, 'A', 0.0, False)] * 5 + [(0.0, 'B', 0.0, False)] * 3, slow=[0.0], fail_rate=1.0, gc=120.0, horizon=600.0)

def patterns2():
    # more databases than connections, every client asks again at once: the waitlist of new blocks must be served in arrival order (no database starves)
    yield dict(maxcap=1, clients=[], loopers=[(0.0, 'A', 0.002, 3.0), (0.0, 'B', 0.002, 3.0), (0.0, 'C', 0.002, 3.0)], slow=[0.001], fail_rate=0.0, gc=120.0, horizon=600.0)
    yield dict(maxcap=2, clients=[], loopers=[(0.0, 'db%d' % i, 0.002, 3.0) for i in range(5)], slow=[0.001], fail_rate=0.0, gc=120.0, horizon=600.0)
    # a waiter is woken by release(), and before its task runs the very connection is pruned; meanwhile another database keeps the pool busy
    yield dict(maxcap=2, clients=[], loopers=[(0.0035, 'Y', 0.002, 4.0), (0.0035, 'Y', 0.002, 4.0)],
               script=[('acq', 'x1', 'X'), ('acq', 'y1', 'Y'), ('bg', 'w', 'X'), ('sleep', 0), ('sleep', 0), ('sleep', 0), ('rel', 'x1'), ('prune', 'X'), ('sleep', 0.01), ('rel', 'y1'), ('wait', 'w', 3.0)],
               slow=[0.001], fail_rate=0.0, gc=120.0, horizon=600.0)

def patterns3():
    # ONE database: its idle connections are being closed (slow disconnect) when a burst of requests arrives -- neither more connections than the maximum (those being
    # closed still count) nor a request left waiting once the closes are done
    for maxcap in (1, 2, 3):
        names = ['k%d' % i for i in range(maxcap)]
        yield dict(maxcap=maxcap, clients=[], script=[('acq', k, 'X') for k in names] + [('rel', k) for k in names] + [('sleep', 0.05), ('bgprune', 'X'), ('sleep', 0.001)] +
                   [('bg', 'w%d' % i, 'X') for i in range(maxcap + 1)] + [('wait', 'w%d' % i, 3.0) for i in range(maxcap + 1)], slow=[0.02], fail_rate=0.0, gc=120.0, horizon=600.0)
    # a retryable connect failure while the pool is full and another request is waiting
    yield dict(maxcap=2, clients=[(0.0, 'A', 0.05, False), (0.0, 'A', 0.05, False), (0.001, 'B', 0.01, False), (0.002, 'A', 0.01, False), (0.003, 'B', 0.01, False)], slow=[0.001, 0.02], fail_rate=0.5, gc=120.0, horizon=600.0)

def main():
    seed, n, out = int(sys.argv[1]), int(sys.argv[2]), sys.argv[3]
    res = dict(scenarios=0, clients=0, served=0, reported_failures=0, failure_C15=None, failure_C16=None, known={})
    def account(w, stats, spec, label):
        res['scenarios'] += 1; res['clients'] += stats['started']; res['served'] += stats['served']; res['reported_failures'] += stats['reported_failure']
        for kid, what in getattr(w, 'known_hits', {}).items(): res['known'].setdefault(kid, dict(scenario=label, what=what, spec=spec))
        if w.failure:
            key = 'failure_C16' if w.failure['kind'].startswith('C16') else 'failure_C15'      # crashes of pool tasks count against C15 (accounting)
            if not res[key]: res[key] = dict(w.failure, scenario=label, spec=spec)
    for k, spec in enumerate(list(patterns()) + list(patterns2()) + list(patterns3())):
        w, stats, spec = run_one(seed * 1000 + k, spec); account(w, stats, spec, 'pattern %d' % k)
    k = 0
    while not (res['failure_C15'] and res['failure_C16']) and k < n:
        w, stats, spec = run_one(seed * 100003 + k); account(w, stats, spec, 'random seed %d' % (seed * 100003 + k)); k += 1
    json.dump(res, open(out, 'w'), indent=1, default=str)

if __name__ == '__main__':
    main()
