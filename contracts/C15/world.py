"""C15 (+ the safety lemmas of C16) sidecar contracts: backend connection pool, edb/server/connpool/pool.py.

The pool runs on one asyncio loop: code between two `await`s is atomic.  Every `await` of something outside the pool
(connect / disconnect callback, a waiter future) is a *yield point*: the contract of the awaited thing REQUIRES the
global invariant (what this task guarantees to the others when it gives up control), MODIFIES every pool / block /
connection-state / ghost field (anything can run meanwhile), and ENSURES the global invariant again (what it may rely
on when it resumes).  Proving every function under these contracts shows the invariant at every instant at which a
task can be switched, for every number of tasks and every interleaving (rely/guarantee over atomic blocks).

Ghost state (module-level `state`, updated by ghost statements attached to the real statements):
  G_total   sum over all blocks of  len(conns) + pending_conns      (updated where conns / pending_conns are written)
  G_D       connections taken out of `conns` whose disconnect has not finished (still hold a capacity unit)
  G_T       transfers whose target `pending_conns` is already counted but whose capacity unit is still the old connection's
  LENT      connections currently lent by Pool.acquire and not yet handed back by Pool.release
  G_X       number of connections handed back as broken (release(discard=True)) whose disconnect has not finished
            (a ghost argument `broken` of _schedule_discard / _discard_conn / _disconnect carries the credit)

Global invariant:
  CAP     _cur_capacity + G_T == G_total + G_D      (reported usage == open + being opened + being closed)
  BOUND   _cur_capacity - G_X <= _max_capacity       (open or being opened, a broken hand-back counted as closed, <= maximum)
  BI(b) for every block b:   every stacked connection is in b.conns, not in use, not lent, stacked once;
                             c in b.conns  ==>  (b.conns[c].in_use  <=>  c in LENT)
  DISJ, OWN, BLK  blocks share no connection; every ConnectionState belongs to one (block, connection); a block that has
                  connections, pending connects or waiters is the registered block of its database
"""
import ast, os
from pyvc.engine import World
from pyvc import repo

POOLPY = 'edb/server/connpool/pool.py'

def conj(cs): return ' and '.join('(%s)' % c for c in cs)

EXPORT = {}

def build():
    w = World('C15')
    w.coroutine_objects = True
    w.nonmutating = {'move_to_end'}      # OrderedDicts are modelled as unordered maps: reordering writes nothing
    w.any('Conn')
    w.refclass('Obj', {}, universal=True)
    w.refclass('CS', {'in_use': 'bool', 'in_use_since': 'float', 'in_stack_since': 'float'}, POOLPY, 'ConnectionState')
    # futures: st 0 pending, 1 result, 2 exception, 3 cancelled
    w.refclass('Fut', {'st': 'int'})
    w.refclass('Loop', {})
    w.refclass('Block', {'loop': 'Loop', 'dbname': 'str', 'conns': 'Map[Conn,CS]', 'quota': 'int', 'pending_conns': 'int', 'last_connect_timestamp': 'float',
                         'conn_acquired_num': 'int', 'conn_waiters_num': 'int', 'conn_waiters': 'Seq[Fut]', 'conn_stack': 'Seq[Conn]',
                         'connect_failures_num': 'int', 'querytime_avg': 'Obj', 'nwaiters_avg': 'Obj', 'suppressed': 'bool',
                         '_cached_calibrated_demand': 'float', '_is_log_batching': 'bool', '_last_log_timestamp': 'float', '_log_events': 'Map[str,int]'}, POOLPY, 'Block')
    GH = {'G_total': 'int', 'G_D': 'int', 'G_T': 'int', 'G_X': 'int', 'LENT': 'Set[Conn]'}
    w.trusted.append('OrderedDict (_blocks, _new_blocks_waitlist) modelled as unordered maps: the order only drives round-robin fairness, no clause of C15 depends on it')
    w.trusted.append('collections.deque modelled as a sequence (append/appendleft/pop/popleft/remove/clear); asyncio futures as objects with a 4-valued state')
    # ---- futures (asyncio; outside reach)
    w.ext_methods['Fut.done'] = dict(params={}, returns='bool', ensures=['result == (self.st != 0)'])
    w.ext_methods['Fut.cancelled'] = dict(params={}, returns='bool', ensures=['result == (self.st == 3)'])
    w.ext_methods['Fut.set_result'] = dict(params={'r': 'none'}, returns='none', requires=['self.st == 0'], modifies=['Fut.st'],
                                           ensures=['self.st == 1', 'heap_same_except("Fut.st", self)'])
    w.ext_methods['Fut.set_exception'] = dict(params={'e': 'Obj'}, returns='none', requires=['self.st == 0'], modifies=['Fut.st'],
                                              ensures=['self.st == 2', 'heap_same_except("Fut.st", self)'])
    w.ext_methods['Fut.cancel'] = dict(params={}, returns='bool', modifies=['Fut.st'],
                                       ensures=['self.st == (3 if old(self.st) == 0 else old(self.st))', 'heap_same_except("Fut.st", self)'])
    w.ext_funcs['time.monotonic'] = dict(params={}, returns='float')

    # ---- block invariant
    w.define('STK(b)', conj([
        'forall(0, len(b.conn_stack), lambda i: b.conn_stack[i] in b.conns and not b.conns[b.conn_stack[i]].in_use)',
        'forall(0, len(b.conn_stack), lambda i: forall(0, len(b.conn_stack), lambda j: implies(i != j, b.conn_stack[i] != b.conn_stack[j])))']))
    w.define('LNT(b)', 'forall(Conn, lambda c: implies(c in b.conns, b.conns[c].in_use == (c in LENT)))')
    w.define('BI(b)', 'STK(b) and LNT(b)')

    # ---- Block: synchronous helpers
    w.contract(POOLPY, 'Block.count_conns', params={'self': 'Block'}, returns='int', pure=True, ensures=['result == len(self.conns) + self.pending_conns'])
    w.contract(POOLPY, 'Block.count_waiters', params={'self': 'Block'}, returns='int', pure=True, ensures=['result == self.conn_waiters_num'])
    w.contract(POOLPY, 'Block.count_queued_conns', params={'self': 'Block'}, returns='int', pure=True, ensures=['result == len(self.conn_stack)'])
    w.contract(POOLPY, 'Block.count_pending_conns', params={'self': 'Block'}, returns='int', pure=True, ensures=['result == self.pending_conns'])
    w.contract(POOLPY, 'Block.count_conns_over_quota', params={'self': 'Block'}, returns='int', pure=True,
               ensures=['result == max(len(self.conns) + self.pending_conns - self.quota, 0)'])
    w.contract(POOLPY, 'Block.try_steal', params={'self': 'Block', 'only_older_than': 'Opt[float]'}, state=GH, returns='Opt[Conn]',
               requires=['BI(self)'], modifies=['Block.conn_stack'],
               ensures=['BI(self)', 'heap_same_except("Block.conn_stack", self)',
                        'implies(is_none(result), len(self.conn_stack) == old(len(self.conn_stack)))',
                        # a stolen connection is an idle one of this block: open, not lent, not broken -- and it is no longer stacked
                        'implies(not is_none(result), some(result) in self.conns and not self.conns[some(result)].in_use and not (some(result) in LENT)'
                        ' and len(self.conn_stack) == old(len(self.conn_stack)) - 1 and not exists(0, len(self.conn_stack), lambda i: self.conn_stack[i] == some(result)))'])
    # ---- the pool object and the global invariant
    w.refclass('ConnCb', {}); w.refclass('DiscCb', {})
    w.refclass('Pool', {'_connect_cb': 'ConnCb', '_disconnect_cb': 'DiscCb', '_stats_cb': 'Opt[Obj]', '_max_capacity': 'int', '_cur_capacity': 'int',
                        '_loop': 'Opt[Loop]', '_current_snapshot': 'Opt[Obj]', '_blocks': 'Map[str,Block]', '_is_starving': 'bool',
                        '_failed_connects': 'int', '_failed_disconnects': 'int', '_successful_connects': 'int', '_successful_disconnects': 'int',
                        '_conntime_avg': 'Obj', '_new_blocks_waitlist': 'Map[Block,bool]', '_blocks_over_quota': 'Seq[Block]', '_nacquires': 'int',
                        '_htick': 'Opt[Obj]', '_first_tick': 'bool', '_to_drop': 'Seq[Block]', '_gc_interval': 'float', '_gc_requests': 'int'}, POOLPY, 'Pool')
    w.hierarchies = getattr(w, 'hierarchies', {})
    PGH = dict(GH, POOL='Pool')
    w.define('CAP()', 'POOL._cur_capacity + G_T == G_total + G_D')
    w.define('BOUND()', 'POOL._cur_capacity - G_X <= POOL._max_capacity')
    w.define('ALLBI()', 'forall(Block, lambda b: BI(b))')
    w.define('DISJ()', 'forall(Block, Block, Conn, lambda b1, b2, c: implies(b1 != b2 and c in b1.conns, not (c in b2.conns)))')
    # ghost back pointers of a ConnectionState to the (block, connection) it belongs to: distinct connections have distinct state objects
    w.classes['CS'].update({'g_b': 'Block', 'g_c': 'Conn'})
    w.define('OWN()', 'forall(Block, Conn, lambda b, c: implies(c in b.conns, b.conns[c].g_b == b and b.conns[c].g_c == c))')
    # a block that holds connections (or pending ones) or has waiters is the registered block of its database
    w.define('REG(b)', 'b.dbname in POOL._blocks and POOL._blocks[b.dbname] == b')
    w.define('BLK()', 'forall(Block, lambda b: b.pending_conns >= 0 and b.conn_waiters_num >= 0 and implies(len(b.conns) > 0 or b.pending_conns > 0 or b.conn_waiters_num > 0, REG(b)))')
    w.define('OWN()', 'forall(Block, Conn, lambda b, c: implies(c in b.conns, allocated(b.conns[c]) and b.conns[c].g_b == b and b.conns[c].g_c == c))')
    w.define('KEYS()', 'forall(str, lambda k: implies(k in POOL._blocks, POOL._blocks[k].dbname == k and allocated(POOL._blocks[k])))')
    # C16 lemma W6 (the rebalancing tick stays armed): while acquire requests are in flight a tick is scheduled -- the tick is what opens connections for
    # queued requests when capacity was freed without being handed over (GC, pruning, failed connects), so a pool that stops ticking strands them
    w.define('TICK()', 'implies(POOL._nacquires > 0, not is_none(POOL._htick))')
    w.define('GINV()', 'CAP() and BOUND() and G_X >= 0 and ALLBI() and DISJ() and OWN() and BLK() and KEYS() and TICK()')
    GINVL = ['CAP()', 'BOUND()', 'G_X >= 0', 'ALLBI()', 'DISJ()', 'OWN()', 'BLK()', 'KEYS()', 'TICK()']
    ALLMOD = ['Block.' + f for f in ('conns', 'quota', 'pending_conns', 'last_connect_timestamp', 'conn_acquired_num', 'conn_waiters_num', 'conn_waiters', 'conn_stack',
                                     'connect_failures_num', 'suppressed', '_cached_calibrated_demand', '_is_log_batching', '_last_log_timestamp', '_log_events')] + \
             ['CS.in_use', 'CS.in_use_since', 'CS.in_stack_since', 'CS.g_b', 'CS.g_c', 'Fut.st'] + \
             ['Pool.' + f for f in ('_cur_capacity', '_blocks', '_is_starving', '_failed_connects', '_failed_disconnects', '_successful_connects', '_successful_disconnects',
                                    '_new_blocks_waitlist', '_blocks_over_quota', '_nacquires', '_htick', '_first_tick', '_to_drop', '_gc_requests', '_loop', '_current_snapshot')] + \
             list(GH) + ['$alloc']
    w.trusted.append('Pool.prune_all_connections (HA failover: closes connections that are lent) is outside the scope of C15 and assumed not to run')
    w.trusted.append('environment: a connection returned by the connect callback is a new object (in no block, not lent, not recorded broken); '
                     '_max_capacity is never reassigned')
    # yield points
    YIELD = dict(requires=[*GINVL], modifies=ALLMOD, state=list(PGH))
    w.ext_methods['Fut.__await__'] = dict(YIELD, params={}, returns='none',
        # resuming normally means somebody completed the future with a result; an exception set by abort_waiters (or a cancellation) is raised here
        ensures=GINVL + ['self.st == 1'], raises={'WaiterError': dict(ensures=GINVL + ['self.st == 2']), 'CancelledError': dict(ensures=GINVL + ['self.st == 3'])})
    w.ext_methods['ConnCb.__call__'] = dict(YIELD, params={'dbname': 'str'}, returns='Conn',
        ensures=GINVL + ['forall(Block, lambda b: not (result in b.conns))', 'not (result in LENT)'],
        raises={'ConnectError': dict(ensures=GINVL)})
    w.ext_methods['DiscCb.__call__'] = dict(YIELD, params={'conn': 'Conn'}, returns='none', ensures=GINVL, raises={'DisconnectError': dict(ensures=GINVL)})

    # ---- Block: waiters
    WK = '(old(len(self.conn_waiters)) - len(self.conn_waiters))'
    SUFFIX = ['%s >= 0' % WK, 'forall(0, len(self.conn_waiters), lambda i: self.conn_waiters[i] == old(self.conn_waiters)[i + %s])' % WK,
              'heap_same_except("Block.conn_waiters", self)']
    w.contract(POOLPY, 'Block._wakeup_next_waiter', params={'self': 'Block'}, returns='none', modifies=['Block.conn_waiters', 'Fut.st'],
        ensures=SUFFIX + [
            # C16 lemma (no lost wake-up): if some queued waiter is still pending, the first pending one is completed with a result
            'implies(exists(0, old(len(self.conn_waiters)), lambda i: old(self.conn_waiters[i].st) == 0),'
            ' exists(0, old(len(self.conn_waiters)), lambda i: old(self.conn_waiters[i].st) == 0 and old(self.conn_waiters)[i].st == 1'
            ' and forall(0, i, lambda j: old(self.conn_waiters[j].st) != 0)))',
            # nothing else happens to any future: at most one pending future is completed, with a result
            'forall(Fut, lambda f: f.st == old(f.st) or (old(f.st) == 0 and f.st == 1))',
            'forall(Fut, Fut, lambda f, g: implies(f.st != old(f.st) and g.st != old(g.st), f == g))'],
        loops={0: dict(fingerprint='while self.conn_waiters', invariant=SUFFIX + ['heap_same("Fut.st")', 'forall(0, %s, lambda i: old(self.conn_waiters[i].st) != 0)' % WK])})
    w.contract(POOLPY, 'Block.abort_waiters', params={'self': 'Block', 'e': 'Obj'}, returns='none', modifies=['Block.conn_waiters', 'Fut.st'],
        ensures=['len(self.conn_waiters) == 0', 'heap_same_except("Block.conn_waiters", self)',
                 # C16 lemma: a connect failure that gives up is reported to every request still waiting on the block
                 'forall(0, old(len(self.conn_waiters)), lambda i: old(self.conn_waiters)[i].st != 0 and implies(old(self.conn_waiters[i].st) == 0, old(self.conn_waiters)[i].st == 2))',
                 'forall(Fut, lambda f: f.st == old(f.st) or (old(f.st) == 0 and f.st == 2))'],
        loops={0: dict(fingerprint='while self.conn_waiters', invariant=SUFFIX + [
                 'forall(0, %s, lambda i: old(self.conn_waiters)[i].st != 0 and implies(old(self.conn_waiters[i].st) == 0, old(self.conn_waiters)[i].st == 2))' % WK,
                 'forall(Fut, lambda f: f.st == old(f.st) or (old(f.st) == 0 and f.st == 2))'])})
    NOTSTACKED = 'not exists(0, len(self.conn_stack), lambda i: self.conn_stack[i] == conn)'
    w.contract(POOLPY, 'Block.release', params={'self': 'Block', 'conn': 'Conn'}, state=GH, returns='none',
        requires=['BI(self)', 'conn in self.conns', 'not self.conns[conn].in_use', NOTSTACKED],
        modifies=['Block.conn_stack', 'CS.in_stack_since', 'Block.conn_waiters', 'Fut.st'],
        ensures=['BI(self)', 'heap_same_except("Block.conn_stack", self)', 'heap_same_except("Block.conn_waiters", self)',
                 'len(self.conn_stack) == old(len(self.conn_stack)) + 1', 'self.conn_stack[len(self.conn_stack) - 1] == conn',
                 'forall(0, old(len(self.conn_stack)), lambda i: self.conn_stack[i] == old(self.conn_stack)[i])'])
    w.ext_methods['Loop.create_future'] = dict(params={}, returns='Fut', ensures=['result.st == 0'])
    GOT = lambda r, b: ('%s in %s.conns and not %s.conns[%s].in_use and not (%s in LENT) and not exists(0, len(%s.conn_stack), lambda i: %s.conn_stack[i] == %s)'
                        % (r, b, b, r, r, b, b, r))
    w.trusted.append('TOKEN (per-task contribution to a shared counter, not expressible without per-task ghost state): while a task is between '
                     '`conn_waiters_num += 1` and the matching `-= 1` of Block.try_acquire the counter is >= 1; while a _connect task is in flight for a block its '
                     'pending_conns is >= 1.  Justified by the pairing scans (scan/token-*): these are the only decrement sites and each is reached once per increment')
    AWAIT_W = dict(w.ext_methods['Fut.__await__'], bind={'blk': 'self'})
    AWAIT_W['ensures'] = AWAIT_W['ensures'] + ['blk.conn_waiters_num >= 1']
    AWAIT_W['raises'] = {k: dict(ensures=v['ensures'] + ['blk.conn_waiters_num >= 1']) for k, v in AWAIT_W['raises'].items()}
    w.contract(POOLPY, 'Block.try_acquire', params={'self': 'Block', 'attempts': 'int'}, state=PGH, returns='Opt[Conn]',
        requires=[*GINVL, 'REG(self)'], modifies=ALLMOD, hints=dict(ext_funcs={'Fut.__await__': AWAIT_W}),
        # what is handed out is an idle connection of this very block: open, not lent, not broken, and no longer stacked
        ensures=GINVL + ['REG(self)', 'implies(not is_none(result), %s)' % GOT('some(result)', 'self')],
        raises={'WaiterError': dict(ensures=GINVL), 'CancelledError': dict(ensures=GINVL)})
    w.contract(POOLPY, 'Block.acquire', params={'self': 'Block'}, state=PGH, returns='Conn',
        requires=[*GINVL, 'REG(self)'], modifies=ALLMOD, ensures=GINVL + [GOT('result', 'self'), 'REG(self)'],
        raises={'WaiterError': dict(ensures=GINVL), 'CancelledError': dict(ensures=GINVL)},
        loops={0: dict(fingerprint='while (c := (await self.try_acquire(attempts=attempts))) is None', invariant=GINVL + ['REG(self)'], modifies=ALLMOD)})
    # ---- BasePool: scheduling / connect / disconnect / transfer
    SELF = 'self == POOL'
    w.ext_funcs['asyncio.get_running_loop'] = dict(params={}, returns='Loop')
    w.ext_methods['Loop.create_task'] = dict(params={'coro': 'Obj'}, returns='Obj')
    w.ext_methods['Loop.call_later'] = dict(params={'delay': 'float', 'cb': 'Obj'}, returns='Obj')
    w.ext_methods['Obj.add'] = dict(params={'x': 'float'}, returns='none'); w.ext_methods['Obj.avg'] = dict(params={}, returns='float')
    for lg in ('logger.debug', 'logger.error', 'logger.info'):
        w.ext_funcs[lg] = dict(params={'msg': 'str'}, optional=('a', 'b', 'c', 'exc_info'), returns='none')
        w.ext_funcs[lg]['params'] = {'msg': 'str', 'a': 'Obj', 'b': 'Obj', 'c': 'Obj'}; w.ext_funcs[lg]['optional'] = ('a', 'b', 'c')
    w.contract(POOLPY, 'BasePool._get_loop', params={'self': 'Pool'}, returns='Loop', modifies=['Pool._loop'], ensures=['heap_same_except("Pool._loop", self)'])
    w.contract(POOLPY, 'BasePool._log_to_snapshot', params={'self': 'Pool', 'dbname': 'str', 'event': 'str', 'value': 'int', 'now': 'float'}, returns='none', trusted=True)
    w.contract(POOLPY, 'Block.log_connection', params={'self': 'Block', 'event': 'str', 'timestamp': 'float'}, returns='none', trusted=True,
               modifies=['Block._is_log_batching', 'Block._last_log_timestamp', 'Block._log_events'])
    w.trusted.append('statistics / logging helpers (_log_to_snapshot, log_connection, snapshots, rolling averages) touch no field of the invariant')
    w.contract(POOLPY, 'BasePool._schedule_new_conn', params={'self': 'Pool', 'block': 'Block', 'event': 'str'}, state=PGH, returns='none',
        # the only place where the reported usage grows for a new connection: callers must have room (a broken hand-back frees its unit at once)
        requires=[SELF, 'POOL._cur_capacity - G_X < POOL._max_capacity', 'REG(block)', 'block.pending_conns >= 0'],
        modifies=['Pool._cur_capacity', 'Block.pending_conns', 'Pool._loop', 'G_total'],
        ensures=['POOL._cur_capacity == old(POOL._cur_capacity) + 1', 'block.pending_conns == old(block.pending_conns) + 1', 'G_total == old(G_total) + 1',
                 'heap_same_except("Block.pending_conns", block)', 'heap_same_except("Pool._cur_capacity", self)',
                 'forall(Block, lambda b: REG(b) == old(REG(b)))'],
        ghost_after={'block.pending_conns += 1': [('G_total', 'G_total + 1')]})
    NOTST = lambda b, c: 'not exists(0, len(%s.conn_stack), lambda i: %s.conn_stack[i] == %s)' % (b, b, c)
    IDLE = lambda b, c: '%s in %s.conns and not %s.conns[%s].in_use and %s' % (c, b, b, c, NOTST(b, c))
    w.trusted.append('LIMBO: a connection that was taken off the stack (or handed back) and is scheduled for discard or transfer is touched by no other task '
                     'until its own task starts (it is neither stacked nor lent, so no pool operation can reach it); each created task runs once with the arguments it was created with')
    BND_AFTER = 'POOL._cur_capacity - G_X <= POOL._max_capacity - (0 if broken else 1)'
    w.contract(POOLPY, 'BasePool._disconnect', params={'self': 'Pool', 'conn': 'Conn', 'block': 'Block'}, ghost={'broken': 'bool'}, state=PGH, returns='none',
        requires=[SELF, *GINVL], modifies=ALLMOD,
        # the capacity unit is given back exactly when the disconnect callback has finished -- whether it succeeded or not
        ensures=GINVL + [BND_AFTER], raises={'DisconnectError': dict(ensures=GINVL + [BND_AFTER])},
        ghost_after={'self._cur_capacity -= 1': [('G_D', 'G_D - 1'), ('G_X', 'max(G_X - (1 if broken else 0), 0)')]})
    w.contract(POOLPY, 'BasePool._schedule_discard', params={'self': 'Pool', 'block': 'Block', 'conn': 'Conn'}, ghost={'broken': 'bool'}, state=PGH, returns='none',
        requires=[SELF, IDLE('block', 'conn')], modifies=['Pool._loop', 'G_X'],
        ensures=['G_X == old(G_X) + (1 if broken else 0)'],
        ghost_after={'self._get_loop().create_task(self._discard_conn(block, conn))': [('G_X', 'G_X + (1 if broken else 0)')]})
    w.contract(POOLPY, 'BasePool._discard_conn', params={'self': 'Pool', 'block': 'Block', 'conn': 'Conn'}, ghost={'broken': 'bool'}, state=PGH, returns='none',
        requires=[SELF, *GINVL, IDLE('block', 'conn')], modifies=ALLMOD,
        ensures=GINVL, raises={'DisconnectError': dict(ensures=GINVL)},
        call_ghost={'BasePool._disconnect': {'broken': 'broken'}},
        ghost_after={'block.conns.pop(conn)': [('G_total', 'G_total - 1'), ('G_D', 'G_D + 1')]})
    w.contract(POOLPY, 'BasePool._schedule_transfer', params={'self': 'Pool', 'from_block': 'Block', 'from_conn': 'Conn', 'to_block': 'Block'}, state=PGH, returns='none',
        requires=[SELF, *GINVL, IDLE('from_block', 'from_conn'), 'REG(to_block)'],
        modifies=['Block.conns', 'Block.pending_conns', 'Pool._loop', 'G_total', 'G_D', 'G_T'],
        ensures=GINVL + ['not (from_conn in from_block.conns)', 'to_block.pending_conns >= 1',
                 'POOL._cur_capacity == old(POOL._cur_capacity)', 'G_X == old(G_X)',
                 'forall(Block, lambda b: REG(b) == old(REG(b)))',
                 'forall(Block, lambda b: implies(b != from_block, map_same(b.conns, old(b.conns))))',
                 'forall(Conn, lambda c: implies(c != from_conn, (c in from_block.conns) == old(c in from_block.conns)))',
                 'forall(Block, lambda b: implies(b != to_block, b.pending_conns == old(b.pending_conns)))',
                 'to_block.pending_conns == old(to_block.pending_conns) + 1', 'len(from_block.conns) == old(len(from_block.conns)) - 1'],
        ghost_after={'from_block.conns.pop(from_conn)': [('G_total', 'G_total - 1'), ('G_D', 'G_D + 1')],
                     'to_block.pending_conns += 1': [('G_total', 'G_total + 1'), ('G_T', 'G_T + 1')]})
    CONNCB = dict(w.ext_methods['ConnCb.__call__'], bind={'blk': 'block'})
    CONNCB['ensures'] = CONNCB['ensures'] + ['blk.pending_conns >= 1']
    CONNCB['raises'] = {k: dict(ensures=v['ensures'] + ['blk.pending_conns >= 1']) for k, v in CONNCB['raises'].items()}
    w.ext_methods['Obj.get'] = dict(params={'k': 'str'}, returns='Obj')
    w.contract(POOLPY, 'BasePool._connect', params={'self': 'Pool', 'block': 'Block', 'started_at': 'float', 'event': 'str'}, ghost={'g_unit': 'bool'}, state=PGH, returns='none',
        # whoever awaits _connect directly must have taken the capacity unit for the connection about to be opened (tasks created by
        # _schedule_new_conn take it right before creating the task)
        caller_requires=['g_unit'],
        requires=[SELF, *GINVL], modifies=ALLMOD, ensures=GINVL,
        hints=dict(ext_funcs={'ConnCb.__call__': CONNCB}),
        ghost_after={'block.pending_conns -= 1': [('G_total', 'G_total - 1')],
                     'block.conns[conn] = ConnectionState()': [('G_total', 'G_total + 1'), ('block.conns[conn].g_b', 'block'), ('block.conns[conn].g_c', 'conn')]})
    w.contract(POOLPY, 'BasePool._transfer', params={'self': 'Pool', 'from_block': 'Block', 'from_conn': 'Conn', 'to_block': 'Block', 'started_at': 'float'}, state=PGH, returns='none',
        ghost={'took': 'bool'}, requires=[SELF, *GINVL, 'not took'], modifies=ALLMOD, ensures=GINVL, hints=dict(ghost_out=['took']),
        call_ghost={'BasePool._disconnect': {'broken': 'False'}, 'BasePool._connect': {'g_unit': 'took'}},
        ghost_after={'self._cur_capacity += 1': [('G_T', 'G_T - 1'), ('took', 'True')]})
    # ---- blocks registry
    w.ext_funcs['rolavg.RollingAverage'] = dict(params={}, optional=('history_size',), returns='Obj')
    w.ext_funcs['rolavg.RollingAverage']['params'] = {'history_size': 'int'}; w.ext_funcs['rolavg.RollingAverage']['optional'] = ('history_size',)
    w.contract(POOLPY, 'Block.__init__', inline=True)
    REGSAME = 'forall(Block, lambda b: implies(b != result, REG(b) == old(REG(b))))'
    w.contract(POOLPY, 'BasePool._new_block', params={'self': 'Pool', 'dbname': 'str'}, state=PGH, returns='Block',
        requires=[SELF, *GINVL, 'not (dbname in self._blocks)'], modifies=['Pool._blocks', 'Pool._loop'] + ['Block.' + f for f in w.classes['Block']],
        ensures=GINVL + ['REG(result)', 'result.dbname == dbname', 'len(result.conns) == 0', 'result.pending_conns == 0', 'len(result.conn_stack) == 0', 'result.quota == 1'])
    w.contract(POOLPY, 'BasePool._get_block', params={'self': 'Pool', 'dbname': 'str'}, state=PGH, returns='Block',
        requires=[SELF, *GINVL], modifies=['Pool._blocks', 'Pool._loop'] + ['Block.' + f for f in w.classes['Block']],
        ensures=GINVL + ['REG(result)', 'result.dbname == dbname', 'POOL._cur_capacity == old(POOL._cur_capacity)'])
    w.contract(POOLPY, 'BasePool._drop_block', params={'self': 'Pool', 'block': 'Block'}, state=PGH, returns='none',
        requires=[SELF, *GINVL, 'REG(block)'], modifies=['Pool._blocks'],
        ensures=GINVL + ['not (block.dbname in POOL._blocks)', 'forall(Block, lambda b: implies(b != block, REG(b) == old(REG(b))))'],
        raises={'AssertionError': dict(ensures=GINVL + ['heap_same("Pool._blocks")'])})
    # ---- Pool: rebalancing helpers
    w.ext_funcs['config.MIN_CONN_TIME_THRESHOLD'] = None; del w.ext_funcs['config.MIN_CONN_TIME_THRESHOLD']
    w.contract(POOLPY, 'Pool._should_free_conn', params={'self': 'Pool', 'from_block': 'Block'}, returns='bool')
    FOUND = 'implies(not is_none(result[1]), REG(some(result[1])) and not is_none(result[0]))'
    w.contract(POOLPY, 'Pool._find_most_starving_block', params={'self': 'Pool'}, state=PGH, returns='Tuple[Opt[str],Opt[Block]]',
        requires=[SELF, *GINVL], modifies=['Pool._new_blocks_waitlist'],
        ensures=['implies(not is_none(result[1]), REG(some(result[1])))', 'implies(not is_none(result[1]), not is_none(result[0]))', 'heap_same_except("Pool._new_blocks_waitlist", self)'],
        loops={0: dict(fingerprint='while self._new_blocks_waitlist', invariant=['is_none(to_block) or REG(some(to_block))', 'heap_same_except("Pool._new_blocks_waitlist", self)']),
               1: dict(fingerprint='for block in self._blocks.values()', done='done1', invariant=['is_none(to_block) or REG(some(to_block))']),
               2: dict(fingerprint='for block in self._blocks.values()', done='done2', invariant=['is_none(to_block) or REG(some(to_block))'])},
        hints=dict(var_types={'to_block': 'Opt[Block]'}))
    UNCH = ['heap_same("Block.conns")', 'heap_same("Block.conn_stack")', 'heap_same("CS.in_use")', 'heap_same("Block.pending_conns")', 'heap_same("Pool._cur_capacity")',
            'heap_same("Pool._blocks")', 'G_total == old(G_total)', 'G_D == old(G_D)', 'G_T == old(G_T)', 'G_X == old(G_X)', 'LENT == old(LENT)']
    w.contract(POOLPY, 'Pool._maybe_free_into_starving_blocks', params={'self': 'Pool', 'from_block': 'Block', 'conn': 'Conn'}, state=PGH, returns='bool',
        requires=[SELF, *GINVL, IDLE('from_block', 'conn')],
        modifies=['Block.conns', 'Block.pending_conns', 'Pool._loop', 'Pool._new_blocks_waitlist', 'G_total', 'G_D', 'G_T'],
        # either the connection leaves its block for good (it will be closed and a new one opened for the starving block) or nothing happened
        ensures=GINVL + ['G_X == old(G_X)', 'POOL._cur_capacity == old(POOL._cur_capacity)', 'LENT == old(LENT)', 'heap_same("Block.conn_stack")', 'heap_same("CS.in_use")',
                 'implies(result, not (conn in from_block.conns))',
                 'implies(not result, %s)' % conj(UNCH)],
        raises={'AssertionError': dict(ensures=GINVL)})
    w.contract(POOLPY, 'BasePool._get_pending_conns', params={'self': 'Pool'}, state=PGH, returns='int', trusted=True, pure=True, ensures=['result >= 0'])
    w.contract(POOLPY, 'BasePool.max_capacity', params={'self': 'Pool'}, returns='int', pure=True, ensures=['result == self._max_capacity'])
    w.contract(POOLPY, 'BasePool.current_capacity', params={'self': 'Pool'}, returns='int', pure=True, ensures=['result == self._cur_capacity'])
    w.contract(POOLPY, 'BasePool.active_conns', params={'self': 'Pool'}, state=PGH, returns='int', ensures=['result <= self._cur_capacity'])
    SYNCMOD = ['Block.conns', 'Block.pending_conns', 'Block.conn_stack', 'Pool._cur_capacity', 'Pool._loop', 'Pool._new_blocks_waitlist', 'G_total', 'G_D', 'G_T']
    STABLE = ['G_X == old(G_X)', 'LENT == old(LENT)', 'heap_same("CS.in_use")', 'heap_same("Pool._blocks")', 'heap_same("Block.conn_waiters_num")']
    w.contract(POOLPY, 'Pool._try_shrink_block', params={'self': 'Pool', 'block': 'Block'}, state=PGH, returns='none',
        requires=[SELF, *GINVL], modifies=SYNCMOD, ensures=GINVL + STABLE, raises={'AssertionError': dict(ensures=GINVL + STABLE)},
        call_ghost={'BasePool._schedule_discard': {'broken': 'False'}},
        loops={0: dict(fingerprint='while block.count_conns_over_quota() and self._should_free_conn(block)', invariant=GINVL + STABLE)})
    w.contract(POOLPY, 'Pool._try_steal_conn', params={'self': 'Pool', 'for_block': 'Block'}, state=PGH, returns='bool',
        requires=[SELF, *GINVL, 'REG(for_block)'], modifies=SYNCMOD, ensures=GINVL + STABLE,
        loops={0: dict(fingerprint='for block in self._blocks_over_quota', index='i', invariant=GINVL + STABLE)})
    w.contract(POOLPY, 'Pool._maybe_rebalance', params={'self': 'Pool'}, state=PGH, returns='none',
        requires=[SELF, *GINVL], modifies=SYNCMOD + ['Pool._blocks_over_quota'], ensures=GINVL + STABLE, raises={'AssertionError': dict(ensures=GINVL + STABLE)},
        loops={0: dict(fingerprint='for block in self._blocks.values()', done='done0', invariant=GINVL + STABLE),
               1: dict(fingerprint='while block.count_conns() < quota and ...', invariant=GINVL + STABLE + ['REG(block)'])})
    w.contract(POOLPY, 'Pool._release_unused', params={'self': 'Pool', 'block': 'Block', 'conn': 'Conn'}, state=PGH, returns='none',
        requires=[SELF, *GINVL, IDLE('block', 'conn')],
        modifies=['Block.conn_stack', 'CS.in_stack_since', 'Block.conn_waiters', 'Fut.st', 'Pool._gc_requests', 'Pool._loop'],
        ensures=GINVL + ['exists(0, len(block.conn_stack), lambda i: block.conn_stack[i] == conn)'])
    w.contract(POOLPY, 'Pool._run_gc', params={'self': 'Pool'}, state=PGH, returns='none',
        requires=[SELF, *GINVL], modifies=['Block.conn_stack', 'Pool._gc_requests', 'Pool._loop', 'G_X'], ensures=GINVL + STABLE,
        call_ghost={'BasePool._schedule_discard': {'broken': 'False'}},
        loops={0: dict(fingerprint='for block in self._blocks.values()', done='done0', invariant=GINVL + STABLE),
               1: dict(fingerprint='while (conn := block.try_steal(only_older_than)) is not None', invariant=GINVL + STABLE)})
    # ---- the public operations
    w.contract(POOLPY, 'BasePool._capture_snapshot', params={'self': 'Pool', 'now': 'float'}, returns='none', trusted=True, modifies=['Pool._current_snapshot'])
    w.contract(POOLPY, 'BasePool._report_snapshot', params={'self': 'Pool'}, returns='none', trusted=True, modifies=['Pool._current_snapshot'])
    w.opaque_exprs['config.MIN_CONN_TIME_THRESHOLD'] = 'float'; w.opaque_exprs['config.MIN_QUERY_TIME_THRESHOLD'] = 'float'; w.opaque_exprs['config.MIN_LOG_TIME_THRESHOLD'] = 'float'
    w.contract(POOLPY, 'Pool._maybe_schedule_tick', params={'self': 'Pool'}, returns='none', modifies=['Pool._first_tick', 'Pool._htick', 'Pool._current_snapshot', 'Pool._loop'],
        ensures=['implies(self._nacquires != 0, not is_none(self._htick))', 'implies(not is_none(old(self._htick)), not is_none(self._htick))',
                 'heap_same_except("Pool._htick", self) and heap_same_except("Pool._first_tick", self)'])
    ERRS = {'WaiterError': dict(ensures=GINVL), 'CancelledError': dict(ensures=GINVL)}
    w.contract(POOLPY, 'Pool._acquire', params={'self': 'Pool', 'dbname': 'str'}, state=PGH, returns='Conn',
        requires=[SELF, *GINVL], modifies=ALLMOD,
        ensures=GINVL + ['dbname in POOL._blocks', GOT('result', 'POOL._blocks[dbname]')], raises=ERRS)
    w.contract(POOLPY, 'Pool.acquire', params={'self': 'Pool', 'dbname': 'str'}, ghost={'g_was_lent': 'bool'}, state=PGH, returns='Conn',
        requires=[SELF, *GINVL], modifies=ALLMOD,
        ensures=GINVL + [
            # C15: the connection lent is an open connection of the requested database, and it was not lent to anybody else at that moment
            'dbname in POOL._blocks', 'result in POOL._blocks[dbname].conns', 'POOL._blocks[dbname].conns[result].in_use',
            'not g_was_lent', 'result in LENT',
            'not exists(0, len(POOL._blocks[dbname].conn_stack), lambda i: POOL._blocks[dbname].conn_stack[i] == result)'],
        raises=ERRS, hints=dict(ghost_out=['g_was_lent']),
        ghost_after={'block.inc_acquire_counter()': [('g_was_lent', 'conn in LENT')],
                     'block.conns[conn].in_use = True': [('LENT', 'set_add(LENT, conn)')]})
    w.contract(POOLPY, 'Block.inc_acquire_counter', params={'self': 'Block'}, returns='none', modifies=['Block.conn_acquired_num'], ensures=['heap_same_except("Block.conn_acquired_num", self)'])
    w.contract(POOLPY, 'Block.dec_acquire_counter', params={'self': 'Block'}, returns='none', modifies=['Block.conn_acquired_num'], ensures=['heap_same_except("Block.conn_acquired_num", self)'])
    NOWHERE = 'forall(Block, lambda b: not exists(0, len(b.conn_stack), lambda i: b.conn_stack[i] == conn))'
    w.contract(POOLPY, 'Pool.release', params={'self': 'Pool', 'dbname': 'str', 'conn': 'Conn', 'discard': 'bool'}, state=PGH, returns='none',
        requires=[SELF, *GINVL], modifies=ALLMOD,
        ensures=GINVL + ['not (conn in LENT)',
                 # a connection handed back as broken is never offered again (it is closed, or replaced in a starving block)
                 'implies(discard, %s)' % NOWHERE],
        raises={'RuntimeError': dict(ensures=GINVL + ['LENT == old(LENT)', 'heap_same("Block.conn_stack")', 'heap_same("Block.conns")', 'heap_same("Pool._cur_capacity")']),
                'AssertionError': dict(ensures=GINVL)},
        call_ghost={'BasePool._schedule_discard': {'broken': 'True'}},
        ghost_after={'conn_state.in_use = False': [('LENT', 'set_remove(LENT, conn)')]})
    w.ext_funcs['asyncio.gather'] = dict(YIELD, params={}, optional=('return_exceptions',), returns='Obj', ensures=GINVL)
    w.ext_funcs['asyncio.gather']['params'] = {'return_exceptions': 'bool'}
    w.contract(POOLPY, 'Pool.prune_inactive_connections', params={'self': 'Pool', 'dbname': 'str'}, state=PGH, returns='none',
        # the connections taken off the stack here are closed by _discard_conn tasks run under asyncio.gather: their start condition (still idle in the block) is the LIMBO assumption
        requires=[SELF, *GINVL], modifies=ALLMOD, ensures=GINVL, raises=ERRS,
        loops={0: dict(fingerprint='while (conn := block.try_steal()) is not None', invariant=GINVL + ['REG(block)']),
               1: dict(fingerprint='while not block.count_waiters() and block.pending_conns', invariant=GINVL + ['REG(block)'], modifies=ALLMOD)},
        hints=dict(var_types={'conns': 'Seq[Conn]'}))
    TICKMOD = SYNCMOD + ['Pool._htick', 'Pool._first_tick', 'Pool._current_snapshot', 'Pool._is_starving', 'Pool._to_drop', 'Pool._blocks', 'Pool._blocks_over_quota',
                         'Block.quota', 'Block._cached_calibrated_demand', 'Pool._gc_requests', 'Block.conn_waiters', 'Fut.st', 'CS.in_stack_since']
    TSTABLE = ['G_X == old(G_X)', 'LENT == old(LENT)', 'heap_same("CS.in_use")', 'heap_same("Block.conn_waiters_num")']
    TINV = GINVL + TSTABLE
    w.contract(POOLPY, 'Pool._tick', params={'self': 'Pool'}, state=PGH, returns='none',
        requires=[SELF, *GINVL], modifies=TICKMOD, ensures=TINV, raises={'AssertionError': dict(ensures=TINV), 'ZeroDivisionError': dict(ensures=TINV)},
        loops={0: dict(fingerprint='for block in list(self._blocks.values())', index='i0', invariant=TINV),
               1: dict(fingerprint='for block in self._blocks.values()', done='done0', invariant=TINV + [
                   'forall(0, len(self._to_drop), lambda i: REG(self._to_drop[i]) and self._to_drop[i].dbname in done0)',
                   'forall(0, len(self._to_drop), lambda i: forall(0, len(self._to_drop), lambda j: implies(i != j, self._to_drop[i] != self._to_drop[j])))']),
               2: dict(fingerprint='for block in self._to_drop', index='i', invariant=TINV + [
                   'forall(i, len(self._to_drop), lambda k: REG(self._to_drop[k]))',
                   'forall(0, len(self._to_drop), lambda k: forall(0, len(self._to_drop), lambda j: implies(k != j, self._to_drop[k] != self._to_drop[j])))']),
               3: dict(fingerprint='for block in tuple(self._blocks.values())', index='i2', invariant=TINV),
               4: dict(fingerprint='for block in list(self._blocks.values())', index='i3', invariant=TINV),
               5: dict(fingerprint='while self._should_free_conn(block)', invariant=TINV),
               6: dict(fingerprint='for block in self._blocks.values()', done='done5', invariant=TINV),
               7: dict(fingerprint='for block in self._blocks.values()', done='done6', invariant=TINV)})
    EXPORT.update(GINVL=GINVL, ALLMOD=ALLMOD, PGH=PGH, GH=GH)
    return w

# ---------------------------------------------------------------------------------------------------------------------
# Scans backing the TOKEN / ghost-accounting assumptions (whole pool.py, every run)
def _stmts(fn):
    for n in ast.walk(fn):
        if isinstance(n, ast.stmt): yield n

def extra_obligations(w, tier, seed):
    out = []
    def ob(oid, clause, ok, where):
        return dict(id=oid, kind='ownership', clause=clause, tag='auxiliary', paths=1, status='discharged' if ok else 'failed', backend='ast-scan', seconds=0.0,
                    model=None if ok else {'offending_source_location': where}, where=where, function='ast-scan')
    mod = repo.module(POOLPY)
    funcs = {}      # qualname -> node, for Block / BasePool / Pool (the _NaivePool test double is out of scope)
    for cname in ('Block', 'BasePool', 'Pool'):
        for st in mod.classes[cname].body:
            if isinstance(st, (ast.FunctionDef, ast.AsyncFunctionDef)): funcs['%s.%s' % (cname, st.name)] = st
    def writers(attr):
        """(qualname, statement text) of every statement that writes  <x>.attr  (assignment, augmented assignment, mutating method call, item store / delete)"""
        res = []
        for q, fn in funcs.items():
            for st in _stmts(fn):
                hit = False
                if isinstance(st, (ast.Assign, ast.AugAssign, ast.AnnAssign, ast.Delete)):
                    tg = st.targets if isinstance(st, (ast.Assign, ast.Delete)) else [st.target]
                    for t in tg:
                        base = t.value if isinstance(t, ast.Subscript) else t
                        if isinstance(base, ast.Attribute) and base.attr == attr: hit = True
                elif isinstance(st, ast.Expr) and isinstance(st.value, ast.Call) and isinstance(st.value.func, ast.Attribute) \
                        and isinstance(st.value.func.value, ast.Attribute) and st.value.func.value.attr == attr and st.value.func.attr in ('pop', 'clear', 'popitem', 'update', 'setdefault', '__setitem__', '__delitem__'):
                    hit = True
                if hit: res.append((q, ast.unparse(st)))
        return res
    # 1. waiters counter: incremented once at the top of try_acquire, decremented once in its finally -- nowhere else
    wr = [x for x in writers('conn_waiters_num') if x[0] != 'Block.__init__']
    exp = [('Block.try_acquire', 'self.conn_waiters_num += 1'), ('Block.try_acquire', 'self.conn_waiters_num -= 1')]
    fn = funcs['Block.try_acquire']
    shape_ok = (len(fn.body) >= 2 and ast.unparse(fn.body[0]) == 'self.conn_waiters_num += 1' and isinstance(fn.body[1], ast.Try)
                and [ast.unparse(x) for x in fn.body[1].finalbody] == ['self.conn_waiters_num -= 1'] and len(fn.body) == 2)
    out.append(ob('scan/token-waiters', 'conn_waiters_num is written only by `+= 1` as first statement of Block.try_acquire and `-= 1` as the finally of the try that is the rest of its body',
                  sorted(wr) == sorted(exp) and shape_ok, 'writers: %s' % wr))
    # 2. pending counter: decremented only in the finally of _connect; incremented only next to the creation of the task that will reach that finally
    wr = [x for x in writers('pending_conns') if x[0] != 'Block.__init__']
    exp = [('BasePool._connect', 'block.pending_conns -= 1'), ('BasePool._schedule_new_conn', 'block.pending_conns += 1'), ('BasePool._schedule_transfer', 'to_block.pending_conns += 1')]
    cfn = funcs['BasePool._connect']
    tr = [st for st in cfn.body if isinstance(st, ast.Try)]
    fin_ok = len(tr) == 1 and any(ast.unparse(x) == 'block.pending_conns -= 1' for x in tr[0].finalbody) and 'await self._connect_cb(block.dbname)' in ast.unparse(tr[0].body[0])
    def creates(q, callee): return any('create_task(self.%s(' % callee in ast.unparse(st) for st in _stmts(funcs[q]))
    tfn = funcs['BasePool._transfer']
    transfer_ok = any(isinstance(st, ast.Expr) and isinstance(st.value, ast.Await) and 'self._connect(to_block' in ast.unparse(st) for st in tfn.body)      # top level: reached on every non-exceptional run
    out.append(ob('scan/token-pending', 'pending_conns is decremented only in the finally around the connect callback in _connect; every increment is followed by the creation of the task that runs _connect for that block',
                  sorted(wr) == sorted(exp) and fin_ok and creates('BasePool._schedule_new_conn', '_connect') and creates('BasePool._schedule_transfer', '_transfer') and transfer_ok, 'writers: %s' % wr))
    # 3. ghost accounting: every writer of conns / pending_conns / _cur_capacity is a function under contract; writes of conns / pending_conns carry a ghost update
    under = {c.qual: c for c in w.contracts.values()}
    bad = []
    for attr in ('conns', 'pending_conns', '_cur_capacity'):
        for q, txt in writers(attr):
            if q in ('Block.__init__', 'BasePool.__init__', 'Pool.prune_all_connections'): continue      # constructors; prune_all_connections is out of scope (stated)
            c = under.get(q)
            if c is None or c.trusted: bad.append((q, txt, 'function not under contract')); continue
            if attr != '_cur_capacity' and txt not in c.ghost_after: bad.append((q, txt, 'no ghost update attached'))
    out.append(ob('scan/ghost-accounting', 'every statement of Block/BasePool/Pool that writes conns, pending_conns or _cur_capacity is in a function under contract (conns / pending_conns writes with the ghost update of G_total attached)',
                  not bad, 'unaccounted writers: %s' % bad))
    # 4. prune_all_connections (HA failover) is outside the invariant proof -- it closes lent connections by design -- but one clause of C15 still binds it: a connection whose
    #    close has been started is never lent.  Shape obligation: every block's idle stack and registry are emptied before the first await of the function (so that a
    #    concurrent acquire() cannot be handed one of the connections being closed)
    fn = funcs['Pool.prune_all_connections']
    first_await = min([n.lineno for n in ast.walk(fn) if isinstance(n, ast.Await)] or [10 ** 9])
    clears = {}
    for n in ast.walk(fn):
        if isinstance(n, ast.Call) and isinstance(n.func, ast.Attribute) and n.func.attr == 'clear' and isinstance(n.func.value, ast.Attribute) and n.func.value.attr in ('conn_stack', 'conns'):
            clears.setdefault(n.func.value.attr, []).append(n.lineno)
    ok4 = all(clears.get(a) and max(clears[a]) < first_await for a in ('conn_stack', 'conns'))
    out.append(dict(ob('scan/prune_all/unregister-before-await', 'Pool.prune_all_connections empties conn_stack and conns of every block before its first await', ok4,
                       'clear() calls at %s, first await at line %s' % (clears, first_await)), tag='property'))
    # 4b. the capacity slot of a connection leaves the books only through _disconnect (which returns the slot when the close is done): every connection that
    #     prune_all_connections drops from a registry is handed to self._disconnect -- the loop that schedules the closes ranges over the whole registry `block.conns`,
    #     before that registry is emptied -- and the function itself never assigns _cur_capacity (a "resync" there forgets connections whose connect completes meanwhile)
    disc_loops = [n for n in ast.walk(fn) if isinstance(n, ast.For) and any(isinstance(c, ast.Call) and ast.unparse(c.func) == 'self._disconnect' for c in ast.walk(n))]
    inner = [l for l in disc_loops if not any(l2 is not l and any(x is l2 for x in ast.walk(l)) for l2 in disc_loops)]      # innermost
    over = [ast.unparse(l.iter) for l in inner]
    clear_conns = [n.lineno for n in ast.walk(fn) if isinstance(n, ast.Call) and ast.unparse(n.func) == 'block.conns.clear']
    ok4b = len(inner) == 1 and over == ['block.conns'] and bool(clear_conns) and min(clear_conns) > inner[0].end_lineno
    bad4b = bool(inner) and over != ['block.conns']
    out.append(dict(ob('scan/prune_all/every-dropped-connection-closed', 'Pool.prune_all_connections schedules self._disconnect for every member of block.conns before emptying it', ok4b,
                       'close loop over %s (line %s), conns.clear() at %s' % (over, [l.lineno for l in inner], clear_conns)), tag='property', status='discharged' if ok4b else ('failed' if bad4b else 'unknown')))
    cap_writes = [n.lineno for n in ast.walk(fn) if isinstance(n, (ast.Assign, ast.AugAssign, ast.AnnAssign))
                  and any(ast.unparse(t).endswith('._cur_capacity') for t in (n.targets if isinstance(n, ast.Assign) else [n.target]))]
    out.append(dict(ob('scan/prune_all/no-capacity-write', 'Pool.prune_all_connections does not assign _cur_capacity (slots are returned by _disconnect alone)', not cap_writes,
                       'writes at lines %s' % cap_writes), tag='property'))
    return out

def _run_scenarios(tier, seed, repo_root, outdir, key):
    import json, subprocess
    here = os.path.dirname(os.path.abspath(__file__)); root = os.path.dirname(os.path.dirname(here))
    out = os.path.join(outdir, 'scenario_out.json')
    if os.path.exists(out): os.unlink(out)
    n = 300 if tier == 'quick' else 6000
    env = dict(os.environ); env['PYTHONPATH'] = '%s:%s' % (os.path.join(root, 'stubs'), repo_root); env['VERIF_REPO'] = repo_root
    p = subprocess.run(['/venv/bin/python', os.path.join(here, 'scenario.py'), str(seed), str(n), out], capture_output=True, text=True, env=env, cwd=repo_root, timeout=3000)
    if not os.path.exists(out): raise RuntimeError('scenario runner failed: ' + (p.stderr or p.stdout)[-2000:])
    r = json.load(open(out))
    return dict(evaluations=r['clients'], failure=r[key], known=(r.get('known', {}) if key == 'failure_C16' else {}),
                label='%d client populations (%d acquire requests; %d served, %d told about a connect error) on the real Pool under a virtual-time scheduler: random arrival / hold / discard / '
                      'connect + disconnect latency and failures, 1-6 databases, max_capacity 1-6 (bounded)' % (r['scenarios'], r['clients'], r['served'], r['reported_failures']),
                clause='C15: open+opening <= max, exclusive lending of open connections of the right database, usage accounting;  C16: every acquire completes at quiescence')

def scenarios(tier, seed, repo_root, outdir):
    return _run_scenarios(tier, seed, repo_root, outdir, 'failure_C15')
