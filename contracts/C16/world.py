"""C16 sidecar contracts: the *safety lemmas* that "every connection request is eventually served" rests on
(edb/server/connpool/pool.py).  Liveness itself -- a whole-history property -- is outside what per-function contracts can
decide; it is exercised by the bounded scheduler explorer (contracts/C15/scenario.py, kind 'C16 liveness') and NOT proved.

Decided here, for every pool state and every interleaving (same rely/guarantee setting and ghost state as C15, whose
contracts are reused; functions not listed below are assumed with the contracts the C15 check verifies):
  W1  no lost wake-up: Block._wakeup_next_waiter completes the first still-pending waiter of the queue with a result, touches no
      other future, and leaves the rest of the queue in order; Block.release therefore wakes a pending waiter whenever there is one
  W2  Block.abort_waiters completes every pending waiter with the exception and empties the queue
  W3  a waiter that gives up (error / cancellation) removes itself and, if it had been woken while a connection is stacked,
      passes the wake-up on (Block.try_acquire); Block.acquire retries until it holds a connection, keeping its place
  W4  every connect attempt ends in exactly one of: connection delivered to the block (stacked, a waiter woken), a retry scheduled
      (pending_conns >= 1 again), or -- retries exhausted -- all waiters of the block informed (BasePool._connect)
  W5  capacity units are never leaked: that is C15's CAP invariant (reported usage == real usage), not repeated here
"""
import os
from contracts.C15 import world as c15

POOLPY = c15.POOLPY

def build():
    w = c15.build(); w.pid = 'C16'
    mine = {'Block._wakeup_next_waiter', 'Block.abort_waiters', 'Block.try_acquire', 'Block.acquire'}
    for c in w.contracts.values():
        if c.qual not in mine and not c.inline and not c.pure: c.trusted = True
    w.trusted.append('contracts of the other pool functions are those verified by the C15 check (same sidecar); here they are assumed')
    GINVL, ALLMOD, PGH, GH = c15.EXPORT['GINVL'], c15.EXPORT['ALLMOD'], c15.EXPORT['PGH'], c15.EXPORT['GH']
    rel = w.contracts['%s:Block.release' % POOLPY]
    w.contract(POOLPY, 'Block.release', view='wake', params=rel.params, state=rel.state, returns='none', requires=rel.requires, modifies=rel.modifies,
        ensures=['implies(exists(0, old(len(self.conn_waiters)), lambda i: old(self.conn_waiters[i].st) == 0),'
                 ' exists(0, old(len(self.conn_waiters)), lambda i: old(self.conn_waiters[i].st) == 0 and old(self.conn_waiters)[i].st == 1))',
                 'self.conn_stack[len(self.conn_stack) - 1] == conn'])
    con = w.contracts['%s:BasePool._connect' % POOLPY]
    ga = dict(con.ghost_after)
    ga['block.connect_failures_num = 0'] = [('g_outcome', '0')]
    ga['block.conns[conn] = ConnectionState()'] = list(ga['block.conns[conn] = ConnectionState()']) + [('g_conn', 'conn')]
    ga['self._schedule_new_conn(block, event)'] = [('g_outcome', '1')]
    ga['block.abort_waiters(e)'] = [('g_outcome', '2')]
    w.contract(POOLPY, 'BasePool._connect', view='outcome', params=con.params, state=con.state, ghost={'g_outcome': 'int', 'g_conn': 'Conn', 'g_unit': 'bool'}, returns='none',
        requires=con.requires + ['g_outcome == -1'], modifies=con.modifies, hints=dict(con.hints, ghost_out=['g_outcome', 'g_conn']), ghost_after=ga,
        ensures=['g_outcome == 0 or g_outcome == 1 or g_outcome == 2',
                 # delivered: the new connection is on top of the block's stack (and Block.release woke a pending waiter, W1)
                 'implies(g_outcome == 0, g_conn in block.conns and len(block.conn_stack) > 0 and block.conn_stack[len(block.conn_stack) - 1] == g_conn)',
                 # retry: another connect is in flight for the block
                 'implies(g_outcome == 1, block.pending_conns >= 1)',
                 # given up: nobody is left waiting uninformed
                 'implies(g_outcome == 2, len(block.conn_waiters) == 0)'])
    return w

def scenarios(tier, seed, repo_root, outdir):
    return c15._run_scenarios(tier, seed, repo_root, outdir, 'failure_C16')
