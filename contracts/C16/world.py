"""C16 sidecar contracts: the *safety lemmas* that "every connection request is eventually served" rests on
(edb/server/connpool/pool.py).  Liveness itself -- a whole-history property -- is outside what per-function contracts can
decide; it is exercised by the bounded scheduler explorer (contracts/C15/scenario.py, kind 'C16 liveness') and NOT proved.

Decided here, for every pool state and every interleaving (same rely/guarantee setting and ghost state as C15, whose
contracts are reused; functions not listed below are assumed with the contracts the C15 check verifies):
  W1  no lost wake-up: Block._wakeup_next_waiter completes the first still-pending waiter of the queue with a result, touches no
      other future, and leaves the rest of the queue in order; Block.release therefore wakes a pending waiter whenever there is one
  W2  Block.abort_waiters completes every pending waiter with the exception and empties the queue
  W3  a waiter that gives up (error / cancellation) removes itself and, if it had been woken while a connection is stacked,
      passes the wake-up on (Block.try_acquire); Block.acquire retries until it holds a connection, keeping its place
  W4  every connect attempt ends in exactly one of: connection delivered to the block (stacked, a waiter woken), a retry scheduled
      (pending_conns >= 1 again), or -- retries exhausted -- all waiters of the block informed (BasePool._connect)
  W5  capacity units are never leaked: that is C15's CAP invariant (reported usage == real usage), not repeated here
  W6  the rebalancing tick stays armed while acquire requests are in flight (`_nacquires > 0  =>  a tick is scheduled`): part of the yield invariant
      proved by the C15 check (TICK()); here its key step -- Pool._tick re-arms itself before anything can return -- is an AST dominance obligation, so
      that a change of it is reported with a definite verdict instead of a solver timeout
"""
import os
from contracts.C15 import world as c15

POOLPY = c15.POOLPY

def build():
    w = c15.build(); w.pid = 'C16'
    mine = {'Block._wakeup_next_waiter', 'Block.abort_waiters', 'Block.try_acquire', 'Block.acquire'}
    for c in w.contracts.values():
        if c.qual not in mine and not c.inline and not c.pure: c.trusted = True
    w.trusted.append('contracts of the other pool functions are those verified by the C15 check (same sidecar); here they are assumed')
    GINVL, ALLMOD, PGH, GH = c15.EXPORT['GINVL'], c15.EXPORT['ALLMOD'], c15.EXPORT['PGH'], c15.EXPORT['GH']
    rel = w.contracts['%s:Block.release' % POOLPY]
    w.contract(POOLPY, 'Block.release', view='wake', params=rel.params, state=rel.state, returns='none', requires=rel.requires, modifies=rel.modifies,
        ensures=['implies(exists(0, old(len(self.conn_waiters)), lambda i: old(self.conn_waiters[i].st) == 0),'
                 ' exists(0, old(len(self.conn_waiters)), lambda i: old(self.conn_waiters[i].st) == 0 and old(self.conn_waiters)[i].st == 1))',
                 'self.conn_stack[len(self.conn_stack) - 1] == conn'])
    con = w.contracts['%s:BasePool._connect' % POOLPY]
    ga = dict(con.ghost_after)
    ga['block.connect_failures_num = 0'] = [('g_outcome', '0')]
    ga['block.conns[conn] = ConnectionState()'] = list(ga['block.conns[conn] = ConnectionState()']) + [('g_conn', 'conn')]
    ga['self._schedule_new_conn(block, event)'] = [('g_outcome', '1')]
    ga['block.abort_waiters(e)'] = [('g_outcome', '2')]
    w.contract(POOLPY, 'BasePool._connect', view='outcome', params=con.params, state=con.state, ghost={'g_outcome': 'int', 'g_conn': 'Conn', 'g_unit': 'bool'}, returns='none',
        requires=con.requires + ['g_outcome == -1'], modifies=con.modifies, hints=dict(con.hints, ghost_out=['g_outcome', 'g_conn']), ghost_after=ga,
        ensures=['g_outcome == 0 or g_outcome == 1 or g_outcome == 2',
                 # delivered: the new connection is on top of the block's stack (and Block.release woke a pending waiter, W1)
                 'implies(g_outcome == 0, g_conn in block.conns and len(block.conn_stack) > 0 and block.conn_stack[len(block.conn_stack) - 1] == g_conn)',
                 # retry: another connect is in flight for the block
                 'implies(g_outcome == 1, block.pending_conns >= 1)',
                 # given up: nobody is left waiting uninformed
                 'implies(g_outcome == 2, len(block.conn_waiters) == 0)'])
    return w

def extra_obligations(w, tier, seed):
    import ast
    from pyvc import repo
    out = []
    def ob(oid, clause, ok, where, undecided=False):
        return dict(id=oid, kind='dominance', clause=clause, tag='property', paths=1, status='discharged' if ok else ('unknown' if undecided else 'failed'), backend='ast-scan', seconds=0.0,
                    model=None if ok else {'offending_source_location': where}, where=where, function='ast-scan')
    fn, _ = repo.find_def(POOLPY, 'Pool._tick')
    body = [st for st in fn.body if not (isinstance(st, ast.Expr) and isinstance(st.value, ast.Constant))]
    # W6: `self._htick = None` is immediately followed (no return / raise / loop in between) by `if self._nacquires: self._maybe_schedule_tick()`
    idx_clear = [i for i, st in enumerate(body) if ast.unparse(st) == 'self._htick = None']
    rearm = lambda st: (isinstance(st, ast.If) and ast.unparse(st.test) in ('self._nacquires', 'self._nacquires > 0', 'self._nacquires != 0') and not st.orelse
                        and any(ast.unparse(x) == 'self._maybe_schedule_tick()' for x in st.body)) or ast.unparse(st) == 'self._maybe_schedule_tick()'
    idx_rearm = [i for i, st in enumerate(body) if rearm(st)]
    ok = False; where = '%s Pool._tick: `self._htick = None` at top-level positions %s, re-arm at %s' % (POOLPY, idx_clear, idx_rearm)
    und = not idx_clear
    if idx_clear and idx_rearm:
        i, j = idx_clear[0], idx_rearm[0]
        between = body[i + 1:j]
        escapes = any(isinstance(n, (ast.Return, ast.Raise, ast.For, ast.While, ast.Try, ast.With, ast.Await)) for st in between for n in ast.walk(st))
        ok = j > i and not escapes
    out.append(ob('scan/tick-rearm-dominates', 'Pool._tick: after clearing the handle the tick re-arms itself (when acquire requests are in flight) before any statement that can return, raise or loop', ok, where, undecided=und))
    # only _tick clears the handle
    mod = repo.module(POOLPY); clears = []
    for cname in ('BasePool', 'Pool', 'Block'):
        for st in mod.classes[cname].body:
            if isinstance(st, (ast.FunctionDef, ast.AsyncFunctionDef)):
                for n in ast.walk(st):
                    if isinstance(n, ast.Assign) and any(ast.unparse(t).endswith('._htick') for t in n.targets) and ast.unparse(n.value) == 'None':
                        clears.append('%s.%s' % (cname, st.name))
    out.append(ob('scan/tick-handle-cleared-only-by-tick', 'the tick handle is reset to None only by Pool._tick (and the constructor)', sorted(set(clears)) in (['Pool.__init__', 'Pool._tick'], ['Pool._tick']), 'writers of `_htick = None`: %s' % clears))
    # W5 for the failover path (outside C15's invariant proof): a capacity slot that is dropped from the registries without being closed is never returned, and once the
    # leaked slots reach max_capacity every later acquire() waits forever -- the two shape obligations of the C15 check on Pool.prune_all_connections are obligations here too
    try:
        out += [dict(o) for o in c15.extra_obligations(c15.build(), tier, seed) if o['id'].startswith('scan/prune_all/')]
    except Exception as e:
        out.append(ob('scan/prune_all/shared-with-C15', 'the prune_all obligations of the C15 sidecar could be evaluated', False, 'error: %r' % (e,), undecided=True))
    return out

def scenarios(tier, seed, repo_root, outdir):
    return c15._run_scenarios(tier, seed, repo_root, outdir, 'failure_C16')
