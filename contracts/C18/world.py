"""C18 sidecar contracts: quoted literals and identifiers cannot break out of their quotes.

How "for all strings" is proved.  Every escaping function here is a *string homomorphism* (a chain of str.replace with
one-character patterns, plus constant prefix/suffix): out(v) = pre ++ H(v[0]) ++ ... ++ H(v[n-1]) ++ post.  The shape is
checked by an AST scan of the real body (back end `ast-scan`); H is then characterised completely by running the REAL body
symbolically on an arbitrary ONE-character string x and proving, for every x, that H(x) is a valid encoding of exactly x in
the target lexical grammar (an `ITEM` predicate transcribed from tokenizer.rs / helpers/strings.rs, resp. PostgreSQL's
scan.l).  Trusted meta-lemma: if every H(x) is an item that decodes to x and contains no terminator, then
pre ++ H(v) ++ post is one token with value v (induction on v).  Non-homomorphic producers (dollar quoting, the choice of
form in the code generator, identifier quoting) get direct contracts.  Everything is cross-examined by the differential
oracle in scenario.py (real Python producers -> REAL Rust lexer / PostgreSQL scanner spec), labelled bounded.
"""
import ast, os, json, subprocess
from pyvc.engine import World
from pyvc import repo

QUOTE = 'edb/edgeql/quote.py'; ECG = 'edb/edgeql/codegen.py'; PGC = 'edb/pgsql/common.py'
BIDI = ['‪', '‫', '‬', '‭', '‮', '⁦', '⁧', '⁨', '⁩']

def S(x): return repr(x)          # python literal for a spec string

def build():
    w = World('C18')
    w.trusted.append('homomorphism meta-lemma: per-character items that decode to the character and contain no terminator compose to a single token with the original value')
    w.trusted.append('lexer specifications (ITEM predicates, marker rule) are transcriptions of tokenizer.rs / helpers/strings.rs and of PostgreSQL scan.l; differentially tested against the real Rust lexer on every run')
    # ---- EdgeQL '...' string body: one source character x is encoded as t
    esc = {'\\': '\\\\', "'": "\\'", '\b': '\\b', '\f': '\\f', '\n': '\\n', '\r': '\\r', '\t': '\\t'}
    prohibited = ['\0'] + BIDI
    plain = 't == x and x != %s and x != %s and ' % (S('\\'), S("'")) + ' and '.join('x != %s' % S(c) for c in prohibited)
    alts = ['(%s)' % plain] + ['(x == %s and t == %s)' % (S(c), S(e)) for c, e in esc.items()] + \
           ['(x == %s and t == %s)' % (S(c), S('\\u%04x' % ord(c))) for c in BIDI]
    # also accepted by the lexer (not produced today): \" \/ \xNN \uNNNN forms decode to x
    w.define('EQL_SQ_ITEM(x, t)', ' or '.join(alts))
    w.define('EQL_BT_ITEM(x, t)', '(t == x and x != "`" and ' + ' and '.join('x != %s' % S(c) for c in prohibited) + ') or (x == "`" and t == "``")')
    w.define('PG_SQ_ITEM(x, t)', '(t == x and x != "\'" and x != %s) or (x == "\'" and t == "\'\'")' % S('\0'))
    w.define('PG_DQ_ITEM(x, t)', '(t == x and x != \'"\' and x != %s) or (x == \'"\' and t == \'""\')' % S('\0'))
    ONE = ['len(%s) == 1', '%s != ' + S('\0')]
    w.contract(QUOTE, 'escape_string', view='char', params={'s': 'str'}, returns='str', requires=[c % 's' for c in ONE], ensures=['EQL_SQ_ITEM(s, result)'])
    w.contract(QUOTE, 'quote_literal', view='char', params={'string': 'str'}, returns='str', requires=[c % 'string' for c in ONE],
               ensures=['str_prefixof("\'", result) and str_suffixof("\'", result) and len(result) >= 3', 'EQL_SQ_ITEM(string, str_sub(result, 1, len(result) - 2))'])
    w.contract(QUOTE, '_quote_ident', view='char', params={'string': 'str'}, returns='str', requires=[c % 'string' for c in ONE] + ['string != %s' % S(c) for c in BIDI],
               ensures=['str_prefixof("`", result) and str_suffixof("`", result) and len(result) >= 3', 'EQL_BT_ITEM(string, str_sub(result, 1, len(result) - 2))'])
    w.contract(PGC, 'quote_literal', view='char', params={'string': 'str'}, returns='str', requires=[c % 'string' for c in ONE],
               ensures=['str_prefixof("\'", result) and str_suffixof("\'", result) and len(result) >= 3', 'PG_SQ_ITEM(string, str_sub(result, 1, len(result) - 2))'])
    w.contract(PGC, '_quote_ident', view='char', params={'string': 'str'}, returns='str', requires=[c % 'string' for c in ONE],
               ensures=['str_prefixof(\'"\', result) and str_suffixof(\'"\', result) and len(result) >= 3', 'PG_DQ_ITEM(string, str_sub(result, 1, len(result) - 2))'])
    # the empty string: pre ++ post alone
    w.contract(QUOTE, 'quote_literal', view='empty', params={'string': 'str'}, returns='str', requires=['string == ""'], ensures=['result == "\'\'"'])
    w.contract(QUOTE, 'escape_string', view='empty', params={'s': 'str'}, returns='str', requires=['s == ""'], ensures=['result == ""'])
    w.contract(PGC, 'quote_literal', view='empty', params={'string': 'str'}, returns='str', requires=['string == ""'], ensures=['result == "\'\'"'])
    build2(w)
    # SQL type names: quote_type passes the name proper (after peeling off `[]`, `%ROWTYPE` and a `(...)` modifier) through quote_ident, whatever characters it contains
    # (QI = quote_ident's result, an uninterpreted function of the identifier; its own quoting decision is examined by the bounded oracle)
    w.ufunc('QI', ['str'], 'str')
    w.exec_defs = dict(getattr(w, 'exec_defs', {})); w.exec_defs['QI'] = "__import__('edb.pgsql.common', fromlist=['x']).quote_ident"      # (run-time contract checking: the real function)
    XQ = {'quote_ident': dict(params={'ident': 'str'}, returns='str', returns_expr='QI(ident)')}
    NOMOD = ['not str_contains(type_, "(")', 'not str_suffixof("%ROWTYPE", type_)']
    w.contract(PGC, 'quote_type', view='plain', params={'type_': 'str'}, returns='str', requires=NOMOD + ['not str_suffixof("[]", type_)'],
               ensures=['result == QI(type_)'], hints={'ext_funcs': XQ})
    w.contract(PGC, 'quote_type', view='array', params={'type_': 'str'}, returns='str', requires=['not str_suffixof("%ROWTYPE", type_)', 'str_suffixof("[]", type_)', 'not str_contains(str_sub(type_, 0, len(type_) - 2), "(")'],
               ensures=['result == QI(str_sub(type_, 0, len(type_) - 2)) + "[]"'], hints={'ext_funcs': XQ})
    return w

def build2(w):
    """dollar quoting and the code generator's choice of literal form"""
    import z3
    from pyvc.vtypes import V, TStr, TInt, fresh, coerce, zs
    # '$<tag>$' markers: the lexer requires an ASCII tag that does not start with a digit ($$ is the empty tag)
    w.define('MARKER_OK(q)', 'q == "$$" or (len(q) >= 3 and str_at(q, 0) == "$" and str_at(q, len(q) - 1) == "$" and in_re_pat(str_sub(q, 1, len(q) - 2), "[a-f][0-9a-f]*"))')
    # the literal is closed by the FIRST occurrence of the marker in  text ++ marker : it must be the final one.
    # (first-occurrence form, trusted string lemma L: no occurrence of q in text ++ q[:-1]  <=>  indexof(text ++ q, q) == len(text))
    w.define('DQ_OK(text, result, q)', 'result == q + text + q and MARKER_OK(q) and not str_contains(text + str_sub(q, 0, len(q) - 1), q)')
    w.trusted.append('string lemma L: q does not occur in text ++ q[:-1]  iff  the first occurrence of q in text ++ q is at len(text) (z3 and cvc5 both time out on it; cross-checked exhaustively on short strings by scenario.py)')
    w.trusted.append("library lemmas: '{:x}'.format(n) is a non-empty [0-9a-f] string whose last character is a letter iff n % 16 >= 10; reversing a string keeps its character set and length and swaps first/last character")
    w.contract(QUOTE, 'dollar_quote_literal', params={'text': 'str'}, ghost={'quote': 'str'}, returns='str', hints={'ghost_out': ['quote']},
        # `quote` (the marker finally chosen) is the witness
        ensures=['DQ_OK(text, result, quote)'],
        loops={0: dict(fingerprint='while quote in text + quote[:-1]', invariant=['qq >= 0', 'MARKER_OK(quote)'])})
    # ---- code generator: ghost output buffer
    w.enum('Kind', 'edb/edgeql/ast.py', 'ConstantKind')
    w.refclass('CNode', {'value': 'str', 'kind': 'Kind'})
    w.refclass('Gen', {'out': 'str'}, ECG, 'EdgeQLSourceGenerator')
    BID = ''.join(BIDI)
    RAW = {"'": "[^'\\\\\\x00%s]*" % BID, '"': '[^"\\\\\\x00%s]*' % BID}            # may appear unescaped between the quotes
    RAWR = {"'": "[^'\\x00%s]*" % BID, '"': '[^"\\x00%s]*' % BID}                    # r'...': backslash is an ordinary character
    NOPROH = '[^\\x00%s]*' % BID
    w.define('NP(v)', 'in_re_pat(v, %r)' % ('(.|\\n)*[\\x00-\\x08\\x0b\\x0c\\x0e-\\x1f\\x7f\\x80-\\x9f\\n%s](.|\\n)*' % BID))
    def gen_write(ex, recv, args, kwargs, node):
        """ghost output buffer + the obligation that what is written is a well-formed literal for the value being printed"""
        from pyvc import strlib
        NONE_ = __import__('pyvc.vtypes', fromlist=['NONE']).NONE
        parts = [ex.co(a, TStr) for a in args]
        t = ex.heap_read(recv, 'out', TStr).t
        for a in parts: t = z3.Concat(t, a.t)
        ex.heap_write(recv, 'out', V(TStr, t))
        cur = ex.heap_read(recv, 'cur', TStr)
        consts = [strlib.const_str(a.t) for a in parts]
        same = lambda a, b: z3.eq(a, b) or not ex.feasible(a != b)
        env = dict(ex.st.env); env['v__'] = cur
        k = ex.call_counts.get('Gen.write', 0); ex.call_counts['Gen.write'] = k + 1
        def ob(expr, what):
            ex.prove(ex.eval_spec(expr, env=env), '%s/write#%s' % (ex.vf.cur.oname, what), 'pre@callsite', 'text written for a string constant is one well-formed literal with that value: ' + expr, 'property')
        if len(parts) == 3 and consts[0] in ("'", '"') and consts[2] == consts[0] and same(parts[1].t, cur.t):
            ob('in_re_pat(v__, %r)' % RAW[strlib._unescape_z3(consts[0])], 'quoted-' + ('sq' if consts[0] == "'" else 'dq'))
        elif len(parts) == 4 and consts[0] == 'r' and consts[1] in ("'", '"') and consts[3] == consts[1] and same(parts[2].t, cur.t):
            ob('in_re_pat(v__, %r)' % RAWR[strlib._unescape_z3(consts[1])], 'raw-' + ('sq' if consts[1] == "'" else 'dq'))
        elif len(parts) == 3 and consts[0] == '$$' and consts[2] == '$$' and same(parts[1].t, cur.t):
            # $$ must not occur in  v ++ "$"  (the lexer stops at the first $$ of  v ++ "$$")
            ob('not str_contains(v__, "$$") and not str_suffixof("$", v__) and in_re_pat(v__, %r)' % NOPROH, 'dollar')
        elif len(parts) == 1:
            env['w__'] = parts[0]
            if 'quote' in env: ob('NP(v__) or (DQ_OK(v__, w__, quote) and in_re_pat(v__, %r))' % NOPROH, 'single')
            else: ob('NP(v__)', 'single-escaped')      # the escaped form is only used for values with non-printable characters (its well-formedness: per-character view + oracle)
        else:
            raise __import__('pyvc.vtypes', fromlist=['Unsupported']).Unsupported('unrecognised shape of a literal written by the code generator')
        return NONE_
    w.py_methods[('Gen', 'write')] = gen_write
    w.classes['Gen']['cur'] = 'str'
    w.contract(QUOTE, 'quote_literal', params={'string': 'str'}, returns='str', trusted=True)      # whole-string meaning: homomorphism meta-lemma over the per-character view
    w.contract(ECG, 'EdgeQLSourceGenerator.visit_Constant', view='forms', params={'self': 'Gen', 'node': 'CNode'}, returns='none',
        requires=['self.out == ""', 'self.cur == node.value', 'node.kind == Kind.STRING'], modifies=['Gen.out'])
    # SQL side: a string constant of the SQL tree is written as exactly common.quote_literal(value) -- the function whose output is under contract above (per-character view)
    # and under the lexer oracle; any other spelling (E'..' forms, hand-made escaping) leaves that cover
    w.refclass('PGen', {'out': 'str'}); w.refclass('SNode', {'val': 'str'})
    w.ufunc('PGQL', ['str'], 'str')
    w.ext_methods['PGen.write'] = dict(params={'text': 'str'}, returns='none', modifies=['PGen.out'], ensures=['self.out == old(self.out) + text'])
    w.contract('edb/pgsql/codegen.py', 'SQLSourceGenerator.visit_StringConstant', params={'self': 'PGen', 'node': 'SNode'}, returns='none', modifies=['PGen.out'],
        ensures=['self.out == old(self.out) + PGQL(node.val)'],
        hints={'ext_funcs': {'common.quote_literal': dict(params={'string': 'str'}, returns='str', returns_expr='PGQL(string)', modifies=[])}})
    return w

def configure(vf):
    """library lemmas used by dollar_quote_literal: hexadecimal formatting and string reversal"""
    import z3
    from pyvc.vtypes import V, TStr, TInt, coerce, zs, fresh
    from pyvc import strlib
    base = vf.str_lib
    HEX = z3.Function('hex_of', z3.IntSort(), z3.StringSort()); REV = z3.Function('str_reverse', z3.StringSort(), z3.StringSort())
    hexre = z3.Plus(z3.Union(z3.Range('0', '9'), z3.Range('a', 'f')))
    def str_lib(ex, s, name, args, kwargs):
        if name == 'format' and strlib.const_str(s.t) is not None and len(args) == 1 and args[0].ty is TInt:
            tpl = strlib._unescape_z3(strlib.const_str(s.t))
            if tpl.count('{:x}') == 1 and '{' not in tpl.replace('{:x}', ''):
                pre, post = tpl.split('{:x}'); n = args[0].t; h = HEX(n)
                last = z3.SubString(h, z3.Length(h) - 1, 1)
                ex.assume(z3.Implies(n >= 0, z3.And(z3.InRe(h, hexre), z3.InRe(last, z3.Range('a', 'f')) == (n % 16 >= 10))))
                return V(TStr, z3.Concat(zs(pre), h, zs(post)))
        return base(ex, s, name, args, kwargs)
    vf.str_lib = str_lib
    def str_reverse(ex, obj):
        t = obj.t
        # reverse(pre ++ h ++ post) for constant pre/post
        if z3.is_app(t) and t.decl().kind() == z3.Z3_OP_SEQ_CONCAT:
            ch = []
            def flat(x):
                if z3.is_app(x) and x.decl().kind() == z3.Z3_OP_SEQ_CONCAT:
                    for y in x.children(): flat(y)
                else: ch.append(x)
            flat(t)
            if len(ch) == 3 and strlib.const_str(ch[0]) is not None and strlib.const_str(ch[2]) is not None:
                h = ch[1]; r = REV(h)
                ex.assume(z3.And(z3.Length(r) == z3.Length(h), z3.InRe(h, hexre) == z3.InRe(r, hexre),
                                 z3.Implies(z3.Length(h) > 0, z3.And(z3.SubString(r, 0, 1) == z3.SubString(h, z3.Length(h) - 1, 1), z3.SubString(r, z3.Length(r) - 1, 1) == z3.SubString(h, 0, 1))),
                                 # consequence spelled out for the solver: hex digits ending in a letter, reversed, start with a letter
                                 z3.Implies(z3.And(z3.InRe(h, hexre), z3.InRe(z3.SubString(h, z3.Length(h) - 1, 1), z3.Range('a', 'f'))),
                                            z3.InRe(r, z3.Concat(z3.Range('a', 'f'), z3.Star(z3.Union(z3.Range('0', '9'), z3.Range('a', 'f'))))))))
                return V(TStr, z3.Concat(zs(strlib._unescape_z3(strlib.const_str(ch[2]))[::-1]), r, zs(strlib._unescape_z3(strlib.const_str(ch[0]))[::-1])))
        raise __import__('pyvc.vtypes', fromlist=['Unsupported']).Unsupported('reverse of a symbolic string of unknown shape')
    vf.str_reverse = str_reverse

# ------------------------------------------------------------------------------------------------ non-SMT obligations
def _ob(oid, clause, ok, where=None, backend='ast-scan', kind='ownership', undecided=False, tag='property'):
    return dict(id=oid, kind=kind, clause=clause, tag=tag, paths=1, status='discharged' if ok else ('unknown' if undecided else 'failed'), backend=backend,
                seconds=0.0, model=None if ok else {'detail': where}, where=where, function=backend)

def _is_homomorphism(fn):
    """body is: [result = <param>]; result = result.replace(c, r) (1-char constant c) ... possibly in a loop over a constant string;
    return [<const> +] result/param[.replace...] [+ <const>].  Returns (ok, reason)"""
    params = [a.arg for a in fn.args.args]
    if not params: return False, 'no parameter'
    src = {params[0]}
    def is_chain(e):
        # e is name in src, or <chain>.replace(const1char, expr-without-src)
        if isinstance(e, ast.Name): return e.id in src
        if isinstance(e, ast.Call) and isinstance(e.func, ast.Attribute) and e.func.attr == 'replace' and len(e.args) == 2:
            pat = e.args[0]
            one = (isinstance(pat, ast.Constant) and isinstance(pat.value, str) and len(pat.value) == 1) or isinstance(pat, ast.Name)
            return one and is_chain(e.func.value) and not any(isinstance(n, ast.Name) and n.id in src for n in ast.walk(e.args[1]))
        return False
    def is_out(e):
        if isinstance(e, ast.BinOp) and isinstance(e.op, ast.Add):
            l, r = e.left, e.right
            lc = isinstance(l, ast.Constant); rc = isinstance(r, ast.Constant)
            if lc and rc: return False
            return (lc and is_out(r)) or (rc and is_out(l)) or False
        if isinstance(e, ast.Call) and isinstance(e.func, ast.Name) and len(e.args) == 1 and not e.keywords:
            return True if is_out_call(e) else False
        return is_chain(e)
    def is_out_call(e): return False
    for st in fn.body:
        if isinstance(st, ast.Expr) and isinstance(st.value, ast.Constant): continue
        if isinstance(st, ast.Assign) and len(st.targets) == 1 and isinstance(st.targets[0], ast.Name):
            if is_chain(st.value): src.add(st.targets[0].id); continue
            return False, 'line %d: assignment is not a replace-chain on the input' % st.lineno
        if isinstance(st, ast.For) and isinstance(st.target, ast.Name) and isinstance(st.iter, ast.Name) and not st.orelse:
            if all(isinstance(b, ast.Assign) and len(b.targets) == 1 and isinstance(b.targets[0], ast.Name) and b.targets[0].id in src and is_chain(b.value) for b in st.body): continue
            return False, 'line %d: loop body is not a replace-chain' % st.lineno
        if isinstance(st, ast.Return):
            return (True, '') if st.value is not None and is_out(st.value) else (False, 'line %d: return value is not <const> + chain + <const>' % st.lineno)
        return False, 'line %d: unexpected statement %s' % (st.lineno, type(st).__name__)
    return False, 'no return'

def extra_obligations(w, tier, seed):
    out = []
    for rel, fn in ((QUOTE, 'escape_string'), (QUOTE, '_quote_ident'), (PGC, 'quote_literal'), (PGC, '_quote_ident')):
        node, _ = repo.find_def(rel, fn)
        ok, why = _is_homomorphism(node)
        out.append(_ob('scan/%s:%s/homomorphism' % (rel.split('/')[-2], fn), '%s:%s is a chain of single-character str.replace on its argument with constant prefix/suffix (a string homomorphism)' % (rel, fn),
                       ok, where=why, undecided=True))
    # quote_literal = "'" + escape_string(x) + "'"
    node, _ = repo.find_def(QUOTE, 'quote_literal')
    txt = ast.unparse(node.body[-1]) if node.body else ''
    out.append(_ob('scan/edgeql:quote_literal/shape', 'edgeql quote_literal is `"\'" + escape_string(arg) + "\'"`', txt.replace('"', "'") == "return ''' + escape_string(string) + '''" or txt == 'return "\'" + escape_string(string) + "\'"', where=txt, undecided=True))
    return out

def _rustlex(root, repo_root):
    env = dict(os.environ); env['VERIF_REPO'] = repo_root
    subprocess.run(['sh', os.path.join(root, 'rustlex', 'build.sh')], env=env, check=True, capture_output=True)
    return os.path.join(root, 'out', 'rustlex', 'rustlex')

def scenarios(tier, seed, repo_root, outdir):
    """bounded stand-in / replay oracle: real producers -> real Rust lexer / PostgreSQL scanner spec on an adversarial corpus"""
    here = os.path.dirname(os.path.abspath(__file__)); root = os.path.dirname(os.path.dirname(here))
    out = os.path.join(outdir, 'scenario_out.json')
    if os.path.exists(out): os.unlink(out)
    rl = _rustlex(root, repo_root)
    L, nr = (2, 2000) if tier == 'quick' else (3, 30000)
    env = dict(os.environ); env['PYTHONPATH'] = '%s:%s' % (os.path.join(root, 'stubs'), repo_root); env['VERIF_REPO'] = repo_root
    p = subprocess.run(['/venv/bin/python', os.path.join(here, 'scenario.py'), str(seed), str(L), str(nr), rl, out], capture_output=True, text=True, env=env, cwd=repo_root, timeout=3000)
    if not os.path.exists(out): raise RuntimeError('scenario runner failed: ' + (p.stderr or p.stdout)[-2000:])
    r = json.load(open(out))
    return dict(evaluations=r['checks'], failure=r['failure'], strings=r['strings'], n_failures=r.get('n_failures'),
                label='all strings of length <= %d over a %d-symbol adversarial alphabet + keywords in 3 cases + %d random strings; every byte / byte pairs for bytes literals (bounded)' % (L, 34, nr),
                clause='output of every quoting function is read back (real Rust lexer / PostgreSQL scanner spec) as exactly one token with the original value')
