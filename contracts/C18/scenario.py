"""C18 bounded stand-in / replay oracle (native; never counted as proof).

Every quoting function of the property is run (REAL Python code) on a corpus of strings; its output is read back
  * EdgeQL forms: by the REAL Rust lexer of /repo (rustlex: tokenizer.rs / validation.rs / helpers compiled unmodified),
  * SQL forms:    by an executable transcription of PostgreSQL's lexical rules (scan.l: standard_conforming_strings=on,
                  '' / "" doubling, identifier start/continue classes, ASCII case folding, keyword classes from edb/pgsql/keywords.py),
and must be exactly one token (or the expected token sequence) carrying the original value.
Corpus: all strings of length <= L over an adversarial alphabet + keywords in several cases + random longer strings.
Inputs a form cannot express (NUL; for dollar/backtick forms the characters the lexer forbids raw; empty / '@' / '::' /
dunder identifiers) are excluded, as the property says "for every string that a quoted form can express".
usage: scenario.py <seed> <L> <n_random> <rustlex> <out.json> [known.json]
"""
import sys, json, random, itertools, subprocess, binascii, re

ALPHA = ['a', 'Z', '1', '0', '_', "'", '"', '\\', '$', '`', '\n', '\t', '\r', '\x08', '\x0c', '\x01', '\x7f', '\x80', '\x9f', '‪', '⁦',
         '\xb2', '\xe9', 'İ', '@', ':', ' ', '%', '(', '-', '.', 'e', 'x', '\U0001f600', '\u0663']      # (last: ARABIC-INDIC DIGIT THREE, a decimal digit that is not ASCII)
BIDI = set('‪‫‬‭‮⁦⁧⁨⁩')

def rustlex(path, texts):
    inp = '\n'.join(binascii.hexlify(t.encode('utf-8', 'surrogatepass')).decode() for t in texts) + '\n'
    p = subprocess.run([path], input=inp, capture_output=True, text=True, timeout=3000)
    lines = p.stdout.split('\n')[:len(texts)]
    if len(lines) != len(texts): raise RuntimeError('rustlex failed: ' + p.stderr[-500:])
    return [json.loads(l) for l in lines]

# ------------------------------------------------------------------ PostgreSQL lexical rules (executable spec)
def pg_tokens(text, kw):
    i = 0; out = []; n = len(text)
    def is_start(c): return c.isascii() and (c.isalpha() or c == '_') or ord(c) >= 0x80
    def is_cont(c): return is_start(c) or c.isdigit() and c.isascii() or c == '$'
    while i < n:
        c = text[i]
        if c in ' \t\n\r\f': i += 1; continue
        if c == "'":
            j = i + 1; val = []
            while True:
                if j >= n: return [('ERROR', 'unterminated quoted string')]
                if text[j] == "'":
                    if j + 1 < n and text[j + 1] == "'": val.append("'"); j += 2; continue
                    break
                if text[j] == '\0': return [('ERROR', 'NUL in string')]
                val.append(text[j]); j += 1
            out.append(('SCONST', ''.join(val))); i = j + 1; continue
        if c == '"':
            j = i + 1; val = []
            while True:
                if j >= n: return [('ERROR', 'unterminated quoted identifier')]
                if text[j] == '"':
                    if j + 1 < n and text[j + 1] == '"': val.append('"'); j += 2; continue
                    break
                if text[j] == '\0': return [('ERROR', 'NUL in identifier')]
                val.append(text[j]); j += 1
            if not val: return [('ERROR', 'zero-length delimited identifier')]
            out.append(('IDENT', ''.join(val))); i = j + 1; continue
        if is_start(c):
            j = i + 1
            while j < n and is_cont(text[j]): j += 1
            word = text[i:j]
            if j < n and text[j] == "'" and word.lower() in ('e', 'b', 'x', 'n'): return [('ERROR', 'prefixed string literal %s\'' % word)]
            if word.lower() == 'u' and j + 1 < n and text[j] == '&' and text[j + 1] in '\'"': return [('ERROR', 'unicode-escape literal')]
            folded = ''.join(ch.lower() if ch.isascii() else ch for ch in word)
            if folded in kw: out.append(('KEYWORD', folded, kw[folded]))
            else: out.append(('IDENT', folded))
            i = j; continue
        if c.isdigit() and c.isascii() or (c == '.' and i + 1 < n and text[i + 1].isdigit()):
            j = i + 1
            while j < n and (text[j].isalnum() and text[j].isascii() or text[j] in '._'): j += 1
            out.append(('NUMBER', text[i:j])); i = j; continue
        if c == '$' and i + 1 < n and text[i + 1].isdigit(): 
            j = i + 1
            while j < n and text[j].isdigit(): j += 1
            out.append(('PARAM', text[i:j])); i = j; continue
        if c == '$': return [('ERROR', 'dollar quote')]
        out.append(('OP', c)); i += 1
    return out

def bytea_value(tokens):
    # '\x<hex>'::bytea   (standard_conforming_strings: backslash is an ordinary character; bytea hex input format)
    if len(tokens) == 5 and tokens[0][0] == 'SCONST' and tokens[1:3] == [('OP', ':'), ('OP', ':')] and tokens[3][0] in ('IDENT', 'KEYWORD') and tokens[3][1] == 'bytea':
        pass
    if not tokens or tokens[0][0] != 'SCONST': return None
    rest = [t[:2] for t in tokens[1:]]
    if rest != [('OP', ':'), ('OP', ':'), ('IDENT', 'bytea')]: return None
    s = tokens[0][1]
    if s == '': return b''
    if not s.startswith('\\x'): return None
    try: return binascii.unhexlify(s[2:])
    except Exception: return None

def main():
    seed, L, nrand, rlx, out = int(sys.argv[1]), int(sys.argv[2]), int(sys.argv[3]), sys.argv[4], sys.argv[5]
    rnd = random.Random(seed)
    from edb.edgeql import quote as eq, codegen as ecg, ast as qlast
    from edb.edgeql.parser.grammar import keywords as ekw
    from edb.pgsql import common as pgc, codegen as pcg, ast as pgast, keywords as pkw
    from edb.pgsql.dbops import base as dbops_base
    pgkw = {k: v[1] for k, v in pkw.pg_keywords.items()}
    e_reserved = set(ekw.by_type[ekw.RESERVED_KEYWORD])
    # ---- corpus
    corpus = ['']
    for n in range(1, L + 1):
        for t in itertools.product(ALPHA, repeat=n): corpus.append(''.join(t))
    words = sorted(set(list(ekw.edgeql_keywords)[:400] + list(pgkw)[:500] + ['__type__', '__std__', '__source__', 'id', 'Object', 'user', 'table', 'between', 'int', 'authorization']))
    for wd in words: corpus += [wd, wd.upper(), wd.title()]
    for _ in range(nrand):
        corpus.append(''.join(rnd.choice(ALPHA) for _ in range(rnd.randint(4, 12))))
    # dollar-quote stress: strings containing many candidate markers
    marks = ['$$'] + ['$%s$' % ''.join(reversed('%x' % q)) for q in list(range(10, 16)) + list(range(26, 32)) + [0xa0, 0x1a, 0xaa, 0xfa]]
    corpus.append(' '.join(marks)); corpus.append(''.join(marks[:8]) + 'x'); corpus.append('\'"' + ' '.join(marks[:7])); corpus.append('\'"' + ' '.join(marks[:8]) + '$')
    corpus += ['\'"$', '\'"$$x$a', 'abc$', '$', 'x$$', '\'"$$', "a'b\"c$$d$"]
    corpus = list(dict.fromkeys(corpus))
    res = dict(strings=len(corpus), checks=0, failure=None, failures=[])
    def fail(fn, v, produced, why):
        f = dict(function=fn, input=v, input_repr=ascii(v), produced=ascii(produced), problem=why)
        res['failures'].append(f)
    def can_str(v): return '\0' not in v
    def can_ident(v): return v != '' and '\0' not in v and not v.startswith('@') and not v.startswith('$') and '::' not in v and not (v.startswith('__') and v.endswith('__')) and not (set(v) & BIDI)
    def gen_const(v):
        g = ecg.EdgeQLSourceGenerator(); g.visit_Constant(qlast.Constant(value=v, kind=qlast.ConstantKind.STRING)); return ''.join(g.result)
    jobs = []     # (fn, input, produced, expect)
    for v in corpus:
        if can_str(v):
            jobs.append(('edgeql.quote.quote_literal', v, eq.quote_literal(v), ('Str', v)))
            jobs.append(('edgeql.codegen.visit_Constant', v, gen_const(v), ('Str', v)))
            if not (set(v) & BIDI): jobs.append(('edgeql.quote.dollar_quote_literal', v, eq.dollar_quote_literal(v), ('Str', v)))
        if can_ident(v):
            jobs.append(('edgeql.quote.quote_ident', v, eq.quote_ident(v), ('Name', v)))
            jobs.append(('edgeql.quote.quote_ident(force)', v, eq.quote_ident(v, force=True), ('Name', v)))
            if not v.startswith('$'): pass
            jobs.append(('edgeql.quote.quote_ident(allow_reserved)', v, eq.quote_ident(v, allow_reserved=True), ('NameOrKw', v)))
            # path steps / shape elements (codegen.ident_to_str(.., allow_num=True)): a purely numeric name may stay bare and is then read as an integer token with that text
            jobs.append(('edgeql.quote.quote_ident(allow_num)', v, eq.quote_ident(v, allow_num=True), ('NameOrNum', v)))
    toks = rustlex(rlx, [j[2] for j in jobs])
    for (fn, v, produced, (kind, val)), r in zip(jobs, toks):
        res['checks'] += 1
        ts = r.get('tokens', [])
        if 'error' in r: fail(fn, v, produced, 'the EdgeQL lexer rejects the produced text: %s' % r['error'][:160]); continue
        if len(ts) != 1: fail(fn, v, produced, 'read back as %d tokens: %s' % (len(ts), [t['kind'] for t in ts][:5])); continue
        t = ts[0]
        if kind == 'Str':
            if t['kind'] != 'Str' or (t['value'] or {}).get('str') != val: fail(fn, v, produced, 'read back as %s with value %s' % (t['kind'], ascii((t['value'] or {}).get('str'))))
        else:
            is_kw = t['kind'].startswith('Keyword')
            if t['kind'] == 'Ident':
                if (t['value'] or {}).get('str') != val: fail(fn, v, produced, 'identifier read back with value %s' % ascii((t['value'] or {}).get('str')))
            elif kind == 'NameOrNum' and t['kind'] == 'IntConst':
                if t['text'] != val: fail(fn, v, produced, 'numeric name read back as the integer %s' % t['text'])
            elif is_kw:
                low = t['text'].lower()
                if t['text'].lower() != val.lower() and t['text'] != val: fail(fn, v, produced, 'read back as keyword %s' % t['text'])
                elif kind == 'Name' and low in e_reserved and low not in ('__type__', '__std__'): fail(fn, v, produced, 'read back as the reserved keyword %s' % t['text'])
            else: fail(fn, v, produced, 'read back as token kind %s' % t['kind'])
    # bytes literals: every single byte and byte pair + random
    bvals = [bytes([b]) for b in range(256)] + [bytes([a, b]) for a in (0, 39, 92, 10, 0x7e, 0x80, 0xff, 65) for b in (39, 92, 0, 0xff, 120, 48)] + [b'', bytes(range(256))]
    for _ in range(200): bvals.append(bytes(rnd.randrange(256) for _ in range(rnd.randint(1, 8))))
    bj = []
    for b in bvals:
        g = ecg.EdgeQLSourceGenerator(); g.visit_BytesConstant(qlast.BytesConstant(value=b)); bj.append((b, ''.join(g.result)))
    for (b, produced), r in zip(bj, rustlex(rlx, [x[1] for x in bj])):
        res['checks'] += 1
        ts = r.get('tokens', [])
        if 'error' in r or len(ts) != 1 or ts[0]['kind'] != 'BinStr' or (ts[0]['value'] or {}).get('bytes') != binascii.hexlify(b).decode():
            fail('edgeql.codegen.visit_BytesConstant', repr(b), produced, 'read back as %s' % (r.get('error') or [(t['kind'], t['value']) for t in ts])[:200])
        # SQL bytea
        for fn, txt in (('pgsql.common.quote_bytea_literal', pgc.quote_bytea_literal(b)),):
            res['checks'] += 1
            if bytea_value(pg_tokens(txt, pgkw)) != b: fail(fn, repr(b), txt, 'PostgreSQL reads %r' % (pg_tokens(txt, pgkw)[:3],))
    # ---- SQL forms
    def pg_one(fn, v, produced, kind):
        res['checks'] += 1
        ts = pg_tokens(produced, pgkw)
        if len(ts) != 1: fail(fn, v, produced, 'PostgreSQL reads %d tokens: %r' % (len(ts), ts[:4])); return
        t = ts[0]
        if kind == 'SCONST':
            if t[0] != 'SCONST' or t[1] != v: fail(fn, v, produced, 'PostgreSQL reads %r' % (t,))
        else:
            if t[0] == 'IDENT':
                if t[1] != v: fail(fn, v, produced, 'PostgreSQL reads identifier %r' % (t[1],))
            elif t[0] == 'KEYWORD' and t[1] == v and t[2] in ((pkw.UNRESERVED_KEYWORD, pkw.COL_NAME_KEYWORD) if kind == 'IDENT' else (pkw.UNRESERVED_KEYWORD,)): pass
            else: fail(fn, v, produced, 'PostgreSQL reads %r' % (t,))
    for v in corpus:
        if '\0' in v: continue
        pg_one('pgsql.common.quote_literal', v, pgc.quote_literal(v), 'SCONST')
        g = pcg.SQLSourceGenerator(pcg.codegen.Options() if hasattr(pcg.codegen, 'Options') else None); g.visit_StringConstant(pgast.StringConstant(val=v)); pg_one('pgsql.codegen.visit_StringConstant', v, ''.join(g.result), 'SCONST')
        pg_one('pgsql.dbops.base.encode_value', v, dbops_base.encode_value(v), 'SCONST')
        # values that are neither str nor numbers (names, uuids, enum members ...) are written as the literal of their str()
        class _Named:
            def __init__(self, s): self.s = s
            def __str__(self): return self.s
        pg_one('pgsql.dbops.base.encode_value(object with __str__)', v, dbops_base.encode_value(_Named(v)), 'SCONST')
        nested = dbops_base.encode_value((_Named(v),))
        if nested.startswith('ROW(') and nested.endswith(')'): pg_one('pgsql.dbops.base.encode_value((object,))', v, nested[4:-1], 'SCONST')
        else: pg_one('pgsql.dbops.base.encode_value((object,))', v, nested, 'SCONST')
        if v != '':
            pg_one('pgsql.common.quote_ident', v, pgc.quote_ident(v), 'IDENT')
            pg_one('pgsql.common.quote_col', v, pgc.quote_col(v), 'COLIDENT')
            pg_one('pgsql.common.quote_ident(force)', v, pgc.quote_ident(v, force=True), 'IDENT')
    # identifiers at a code-generator call site: a column reference `<qualifier>.id` written by the SQL code generator; the qualifier must be read back with its original value
    # (the trigger pseudo-relations are spelled exactly OLD / NEW and are the only names written bare on purpose)
    def colref(names):
        g = pcg.SQLSourceGenerator(pcg.codegen.Options() if hasattr(pcg.codegen, 'Options') else None); g.visit_ColumnRef(pgast.ColumnRef(name=names)); return ''.join(g.result)
    quals = [v for v in corpus if v != '' and '\0' not in v and len(v) <= 4] + ['New', 'Old', 'nEW', 'oLD', 'new', 'old', 'NEW', 'OLD', 'News', 'table', 'User']
    for v in dict.fromkeys(quals):
        res['checks'] += 1
        try: produced = colref([v, 'id'])
        except Exception as e: fail('pgsql.codegen.visit_ColumnRef', v, '', 'raised %r' % (e,)); continue
        ts = pg_tokens(produced, pgkw)
        ok = len(ts) == 3 and ts[1][0] == 'OP' and ts[1][1] == '.' if False else None
        # expected shape: <ident> . <ident>
        idents = [t for t in ts if t[0] in ('IDENT', 'KEYWORD')]
        if len(idents) != 2 or len(ts) != 3: fail('pgsql.codegen.visit_ColumnRef', v, produced, 'PostgreSQL reads %r' % (ts[:5],)); continue
        q = idents[0]
        if v in ('OLD', 'NEW'):
            if q[1].lower() != v.lower(): fail('pgsql.codegen.visit_ColumnRef', v, produced, 'trigger pseudo-relation read as %r' % (q,))
        elif q[1] != v: fail('pgsql.codegen.visit_ColumnRef', v, produced, 'qualifier read back as %r (case folding / wrong quoting)' % (q[1],))
    res['failure'] = res['failures'][0] if res['failures'] else None
    res['n_failures'] = len(res['failures']); res['failures'] = res['failures'][:400]
    json.dump(res, open(out, 'w'), indent=1)

if __name__ == '__main__':
    main()
