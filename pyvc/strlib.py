"""String / regex library models for the engine.

* str.replace with constant 1-character patterns: exact (constant folding, distribution over if-then-else,
  `If(s == c, r, s)` for a receiver known to be one character long), otherwise z3's replace_all.
* re.compile / match / fullmatch / search for a regular subset of Python's regex syntax, translated from
  CPython's own parse tree (re._parser) to z3 regular expressions; named/numbered top-level groups are
  modelled by an (over-approximating) decomposition: whole == g1 ++ g2 ++ ..., g_i in L(piece_i).
  \\d and \\w are modelled as their ASCII ranges -- stated as an assumption whenever used.
"""
import re, ast, os
try:
    import re._parser as _sp, re._constants as _sc
except ImportError:      # pragma: no cover
    import sre_parse as _sp, sre_constants as _sc
import z3
from .vtypes import *
from . import engine as E

class RegexV(E.PyObj):
    def __init__(self, pattern, flags, is_bytes=False):
        self.pattern, self.flags, self.is_bytes = pattern, flags, is_bytes
        self.tree = _sp.parse(pattern, flags)
        self.groupindex = dict(self.tree.state.groupdict)

class MatchV(E.PyObj):
    """a successful match: python-level object holding the group strings"""
    def __init__(self, groups, names, whole): self.groups, self.names, self.whole = groups, names, whole

def const_str(t):
    t = z3.simplify(t)
    return t.as_string() if z3.is_string_value(t) else None

def _unescape_z3(s):
    # z3 prints non-ascii as \u{..}; as_string() returns that escaped form
    return re.sub(r'\\u\{([0-9a-fA-F]+)\}', lambda m: chr(int(m.group(1), 16)), s)

def zstr(s):
    return zs(s)

def smart_replace(ex, t, a, b):
    """s.replace(a, b) as a z3 term"""
    ca, cb, ct = const_str(a), const_str(b), const_str(t)
    if ca is not None and cb is not None and ct is not None:
        return zstr(_unescape_z3(ct).replace(_unescape_z3(ca), _unescape_z3(cb)))
    if ca is not None and len(_unescape_z3(ca)) == 1:
        if z3.is_app(t) and t.decl().kind() == z3.Z3_OP_ITE:
            c, x, y = t.children()
            return z3.If(c, smart_replace(ex, x, a, b), smart_replace(ex, y, a, b))
        # receiver known to be exactly one character long on this path?
        if not ex.feasible(z3.Length(t) != 1):
            return z3.If(t == a, b, t)
    return z3.SeqRef(z3.Z3_mk_seq_replace_all(t.ctx_ref(), t.as_ast(), a.as_ast(), b.as_ast()), t.ctx)

# ------------------------------------------------------------------ regex -> z3
def _cls_item(op, av, notes):
    if op == _sc.LITERAL: return z3.Re(zstr(chr(av)))
    if op == _sc.RANGE: return z3.Range(chr(av[0]), chr(av[1]))
    if op == _sc.CATEGORY:
        if av == _sc.CATEGORY_DIGIT:
            notes.add(r'regex \d modelled as [0-9] (non-ASCII decimal digits not modelled)'); return z3.Range('0', '9')
        if av == _sc.CATEGORY_WORD:
            notes.add(r'regex \w modelled as [A-Za-z0-9_] (non-ASCII word characters not modelled)')
            return z3.Union(z3.Range('a', 'z'), z3.Range('A', 'Z'), z3.Range('0', '9'), z3.Re(zstr('_')))
        if av == _sc.CATEGORY_SPACE:
            return z3.Union(*[z3.Re(zstr(c)) for c in ' \t\n\r\f\v'])
    raise Unsupported('regex class item %s' % (op,))

def to_z3re(items, notes):
    parts = []
    for op, av in items:
        if op == _sc.LITERAL: parts.append(z3.Re(zstr(chr(av))))
        elif op == _sc.NOT_LITERAL: parts.append(z3.Diff(z3.AllChar(z3.ReSort(z3.StringSort())), z3.Re(zstr(chr(av)))))
        elif op == _sc.ANY: parts.append(z3.Diff(z3.AllChar(z3.ReSort(z3.StringSort())), z3.Re(zstr('\n'))))
        elif op == _sc.IN:
            neg = av and av[0][0] == _sc.NEGATE
            its = [_cls_item(o, a, notes) for o, a in (av[1:] if neg else av)]
            u = its[0] if len(its) == 1 else z3.Union(*its)
            parts.append(z3.Diff(z3.AllChar(z3.ReSort(z3.StringSort())), u) if neg else u)
        elif op in (_sc.MAX_REPEAT, _sc.MIN_REPEAT):
            lo, hi, sub = av; r = to_z3re(sub, notes)
            if hi == _sc.MAXREPEAT:
                parts.append(z3.Star(r) if lo == 0 else (z3.Plus(r) if lo == 1 else z3.Concat(*([r] * lo + [z3.Star(r)]))))
            else: parts.append(z3.Loop(r, lo, hi))
        elif op == _sc.SUBPATTERN: parts.append(to_z3re(av[3], notes))
        elif op == _sc.BRANCH: parts.append(z3.Union(*[to_z3re(b, notes) for b in av[1]]) if len(av[1]) > 1 else to_z3re(av[1][0], notes))
        elif op == _sc.NEGATE: raise Unsupported('regex negate outside class')
        elif op == _sc.AT:
            if av in (_sc.AT_BEGINNING, _sc.AT_BEGINNING_STRING, _sc.AT_END_STRING): continue
            if av == _sc.AT_END:
                notes.add('regex $ modelled as end of string (a trailing newline before the end is not modelled)'); continue
            raise Unsupported('regex anchor %s' % av)
        else: raise Unsupported('regex op %s' % (op,))
    if not parts: return z3.Re(zstr(''))
    return parts[0] if len(parts) == 1 else z3.Concat(*parts)

def _anchored(items):
    a0 = bool(items) and items[0][0] == _sc.AT and items[0][1] in (_sc.AT_BEGINNING, _sc.AT_BEGINNING_STRING)
    a1 = bool(items) and items[-1][0] == _sc.AT and items[-1][1] in (_sc.AT_END, _sc.AT_END_STRING)
    return a0, a1

def regex_match(ex, rx, s, mode):
    """mode in match / fullmatch / search.  returns (matched: z3 Bool, MatchV valid under `matched`)"""
    notes = set(); items = list(rx.tree)
    a0, a1 = _anchored(items)
    core = [it for it in items if it[0] != _sc.AT]
    any_ = z3.Star(z3.AllChar(z3.ReSort(z3.StringSort())))
    body = to_z3re(core, notes)
    pre = z3.Re(zstr('')) if (mode in ('match', 'fullmatch') or a0) else any_
    post = z3.Re(zstr('')) if (mode == 'fullmatch' or a1) else any_
    full = z3.Concat(pre, body, post)
    for n in notes: ex.vf.note_assumption(n)
    matched = z3.InRe(s.t, full)
    # groups: decomposition of the matched span along the top-level sequence
    groups = {}; names = dict(rx.groupindex)
    mv = MatchV(groups, names, s)
    if any(op == _sc.SUBPATTERN for op, _ in core) or mode == 'search':
        pieces = []
        head = fresh('re_pre', z3.StringSort()); tail = fresh('re_post', z3.StringSort())
        facts = [z3.InRe(head, pre), z3.InRe(tail, post)]
        if any(op == _sc.SUBPATTERN for op, _ in core):
            for op, av in core:
                g = fresh('re_g', z3.StringSort())
                facts.append(z3.InRe(g, to_z3re([(op, av)], notes)))
                pieces.append(g)
                if op == _sc.SUBPATTERN and av[0] is not None: groups[av[0]] = V(TStr, g)
            whole = z3.Concat(*pieces) if len(pieces) > 1 else pieces[0]
        else:
            whole = fresh('re_m', z3.StringSort()); facts.append(z3.InRe(whole, body))
        facts.append(s.t == z3.Concat(head, whole, tail))
        if mode == 'search' and not a0 and not os.environ.get('PYVC_NO_LEFTMOST'):
            # re.search returns the leftmost match: no match starts before it
            p = z3.Int('re_p!q'); rest = z3.Concat(body, post)
            facts.append(z3.ForAll([p], z3.Implies(z3.And(p >= 0, p < z3.Length(head)), z3.Not(z3.InRe(z3.SubString(s.t, p, z3.Length(s.t) - p), rest)))))
        ex.assume(z3.Implies(matched, z3.And(*facts)))
        groups[0] = V(TStr, whole); mv.head = head; mv.whole = whole
    else:
        groups[0] = None
    return matched, mv

def install(vf):
    """default string library for a Verifier"""
    def str_lib(ex, s, name, args, kwargs):
        if name == 'format':
            vf.note_assumption('str.format() result treated as an arbitrary string')
            return V(TStr, fresh('fmt', z3.StringSort()))
        if name in ('lower', 'upper', 'casefold'):
            c = const_str(s.t)
            if c is not None: return V(TStr, zstr(getattr(_unescape_z3(c), name)()))
            f = z3.Function('py_' + name, z3.StringSort(), z3.StringSort())
            return V(TStr, f(s.t))
        if name in ('isalnum', 'isdecimal', 'isdigit', 'isalpha', 'isascii', 'isidentifier', 'isprintable', 'isnumeric', 'isspace', 'islower', 'isupper'):
            c = const_str(s.t)
            if c is not None: return vbool(bool(getattr(_unescape_z3(c), name)()))
            return vbool(z3.Function('py_' + name, z3.StringSort(), z3.BoolSort())(s.t))
        raise Unsupported('str.%s (no library model)' % name)
    vf.str_lib = str_lib
