"""pyvc type & value layer: Python-level typed symbolic values over z3 terms.

Every symbolic value is V(ty, t).  For scalar types `t` is a z3 term; for
structured types it is a Python structure of terms/values (see each type).
`pack`/`unpack` convert to/from a single z3 term (datatype sorts) so that
structured values can be stored in arrays (sequences, maps, heap fields).
"""
import z3

class Unsupported(Exception):
    """The code left the supported subset (reported, never ignored)."""

_sort_cache = {}
_fresh_ctr = [0]

def fresh(prefix, sort):
    _fresh_ctr[0] += 1
    return z3.Const('%s!%d' % (prefix, _fresh_ctr[0]), sort)

class Ty:
    kind = None
    def __eq__(self, o): return isinstance(o, Ty) and self.key == o.key
    def __hash__(self): return hash(self.key)
    def __repr__(self): return self.key

class TPrim(Ty):
    def __init__(self, kind): self.kind = kind; self.key = kind
TInt, TBool, TStr, TFloat, TNone = (TPrim(k) for k in ('int', 'bool', 'str', 'float', 'none'))
TBytes = TPrim('bytes')
TFlags = TPrim('flags')
TMatch = TPrim('match')   # result of re.match & co: payload (matched: z3 Bool, python-level group holder); None iff not matched   # enum.IntFlag values: 64-bit vectors   # byte strings as z3 strings of code points 0..255 (latin-1 view)
TExc = TPrim('exc')   # python-level exception value (never packed)

class TEnum(Ty):
    kind = 'enum'
    def __init__(self, name, members, values=None, ordered=False, intvalued=False):
        # members: list of names in definition order; values: python values
        self.name = name; self.members = list(members)
        self.values = list(values) if values is not None else list(members)
        self.ordered = ordered; self.intvalued = intvalued
        self.key = 'Enum[%s]' % name
    def sort(self):
        if self.key not in _sort_cache:
            s, consts = z3.EnumSort(self.name, self.members)
            _sort_cache[self.key] = (s, dict(zip(self.members, consts)))
        return _sort_cache[self.key][0]
    def const(self, member):
        self.sort(); return _sort_cache[self.key][1][member]
    def index_term(self, t):
        """definition-order index of an enum term (for ordered enums)"""
        r = z3.IntVal(len(self.members) - 1)
        for i in range(len(self.members) - 2, -1, -1):
            r = z3.If(t == self.const(self.members[i]), z3.IntVal(i), r)
        return r
    def value_term(self, t):
        """int value of an int-valued enum term"""
        r = z3.IntVal(self.values[-1])
        for i in range(len(self.members) - 2, -1, -1):
            r = z3.If(t == self.const(self.members[i]), z3.IntVal(self.values[i]), r)
        return r

class TAny(Ty):
    """opaque immutable values with equality only (uninterpreted sort)"""
    kind = 'any'
    def __init__(self, name, truthy=None): self.name = name; self.key = 'Any[%s]' % name; self.truthy = truthy
    def sort(self):
        if self.key not in _sort_cache:
            _sort_cache[self.key] = z3.DeclareSort(self.name)
        return _sort_cache[self.key]

class TRef(Ty):
    """heap object of class `cls` (identity = Ref term)"""
    kind = 'ref'
    def __init__(self, cls, truthy=None, universal=False):
        self.cls = cls; self.key = 'Ref[%s]' % cls; self.truthy = truthy; self.universal = universal
    def sort(self):
        if 'Ref' not in _sort_cache:
            _sort_cache['Ref'] = z3.DeclareSort('Ref')
        return _sort_cache['Ref']

class TOpt(Ty):
    kind = 'opt'
    def __init__(self, inner):
        assert not isinstance(inner, TOpt) and inner is not TNone
        self.inner = inner; self.key = 'Opt[%s]' % inner.key
class TTuple(Ty):
    kind = 'tuple'
    def __init__(self, items): self.items = list(items); self.key = 'Tuple[%s]' % ','.join(i.key for i in self.items)
class TRec(Ty):
    """immutable record by value (NamedTuple / frozen dataclass)"""
    kind = 'rec'
    def __init__(self, name, fields): self.name = name; self.fields = list(fields); self.key = 'Rec[%s]' % name
    def fty(self, f):
        for n, t in self.fields:
            if n == f: return t
        raise KeyError(f)
class TSeq(Ty):
    kind = 'seq'
    def __init__(self, elem): self.elem = elem; self.key = 'Seq[%s]' % elem.key
class TSet(Ty):
    kind = 'set'
    def __init__(self, elem): self.elem = elem; self.key = 'Set[%s]' % elem.key
class TMap(Ty):
    kind = 'map'
    def __init__(self, k, v): self.k = k; self.v = v; self.key = 'Map[%s,%s]' % (k.key, v.key)

class TOMap(Ty):
    """insertion-ordered dict: (n, ks: Int->K, pos: K->Int, val: K->V) with  forall i<n. pos[ks[i]] == i
    (pos is the ghost inverse of ks; membership of k is  0 <= pos[k] < n and ks[pos[k]] == k : quantifier-free)"""
    kind = 'omap'
    def __init__(self, k, v): self.k = k; self.v = v; self.key = 'OMap[%s,%s]' % (k.key, v.key)

class TFun(Ty):
    """total map K -> V (e.g. a defaultdict whose missing keys read as the default): payload = one z3 array"""
    kind = 'fun'
    def __init__(self, k, v): self.k = k; self.v = v; self.key = 'Fun[%s,%s]' % (k.key, v.key)

def omap_member(m, kt):
    n, ks, pos, val = m.t
    p = z3.Select(pos, kt)
    return z3.And(p >= 0, p < n, z3.Select(ks, p) == kt)

def _pattern_ok(t, budget=60):
    stack = [t]; n = 0
    while stack:
        x = stack.pop(); n += 1
        if n > budget or z3.is_quantifier(x): return False
        if z3.is_app(x) and x.decl().kind() == z3.Z3_OP_ITE: return False
        stack.extend(x.children())
    return True

def omap_inv(m):
    n, ks, pos, val = m.t
    i = fresh('oi', z3.IntSort())
    body = z3.Implies(z3.And(i >= 0, i < n), z3.Select(pos, z3.Select(ks, i)) == i)
    q = z3.ForAll([i], body, patterns=[z3.Select(ks, i)]) if _pattern_ok(ks) else z3.ForAll([i], body)
    return [n >= 0, q]

def sort_of(ty):
    k = ty.key
    if k in _sort_cache and not isinstance(ty, TEnum):
        return _sort_cache[k]
    if ty is TInt: s = z3.IntSort()
    elif ty is TBool: s = z3.BoolSort()
    elif ty is TStr or ty is TBytes: s = z3.StringSort()
    elif ty is TFlags: s = z3.BitVecSort(64)
    elif ty is TFloat: s = z3.RealSort()
    elif ty is TNone:
        s, _ = z3.EnumSort('NoneT', ['none_v'])
    elif isinstance(ty, (TEnum, TAny, TRef)): return ty.sort()
    elif isinstance(ty, TOpt):
        _n = _dtname(ty); d = z3.Datatype(_n); d.declare(_n + '_none'); d.declare(_n + '_some', (_n + '_val', sort_of(ty.inner))); s = d.create()
    elif isinstance(ty, TTuple):
        _n = _dtname(ty); d = z3.Datatype(_n); d.declare(_n + '_mk', *[(_n + '_f%d' % i, sort_of(t)) for i, t in enumerate(ty.items)]); s = d.create()
    elif isinstance(ty, TRec):
        _n = _dtname(ty); d = z3.Datatype(_n); d.declare(_n + '_mk', *[(_n + '_' + n, sort_of(t)) for n, t in ty.fields]); s = d.create()
    elif isinstance(ty, TSeq):
        _n = _dtname(ty); d = z3.Datatype(_n); d.declare(_n + '_mk', (_n + '_len', z3.IntSort()), (_n + '_arr', z3.ArraySort(z3.IntSort(), sort_of(ty.elem)))); s = d.create()
    elif isinstance(ty, TSet):
        _n = _dtname(ty); d = z3.Datatype(_n); d.declare(_n + '_mk', (_n + '_mem', z3.ArraySort(sort_of(ty.elem), z3.BoolSort())), (_n + '_card', z3.IntSort())); s = d.create()
    elif isinstance(ty, TFun): s = z3.ArraySort(sort_of(ty.k), sort_of(ty.v))
    elif isinstance(ty, TOMap):
        _n = _dtname(ty); d = z3.Datatype(_n); d.declare(_n + '_mk', (_n + '_n', z3.IntSort()), (_n + '_ks', z3.ArraySort(z3.IntSort(), sort_of(ty.k))), (_n + '_pos', z3.ArraySort(sort_of(ty.k), z3.IntSort())), (_n + '_val', z3.ArraySort(sort_of(ty.k), sort_of(ty.v)))); s = d.create()
    elif isinstance(ty, TMap):
        _n = _dtname(ty); d = z3.Datatype(_n); d.declare(_n + '_mk', (_n + '_dom', z3.ArraySort(sort_of(ty.k), z3.BoolSort())), (_n + '_val', z3.ArraySort(sort_of(ty.k), sort_of(ty.v))), (_n + '_card', z3.IntSort())); s = d.create()
    else:
        raise Unsupported('no sort for %r' % ty)
    _sort_cache[k] = s
    return s

def _dtname(ty):
    return 'D_' + ''.join(c if c.isalnum() else '_' for c in ty.key)

class V:
    __slots__ = ('ty', 't')
    def __init__(self, ty, t): self.ty = ty; self.t = t
    def __repr__(self): return 'V(%s, %s)' % (self.ty, self.t)

NONE = V(TNone, None)

def vint(n): return V(TInt, z3.IntVal(n) if isinstance(n, int) else n)
def vbool(b): return V(TBool, z3.BoolVal(b) if isinstance(b, bool) else b)
def zs(s):
    """z3 string constant for a python str (z3.StringVal interprets backslash-u escapes: protect backslashes)"""
    return z3.StringVal(s.replace('\\', '\\u{5c}'))

def vstr(s): return V(TStr, zs(s) if isinstance(s, str) else s)

def pack(v):
    ty = v.ty
    if ty is TNone: return z3.Const('none_v', sort_of(TNone))
    if isinstance(ty, (TPrim, TEnum, TAny, TRef, TFun)): return v.t
    s = sort_of(ty)
    if isinstance(ty, TOpt):
        isnone, inner = v.t
        if z3.is_true(isnone): return s.constructor(0)()
        some = s.constructor(1)(pack(inner))
        if z3.is_false(isnone): return some
        return z3.If(isnone, s.constructor(0)(), some)
    if isinstance(ty, TTuple): return s.constructor(0)(*[pack(x) for x in v.t])
    if isinstance(ty, TRec): return s.constructor(0)(*[pack(v.t[n]) for n, _ in ty.fields])
    if isinstance(ty, (TSeq, TSet)): return s.constructor(0)(v.t[0], v.t[1])
    if isinstance(ty, TMap): return s.constructor(0)(v.t[0], v.t[1], v.t[2])
    if isinstance(ty, TOMap): return s.constructor(0)(*v.t)
    raise Unsupported('pack %r' % ty)

def unpack(t, ty):
    if ty is TNone: return NONE
    if isinstance(ty, (TPrim, TEnum, TAny, TRef, TFun)): return V(ty, t)
    s = sort_of(ty)
    if isinstance(ty, TOpt):
        return V(ty, (_simp(s.recognizer(0)(t)), unpack(_simp(s.accessor(1, 0)(t)), ty.inner)))
    if isinstance(ty, TTuple):
        return V(ty, [unpack(_simp(s.accessor(0, i)(t)), it) for i, it in enumerate(ty.items)])
    if isinstance(ty, TRec):
        return V(ty, {n: unpack(_simp(s.accessor(0, i)(t)), ft) for i, (n, ft) in enumerate(ty.fields)})
    if isinstance(ty, (TSeq, TSet)):
        return V(ty, (_simp(s.accessor(0, 0)(t)), _simp(s.accessor(0, 1)(t))))
    if isinstance(ty, TMap):
        return V(ty, tuple(_simp(s.accessor(0, i)(t)) for i in range(3)))
    if isinstance(ty, TOMap):
        return V(ty, tuple(_simp(s.accessor(0, i)(t)) for i in range(4)))
    raise Unsupported('unpack %r' % ty)

def _simp(t):
    # cheap projection simplification: accessor(mk(..)) -> field
    return z3.simplify(t, max_steps=200) if t.num_args() and t.arg(0).num_args() and t.arg(0).decl().kind() == z3.Z3_OP_DT_CONSTRUCTOR else t

def havoc(ty, name, facts):
    """fresh symbolic value of type ty; appends type-invariant facts"""
    if ty is TNone: return NONE
    if isinstance(ty, (TPrim, TEnum, TAny, TRef, TFun)):
        return V(ty, fresh(name, sort_of(ty)))
    if isinstance(ty, TOpt):
        return V(ty, (fresh(name + '_isnone', z3.BoolSort()), havoc(ty.inner, name + '_v', facts)))
    if isinstance(ty, TTuple):
        return V(ty, [havoc(t, '%s_%d' % (name, i), facts) for i, t in enumerate(ty.items)])
    if isinstance(ty, TRec):
        return V(ty, {n: havoc(t, '%s_%s' % (name, n), facts) for n, t in ty.fields})
    if isinstance(ty, TSeq):
        ln = fresh(name + '_len', z3.IntSort()); facts.append(ln >= 0)
        return V(ty, (ln, fresh(name + '_arr', z3.ArraySort(z3.IntSort(), sort_of(ty.elem)))))
    if isinstance(ty, TSet):
        mem = fresh(name + '_mem', z3.ArraySort(sort_of(ty.elem), z3.BoolSort()))
        card = card_fn(mem)
        facts.extend(set_facts(mem, card, ty))
        return V(ty, (mem, card))
    if isinstance(ty, TOMap):
        m = V(ty, (fresh(name + '_n', z3.IntSort()), fresh(name + '_ks', z3.ArraySort(z3.IntSort(), sort_of(ty.k))),
                   fresh(name + '_pos', z3.ArraySort(sort_of(ty.k), z3.IntSort())), fresh(name + '_val', z3.ArraySort(sort_of(ty.k), sort_of(ty.v)))))
        facts.extend(omap_inv(m)); return m
    if isinstance(ty, TMap):
        dom = fresh(name + '_dom', z3.ArraySort(sort_of(ty.k), z3.BoolSort()))
        val = fresh(name + '_val', z3.ArraySort(sort_of(ty.k), sort_of(ty.v)))
        card = card_fn(dom)
        facts.extend(set_facts(dom, card, TSet(ty.k)))
        return V(ty, (dom, val, card))
    raise Unsupported('havoc %r' % ty)

def type_facts(v, out=None):
    """facts true of every value of the type (sound to assume for values read from the heap / returned by callees)"""
    if out is None: out = []
    ty = v.ty
    if isinstance(ty, TSeq): out.append(v.t[0] >= 0)
    elif isinstance(ty, TSet): out.extend(set_facts(v.t[0], v.t[1], ty))
    elif isinstance(ty, TMap): out.extend(set_facts(v.t[0], v.t[2], TSet(ty.k)))
    elif isinstance(ty, TOMap): out.extend(omap_inv(v))
    elif isinstance(ty, TOpt): type_facts(v.t[1], out)
    elif isinstance(ty, TTuple): [type_facts(x, out) for x in v.t]
    elif isinstance(ty, TRec): [type_facts(x, out) for x in v.t.values()]
    return out

def empty_set_term(elem_ty):
    return z3.K(sort_of(elem_ty), z3.BoolVal(False))

def card_fn(mem):
    """cardinality as a function of the characteristic array: equal sets have equal cardinality by congruence"""
    return z3.Function('card_' + ''.join(c if c.isalnum() else '_' for c in str(mem.sort())), mem.sort(), z3.IntSort())(mem)

def set_update(mem, card, xt, present):
    """(new mem, new card term, fact) for adding (present=True) / removing (present=False) element xt"""
    mem2 = z3.Store(mem, xt, z3.BoolVal(present)); card2 = card_fn(mem2)
    delta = z3.If(z3.Select(mem, xt), 0, 1) if present else -z3.If(z3.Select(mem, xt), 1, 0)
    return mem2, card2, card2 == card + delta

def set_facts(mem, card, ty):
    """true facts about a finite set's cardinality (sound to assume)"""
    return [card >= 0, (card == 0) == (mem == empty_set_term(ty.elem))]

def join_ty(a, b):
    if a == b: return a
    if a is TNone and b is TNone: return TNone
    if a is TNone: return b if isinstance(b, TOpt) else TOpt(b)
    if b is TNone: return a if isinstance(a, TOpt) else TOpt(a)
    if isinstance(a, TOpt) and isinstance(b, TOpt): return TOpt(join_ty(a.inner, b.inner))
    if isinstance(a, TOpt): return TOpt(join_ty(a.inner, b))
    if isinstance(b, TOpt): return TOpt(join_ty(a, b.inner))
    if a is TBool and b is TInt or a is TInt and b is TBool: return TInt
    if (a is TFloat and b in (TInt, TBool)) or (b is TFloat and a in (TInt, TBool)): return TFloat
    if isinstance(a, TEnum) and a.intvalued and b is TInt: return TInt
    if isinstance(b, TEnum) and b.intvalued and a is TInt: return TInt
    if isinstance(a, TRef) and a.universal and isinstance(b, TRef): return a
    if isinstance(b, TRef) and b.universal and isinstance(a, TRef): return b
    if isinstance(a, TRef) and a.universal and b in (TStr, TInt, TBool): return a
    if isinstance(b, TRef) and b.universal and a in (TStr, TInt, TBool): return b
    if isinstance(a, TTuple) and isinstance(b, TTuple) and len(a.items) == len(b.items):
        return TTuple([join_ty(x, y) for x, y in zip(a.items, b.items)])
    # the empty literal ( (), [], set(), frozenset(), {} ) is a value of every collection type
    if isinstance(b, TTuple) and not b.items and isinstance(a, (TSet, TMap, TOMap)): return a
    if isinstance(a, TTuple) and not a.items and isinstance(b, (TSet, TMap, TOMap)): return b
    if isinstance(a, TSeq) and isinstance(b, TTuple):
        return TSeq(_join_all([a.elem] + b.items))
    if isinstance(b, TSeq) and isinstance(a, TTuple):
        return TSeq(_join_all([b.elem] + a.items))
    if isinstance(a, TTuple) and isinstance(b, TTuple):
        return TSeq(_join_all(a.items + b.items))
    if isinstance(a, TSeq) and isinstance(b, TSeq):
        return TSeq(join_ty(a.elem, b.elem))
    raise Unsupported('cannot join types %r and %r' % (a, b))

def _join_all(tys):
    if not tys: raise Unsupported('cannot infer element type of empty collection')
    r = tys[0]
    for t in tys[1:]: r = join_ty(r, t)
    return r

def coerce(v, ty):
    """convert value v to type ty (lossless widening)"""
    if v.ty == ty: return v
    if isinstance(ty, TAny) and v.ty is TStr and z3.is_string_value(z3.simplify(v.t)):
        # a string literal where an opaque (TAny) value is expected denotes one fixed element of that type
        return V(ty, z3.Const('strlit_%s_%s' % (ty.name, z3.simplify(v.t).as_string().encode().hex()), sort_of(ty)))
    if isinstance(ty, TOpt):
        if v.ty is TNone:
            facts = []
            return V(ty, (z3.BoolVal(True), default_value(ty.inner)))
        if isinstance(v.ty, TOpt):
            return V(ty, (v.t[0], coerce(v.t[1], ty.inner)))
        return V(ty, (z3.BoolVal(False), coerce(v, ty.inner)))
    if isinstance(v.ty, TTuple) and not v.t and isinstance(ty, TFun):
        return V(ty, z3.K(sort_of(ty.k), pack(coerce(v, ty.v))))       # every key reads as the (empty) default
    if isinstance(v.ty, TTuple) and not v.t and isinstance(ty, TSeq):
        return seq_literal([], ty.elem)
    if isinstance(v.ty, TTuple) and not v.t and isinstance(ty, TOMap):
        return V(ty, (z3.IntVal(0), z3.K(z3.IntSort(), pack(default_value(ty.k))), z3.K(sort_of(ty.k), z3.IntVal(-1)), z3.K(sort_of(ty.k), pack(default_value(ty.v)))))
    if isinstance(v.ty, TTuple) and not v.t and isinstance(ty, (TMap, TSet)):
        if isinstance(ty, TSet): return V(ty, (empty_set_term(ty.elem), z3.IntVal(0)))
        return V(ty, (empty_set_term(ty.k), z3.K(sort_of(ty.k), pack(default_value(ty.v))), z3.IntVal(0)))
    if isinstance(ty, TRef) and ty.universal and isinstance(v.ty, TRef): return V(ty, v.t)     # any object is an object
    if isinstance(ty, TRef) and ty.universal and v.ty in (TStr, TInt, TBool):
        return V(ty, box_term(v))
    if ty is TInt and v.ty is TBool: return V(TInt, z3.If(v.t, z3.IntVal(1), z3.IntVal(0)))
    if ty is TFloat and v.ty in (TInt, TBool): return V(TFloat, z3.ToReal(coerce(v, TInt).t))
    if ty is TInt and v.ty is TFlags: return V(TInt, z3.BV2Int(v.t, False))
    if ty is TFlags and v.ty is TInt: return V(TFlags, z3.Int2BV(v.t, 64))
    if ty is TInt and isinstance(v.ty, TEnum) and v.ty.intvalued: return V(TInt, v.ty.value_term(v.t))
    if isinstance(ty, TTuple) and isinstance(v.ty, TTuple) and len(ty.items) == len(v.ty.items):
        return V(ty, [coerce(x, t) for x, t in zip(v.t, ty.items)])
    if isinstance(ty, TSeq) and isinstance(v.ty, TTuple):
        return seq_literal([coerce(x, ty.elem) for x in v.t], ty.elem)
    if isinstance(ty, TSeq) and isinstance(v.ty, TSeq):
        ln, arr = v.t
        i = z3.Int('ci!')
        return V(ty, (ln, z3.Lambda([i], pack(coerce(unpack(arr[i], v.ty.elem), ty.elem)))))
    if isinstance(ty, TRec) and isinstance(v.ty, TTuple) and len(ty.fields) == len(v.ty.items):
        return V(ty, {n: coerce(x, t) for x, (n, t) in zip(v.t, ty.fields)})
    if isinstance(ty, TTuple) and isinstance(v.ty, TRec) and len(ty.items) == len(v.ty.fields):
        return V(ty, [coerce(v.t[n], t) for (n, _), t in zip(v.ty.fields, ty.items)])
    raise Unsupported('cannot coerce %r to %r' % (v.ty, ty))

def box_term(v):
    """injection of a primitive value into the universal object sort (distinct primitives -> distinct objects)"""
    ref = TRef('_').sort()
    if v.ty is TStr:
        return z3.Function('box_str', z3.StringSort(), ref)(v.t)
    t = v.t if v.ty is TInt else z3.If(v.t, z3.IntVal(1), z3.IntVal(0))
    return z3.Function('box_int', z3.IntSort(), ref)(t)

def box_facts(v, boxed):
    """injectivity instance for a freshly boxed primitive"""
    ref = TRef('_').sort()
    if v.ty is TStr:
        return [z3.Function('unbox_str', ref, z3.StringSort())(boxed) == v.t, z3.Function('is_boxed_str', ref, z3.BoolSort())(boxed),
                z3.Not(z3.Function('is_boxed_int', ref, z3.BoolSort())(boxed))]
    t = v.t if v.ty is TInt else z3.If(v.t, z3.IntVal(1), z3.IntVal(0))
    return [z3.Function('unbox_int', ref, z3.IntSort())(boxed) == t, z3.Function('is_boxed_int', ref, z3.BoolSort())(boxed),
            z3.Not(z3.Function('is_boxed_str', ref, z3.BoolSort())(boxed))]

def default_value(ty):
    """an arbitrary but fixed value of the type (payload of a None option)"""
    if ty is TNone: return NONE
    if isinstance(ty, (TPrim, TEnum, TAny, TRef, TFun)):
        return V(ty, z3.Const('dflt_' + ''.join(c if c.isalnum() else '_' for c in ty.key), sort_of(ty)))
    return unpack(z3.Const('dflt_' + _dtname(ty), sort_of(ty)), ty)

def seq_literal(vals, elem_ty):
    arr = z3.K(z3.IntSort(), pack(default_value(elem_ty)))
    for i, x in enumerate(vals):
        arr = z3.Store(arr, i, pack(coerce(x, elem_ty)))
    return V(TSeq(elem_ty), (z3.IntVal(len(vals)), arr))

def vite(c, a, b):
    """if-then-else merge of two values under z3 Bool c"""
    if z3.is_true(c): return a
    if z3.is_false(c): return b
    ty = join_ty(a.ty, b.ty)
    a = coerce(a, ty); b = coerce(b, ty)
    return _ite(c, a, b, ty)

def _ite(c, a, b, ty):
    if ty is TNone: return NONE
    if isinstance(ty, (TPrim, TEnum, TAny, TRef, TFun)): return V(ty, z3.If(c, a.t, b.t))
    if isinstance(ty, TOpt): return V(ty, (z3.If(c, a.t[0], b.t[0]), _ite(c, a.t[1], b.t[1], ty.inner)))
    if isinstance(ty, TTuple): return V(ty, [_ite(c, x, y, t) for x, y, t in zip(a.t, b.t, ty.items)])
    if isinstance(ty, TRec): return V(ty, {n: _ite(c, a.t[n], b.t[n], t) for n, t in ty.fields})
    if isinstance(ty, (TSeq, TSet, TMap, TOMap)): return V(ty, tuple(z3.If(c, x, y) for x, y in zip(a.t, b.t)))
    raise Unsupported('ite %r' % ty)

def seq_get(v, i):
    return unpack(v.t[1][i], v.ty.elem)

def seq_eq(a, b):
    """extensional equality of two sequences (as z3 Bool)"""
    if a.t[0] is b.t[0] and a.t[1] is b.t[1]: return z3.BoolVal(True)
    if z3.eq(a.t[0], b.t[0]) and z3.eq(a.t[1], b.t[1]): return z3.BoolVal(True)
    i = fresh('qi', z3.IntSort())
    ety = join_ty(a.ty.elem, b.ty.elem)
    return z3.And(a.t[0] == b.t[0],
                  z3.ForAll([i], z3.Implies(z3.And(i >= 0, i < a.t[0]),
                                             veq(coerce(seq_get(a, i), ety), coerce(seq_get(b, i), ety)))))

def veq(a, b):
    """python == as z3 Bool"""
    ta, tb = a.ty, b.ty
    if ta is TNone and tb is TNone: return z3.BoolVal(True)
    if ta is TNone: a, b, ta, tb = b, a, tb, ta
    if tb is TNone:
        if ta is TMatch: return z3.Not(a.t[0])
        if isinstance(ta, TOpt): return a.t[0]
        return z3.BoolVal(False)
    if isinstance(ta, TOpt) or isinstance(tb, TOpt):
        ty = join_ty(ta, tb); a = coerce(a, ty); b = coerce(b, ty)
        return z3.And(a.t[0] == b.t[0], z3.Or(a.t[0], veq(a.t[1], b.t[1])))
    if ta is TExc or tb is TExc: raise Unsupported('== on exceptions')
    if ta is TFlags and tb in (TInt, TBool): return a.t == z3.Int2BV(coerce(b, TInt).t, 64)
    if tb is TFlags and ta in (TInt, TBool): return b.t == z3.Int2BV(coerce(a, TInt).t, 64)
    if isinstance(ta, TPrim) and isinstance(tb, TPrim):
        if ta is tb: return a.t == b.t
        if {ta, tb} == {TInt, TBool}: return coerce(a, TInt).t == coerce(b, TInt).t
        if {ta, tb} <= {TInt, TFloat, TBool}: return z3.ToReal(coerce(a, TInt).t) == b.t if tb is TFloat else a.t == z3.ToReal(coerce(b, TInt).t)
        return z3.BoolVal(False)
    if isinstance(ta, TEnum) and isinstance(tb, TEnum):
        return a.t == b.t if ta == tb else z3.BoolVal(False)
    if isinstance(ta, TEnum) and ta.intvalued and tb in (TInt, TBool): return ta.value_term(a.t) == coerce(b, TInt).t
    if isinstance(tb, TEnum) and tb.intvalued and ta in (TInt, TBool): return tb.value_term(b.t) == coerce(a, TInt).t
    if isinstance(ta, TEnum) and tb is TStr:
        return _enum_str_eq(a, b)
    if isinstance(tb, TEnum) and ta is TStr:
        return _enum_str_eq(b, a)
    if isinstance(ta, TRef) and ta.universal and tb in (TStr, TInt, TBool): return a.t == box_term(b)
    if isinstance(tb, TRef) and tb.universal and ta in (TStr, TInt, TBool): return b.t == box_term(a)
    if isinstance(ta, (TAny, TRef)) and isinstance(tb, (TAny, TRef)):
        return a.t == b.t if sort_of(ta) == sort_of(tb) else z3.BoolVal(False)
    if isinstance(ta, (TTuple, TRec)) and isinstance(tb, (TTuple, TRec)):
        xs = a.t if isinstance(ta, TTuple) else [a.t[n] for n, _ in ta.fields]
        ys = b.t if isinstance(tb, TTuple) else [b.t[n] for n, _ in tb.fields]
        if len(xs) != len(ys): return z3.BoolVal(False)
        return z3.And(*[veq(x, y) for x, y in zip(xs, ys)]) if xs else z3.BoolVal(True)
    if isinstance(ta, TSeq) and isinstance(tb, TTuple): b = coerce(b, TSeq(_join_all(tb.items)) if tb.items else ta); tb = b.ty
    if isinstance(tb, TSeq) and isinstance(ta, TTuple): a = coerce(a, TSeq(_join_all(ta.items)) if ta.items else tb); ta = a.ty
    if isinstance(ta, TSeq) and isinstance(tb, TSeq): return seq_eq(a, b)
    if isinstance(ta, TSet) and isinstance(tb, TSet): return a.t[0] == b.t[0]
    if isinstance(ta, TFun) and isinstance(tb, TFun): return a.t == b.t
    if isinstance(ta, TOMap) and isinstance(tb, TOMap):
        i = fresh('qi', z3.IntSort())
        return z3.And(a.t[0] == b.t[0], z3.ForAll([i], z3.Implies(z3.And(i >= 0, i < a.t[0]),
                      z3.And(a.t[1][i] == b.t[1][i], a.t[3][a.t[1][i]] == b.t[3][a.t[1][i]]))))
    if isinstance(ta, TMap) and isinstance(tb, TMap):
        k = fresh('qk', sort_of(ta.k))
        return z3.And(a.t[0] == b.t[0], z3.ForAll([k], z3.Implies(a.t[0][k], a.t[1][k] == b.t[1][k])))
    if ta.kind != tb.kind: return z3.BoolVal(False)
    raise Unsupported('== between %r and %r' % (ta, tb))

def _enum_str_eq(e, s):
    ty = e.ty
    if not all(isinstance(x, str) for x in ty.values): return z3.BoolVal(False)
    return z3.Or(*[z3.And(e.t == ty.const(m), s.t == zs(val)) for m, val in zip(ty.members, ty.values)])

def truth(v):
    """python truthiness as z3 Bool"""
    ty = v.ty
    if ty is TBool: return v.t
    if ty is TInt: return v.t != 0
    if ty is TFloat: return v.t != 0
    if ty is TStr or ty is TBytes: return z3.Length(v.t) > 0
    if ty is TFlags: return v.t != 0
    if ty is TMatch: return v.t[0]
    if ty is TNone: return z3.BoolVal(False)
    if isinstance(ty, TOpt): return z3.And(z3.Not(v.t[0]), truth(v.t[1]))
    if isinstance(ty, TSeq): return v.t[0] > 0
    if isinstance(ty, TSet): return v.t[1] > 0
    if isinstance(ty, TMap): return v.t[2] > 0
    if isinstance(ty, TOMap): return v.t[0] > 0
    if isinstance(ty, TTuple): return z3.BoolVal(len(v.t) > 0)
    if isinstance(ty, TEnum):
        if ty.intvalued: return ty.value_term(v.t) != 0
        return z3.BoolVal(True)
    if isinstance(ty, TAny) and ty.truthy == 'uninterpreted':
        return z3.Function('truthy_' + ty.name, sort_of(ty), z3.BoolSort())(v.t)
    if isinstance(ty, TRef) and ty.truthy == 'uninterpreted':
        return z3.Function('truthy_' + ty.cls, sort_of(ty), z3.BoolSort())(v.t)
    if isinstance(ty, (TRef, TRec, TAny)) or ty is TExc: return z3.BoolVal(True)
    raise Unsupported('truthiness of %r' % ty)
